#!/bin/bash
# usage: evalm.sh <seeded-id> [PROP...] : apply seeded patch to scratch copy and run the checks
id=$1; shift
props=${@:-$(seq -f "C%02g" 1 20)}
tmp=$(mktemp -d /tmp/evm-XXXX); cp -r /repo/signac $tmp/signac
(cd $tmp && patch -p1 -s -i /verif/seeded/$id/patch.diff) || { echo APPLY-FAIL; rm -rf $tmp; exit 1; }
for p in $props; do out=$(cd /verif && ./check $p --repo $tmp --evidence-dir $tmp/ev --no-selftest 2>&1); rc=$?; echo "$id $p exit=$rc"; echo "$out" | grep -E "^(VIOLATION|ANALYSIS-ERROR) rule" | cut -c1-330; done
rm -rf $tmp
