"""C07 - all query front ends, cursors and groupby agree with find_jobs (thin structural part)."""
import ast

from ..engine import rule, Ctx
from ..core import UNKNOWN, dotted, kwarg, body_nodes, inline, stmt_key, canon, walk_no_nested, names_in
from . import common
from .c06 import c06_a

PROP = "C07"
FLOOR = 16
EXPLANATION = (
    "Decided (thin structural part): (a) JobsCursor.__len__ / __contains__ answer from the cached id list / set when a filter "
    "is present and from the project otherwise, __iter__ / __getitem__ use the same cached id list, which is filled once from "
    "Project._find_job_ids(self._filter); (b) every place that splits a key at its first dot compares the first component "
    "with the namespace set {'sp','doc'} (component equality, not a text prefix) before dropping or keeping it, and groupby "
    "does not use a dotted path as a flat subscript; (c) groupby queries the cursor's own filter, combined by $and with the "
    "$exists pre-filter when no default is given (never merged into one mapping, where keys would collide); (d) the "
    "command line value parser tries int before float on the raw token; parse_filter handles str / Mapping / iterable."
    ' The string form of a filter is tokenised at white space only (no second round of quote / escape processing).'
    ' (g) What cursor[i:j] / iter(cursor) hands out restarts from the stored id list on every iteration; a value token is JSON-decoded only behind _is_json_like.'
    ' The $exists pre-filter of groupby is keyed by the grouping keys as given, not by their prefix-stripped copies (C07-c); int() before float() on the raw token in whichever function casts it (C07-d); (i) every sub-command tells an empty selection from no selection by identity (C07-i); (j) no pairwise zip of the token list (C07-j).'
)
UNDECIDED = "Equivalence of all spellings, CLI casting for every token and exactness of the partition are value-level and not decided."

CUR = "signac.project:JobsCursor"
NS = {"sp", "doc"}


@rule("C07-a")
def c07_a(ctx: Ctx):
    """One id source for the cursor protocol."""
    R = "C07-a"
    out = []
    ln = ctx.fn(CUR + ".__len__")
    # an unfiltered cursor lists the workspace directory (len / iteration) but answers `job in cursor` through `job in project`: both must mean
    # "a directory named <id> exists in the workspace"
    for q in ("signac.project:Project.__contains__", "signac.project:Project._contains_job_id"):
        pf = ctx.fn(q)
        k = q + "|membership-is-directory"
        rets = [r for r in body_nodes(pf) if isinstance(r, ast.Return) and r.value is not None]
        deleg = [r for r in rets if isinstance(r.value, ast.Call) and "signac.project:Project._contains_job_id" in common.targets_of(ctx, pf, r.value)]
        tests = [c for c in body_nodes(pf) if isinstance(c, ast.Call) and common.ext_name(ctx, pf, c) in ("os.path.exists", "os.path.isdir", "os.path.isfile", "os.path.lexists")]
        if q.endswith("__contains__") and deleg and not tests:
            out.append(ctx.ok(R, pf, deleg[0], "`job in project` delegates to _contains_job_id(job.id)", construct=k))
            continue
        bad = None
        for c in tests:
            a = common.inline_at(ctx, pf, c.args[0], c) if c.args else None
            parts = None
            if isinstance(a, ast.Call) and (dotted(a.func) or "").endswith("join") and a.args:
                parts = a.args[0].elts if isinstance(a.args[0], (ast.Tuple, ast.List)) and len(a.args) == 1 else a.args
            if common.ext_name(ctx, pf, c) == "os.path.isfile" or (parts is not None and len(parts) != 2):
                bad = bad or c
        if bad is not None:
            out.append(ctx.viol(R, pf, bad, f"membership is decided by `{canon(bad)[:70]}`, not by the existence of the job directory: a directory without state point file (interrupted init) is "
                                "listed, counted and iterated by the cursor but `job in cursor` is False - len / iteration and membership disagree", construct=k))
        elif tests:
            out.append(ctx.ok(R, pf, tests[0], "membership = the job directory <workspace>/<id> exists, the same notion the listing uses", construct=k))
        else:
            out.append(ctx.inc(R, pf, pf.node, "membership test not recognised", construct=k))
    cn = ctx.fn(CUR + ".__contains__")
    has_set = (CUR + "._id_set") in ctx.prog.funcs
    for f, with_f, without in ((ln, "len(self._ids)", "len(self._project)"), (cn, None, None)):
        # attributes / locals of this function that hold a collection built from self._ids only (the cached membership set)
        derived = {"self._ids"} | ({"self._id_set"} if has_set else set())
        for a in body_nodes(f):
            if isinstance(a, ast.Assign) and len(a.targets) == 1 and isinstance(a.targets[0], (ast.Name, ast.Attribute)):
                vt = canon(a.value)
                if "self._ids" in vt and "self._project" not in vt and isinstance(a.value, ast.Call) and dotted(a.value.func) in ("set", "frozenset", "list", "tuple"):
                    derived.add(canon(a.targets[0]))
        for r in [n for n in body_nodes(f) if isinstance(n, ast.Return) and n.value is not None]:
            facts = common.facts_at(ctx, f, r, "n")
            t = canon(r.value)
            uses_ids = any(d in t for d in derived)
            uses_proj = "self._project" in t
            if ("self._filter", True) in facts:
                if uses_ids and not uses_proj:
                    out.append(ctx.ok(R, f, r, f"with a filter the answer comes from the matched ids ({t})"))
                else:
                    out.append(ctx.viol(R, f, r, f"with a filter {f.name} answers from {t}, not from the ids the filter matched"))
            else:
                if uses_proj and not uses_ids:
                    out.append(ctx.ok(R, f, r, f"without a filter the answer comes from the project ({t})"))
                elif uses_ids:
                    out.append(ctx.ok(R, f, r, f"answer from the matched ids ({t})"))
                else:
                    out.append(ctx.viol(R, f, r, f"{f.name} returns {t}, which is derived neither from the matched ids nor from the project"))
    for name in ("__iter__", "__getitem__"):
        f = ctx.fn(f"{CUR}.{name}")
        txt = " ".join(canon(n) for n in body_nodes(f) if isinstance(n, (ast.Return, ast.Assign)))
        if "self._ids" in txt and "_job_dirs" not in txt and "_find_job_ids" not in txt:
            out.append(ctx.ok(R, f, f.node, f"{name} uses the cached id list self._ids"))
        else:
            out.append(ctx.viol(R, f, f.node, f"{name} does not use the cached id list: iteration / indexing and len / membership can describe different id sets"))
    ids = ctx.fn(CUR + "._ids")
    calls = [c for c in body_nodes(ids) if isinstance(c, ast.Call) and "signac.project:Project._find_job_ids" in common.targets_of(ctx, ids, c)]
    if calls and calls[0].args and canon(calls[0].args[0]) == "self._filter":
        facts = common.facts_at(ctx, ids, calls[0], "n")
        if ("self._id_cache is None", True) in facts:
            out.append(ctx.ok(R, ids, calls[0], "ids are computed once from _find_job_ids(self._filter) and cached"))
        else:
            out.append(ctx.viol(R, ids, calls[0], "ids are recomputed on every access: len / iteration may see different results"))
    else:
        out.append(ctx.viol(R, ids, ids.node, "the id list is not _find_job_ids(self._filter)"))
    # the membership set: the _id_set property, or (when it was folded into its only user) the set built in __contains__
    st = ctx.fn(CUR + "._id_set") if has_set else cn
    if any(isinstance(c, ast.Call) and canon(c) == "set(self._ids)" for c in body_nodes(st)):
        out.append(ctx.ok(R, st, st.node, "the id set is set(self._ids)"))
    elif has_set:
        out.append(ctx.viol(R, st, st.node, "the membership set is not built from self._ids"))
    elif any(isinstance(r, ast.Return) and "self._ids" in canon(r.value) for r in body_nodes(cn) if isinstance(r, ast.Return) and r.value is not None):
        out.append(ctx.ok(R, cn, cn.node, "membership is answered from self._ids directly"))
    else:
        out.append(ctx.viol(R, cn, cn.node, "there is no membership set built from self._ids (neither an _id_set property nor a set in __contains__)"))
    return out


def _ns_tests(ctx, f):
    """Classify how a function decides on the namespace of a (dotted) key."""
    res = []
    for n in body_nodes(f):
        if isinstance(n, ast.Compare) and len(n.ops) == 1:
            l, r = n.left, n.comparators[0]
            if isinstance(n.ops[0], (ast.In, ast.Eq)):
                cont = ctx.fold(r, f)
                if isinstance(cont, (tuple, list, frozenset, set)) and set(cont) <= NS and cont or (isinstance(cont, str) and cont in NS):
                    lt = canon(l).replace(" ", "")
                    if "split('.',1)[0]" in lt or "partition('.')[0]" in lt or isinstance(l, ast.Name):
                        res.append((n, "component"))
                    else:
                        res.append((n, "other:" + lt))
        if isinstance(n, ast.Call) and isinstance(n.func, ast.Attribute) and n.func.attr == "startswith" and n.args:
            v = ctx.fold(n.args[0], f)
            vals = v if isinstance(v, tuple) else (v,)
            if all(isinstance(x, str) for x in vals) and any(x.rstrip(".") in NS for x in vals):
                if all(x.endswith(".") for x in vals):
                    res.append((n, "prefix-with-dot"))
                else:
                    res.append((n, "text-prefix"))
    return res


@rule("C07-b")
def c07_b(ctx: Ctx):
    """Namespace-split discipline in the query front end and in groupby."""
    R = "C07-b"
    out = []
    ap = ctx.fn("signac.filterparse:_add_prefix")
    tests = _ns_tests(ctx, ap)
    if not tests:
        # a regular expression may decide it: fold the pattern and probe it with keys on both sides of the component rule
        import re as _re
        rxc = [c for c in body_nodes(ap) if isinstance(c, ast.Call) and isinstance(c.func, ast.Attribute) and c.func.attr in ("match", "fullmatch", "search")]
        done = False
        for c in rxc:
            pat = ctx.fold(c.func.value, ap)
            if isinstance(pat, tuple) and pat and pat[0] == "re.compile" and isinstance(pat[1], str):
                try:
                    cre = _re.compile(pat[1])
                except _re.error:
                    continue
                fn = getattr(cre, c.func.attr)
                must = ["sp", "doc", "sp.a", "doc.a", "sp.a.b"]
                mustnot = ["species", "docking", "sp-ratio", "doc-id", "spx.a", "a.sp", "sp_a", "doc id", "sp$x"]
                wrong = [k for k in must if not fn(k)] + [k for k in mustnot if fn(k)]
                done = True
                if wrong:
                    out.append(ctx.viol(R, ap, c, f"_add_prefix decides the namespace with the pattern {pat[1]!r} ({c.func.attr}); it classifies {wrong} differently from the component rule "
                                        "(first dotted component is exactly 'sp' or 'doc') that _root_keys and groupby apply: such state point keys lose the default sp. prefix and match nothing"))
                else:
                    out.append(ctx.ok(R, ap, c, f"namespace decided by the pattern {pat[1]!r}, which agrees with the component rule on the probe keys"))
        if not done:
            out.append(ctx.inc(R, ap, ap.node, "_add_prefix: namespace test not found"))
    for n, kind in tests:
        if kind in ("component", "prefix-with-dot"):
            out.append(ctx.ok(R, ap, n, f"namespace decided by whole first component ({canon(n)[:50]})"))
        elif kind == "text-prefix":
            out.append(ctx.viol(R, ap, n, f"namespace decided by text prefix ({canon(n)[:50]}): state point keys that merely begin with 'sp' or 'doc' (species, docking) lose the default sp. prefix and match nothing"))
        else:
            out.append(ctx.inc(R, ap, n, "namespace test shape: " + kind))
    gb = ctx.fn(CUR + ".groupby")
    sp = gb.nested.get("_strip_prefix")
    dk = gb.nested.get("_is_doc_key")
    if sp is None or dk is None:
        out.append(ctx.inc(R, gb, gb.node, "groupby helpers _strip_prefix / _is_doc_key not found"))
        return out
    t2 = _ns_tests(ctx, dk)
    if any(k == "component" for _, k in t2):
        out.append(ctx.ok(R, dk, dk.node, "_is_doc_key compares the first component with 'doc'"))
    else:
        out.append(ctx.inc(R, dk, dk.node, "_is_doc_key shape not recognised"))
    t3 = _ns_tests(ctx, sp)
    rets = [n for n in body_nodes(sp) if isinstance(n, ast.Return) and n.value is not None]
    strips_any = any("split('.', 1)[-1]" in canon(r.value) or "split('.', 1)[1]" in canon(r.value) or "partition('.')" in canon(r.value) for r in rets)
    k = f"{gb.qual}|strip-prefix"
    if strips_any and not t3:
        out.append(ctx.viol(R, sp, sp.node, "groupby._strip_prefix drops the first dotted component of every key without checking that it is a namespace ('sp' / 'doc'): "
                            "groupby('a.b') pre-filters on the nested key a.b but labels jobs by sp['b'] (KeyError, or the default for every job)", construct=k))
    elif t3:
        out.append(ctx.ok(R, sp, sp.node, "_strip_prefix removes the first component only if it is a namespace", construct=k))
    else:
        out.append(ctx.inc(R, sp, sp.node, "_strip_prefix shape not recognised", construct=k))
    # dotted keys used as flat subscripts
    flat = []
    for f in gb.nested_all:
        if f.name == "keyfunction":
            for n in body_nodes(f):
                if isinstance(n, ast.Subscript) and isinstance(n.slice, ast.Name) and ("statepoint" in canon(n.value) or "document" in canon(n.value)):
                    flat.append((f, n))
                if isinstance(n, ast.Call) and isinstance(n.func, ast.Attribute) and n.func.attr == "get" and n.args and isinstance(n.args[0], ast.Name) and ("statepoint" in canon(n.func.value) or "document" in canon(n.func.value)):
                    flat.append((f, n))
    handles_dots = any("split('.')" in canon(n) or "_nested" in canon(n) for f in gb.nested_all for n in body_nodes(f) if isinstance(n, ast.Call)) and not strips_any
    k = f"{gb.qual}|flat-subscript"
    if flat and not handles_dots:
        f, n = flat[0]
        out.append(ctx.viol(R, f, n, f"groupby key functions subscript the state point / document with the (possibly dotted) key as one flat key ({len(flat)} sites), while the "
                            "$exists pre-filter interprets the same key as a nested path", construct=k))
    else:
        out.append(ctx.ok(R, gb, gb.node, "groupby key functions resolve dotted keys as nested paths", construct=k))
    return out


@rule("C07-c")
def c07_c(ctx: Ctx):
    """groupby partitions the cursor's own selection."""
    R = "C07-c"
    gb = ctx.fn(CUR + ".groupby")
    out = []
    # the filter variable: whatever local is handed to find_jobs() in the end
    q = [c for c in body_nodes(gb) if isinstance(c, ast.Call) and isinstance(c.func, ast.Attribute) and c.func.attr == "find_jobs"]
    if not q or not q[0].args or not isinstance(q[0].args[0], ast.Name):
        return [ctx.viol(R, gb, gb.node, "the grouped jobs are not queried with a constructed filter (find_jobs(<filter variable>))")]
    FV = q[0].args[0].id
    first = [n for n in body_nodes(gb) if isinstance(n, ast.Assign) and any(isinstance(t, ast.Name) and t.id == FV for t in n.targets)]
    if not first or canon(first[0].value) != "self._filter":
        return [ctx.viol(R, gb, gb.node, "groupby does not start from the cursor's own filter")]
    out.append(ctx.ok(R, gb, first[0], "groupby starts from the cursor's filter"))
    import copy as _copy

    def _expand(v, at):
        """write out plain locals (other than the filter variable) by their unique reaching definition"""
        class _S(ast.NodeTransformer):
            def visit_Name(self, node):
                if isinstance(node.ctx, ast.Load) and node.id != FV and node.id not in gb.params:
                    try:
                        ds = common.reaching_defs(ctx, gb, node.id, at)
                    except Exception:
                        return node
                    real = [d for d in ds if not (isinstance(d, ast.Constant) and d.value is None)]
                    if real and all(isinstance(d, (ast.Dict, ast.DictComp)) for d in real) and (len(real) == 1 or all("$exists" in canon(d) for d in real)):
                        return ast.copy_location(_copy.deepcopy(real[0]), node)
                return node
        return _S().visit(_copy.deepcopy(v))

    for a in first[1:]:
        facts = common.facts_at(ctx, gb, a, "n")
        v = _expand(a.value, a)
        t = canon(v)
        if (FV + " is None", True) in facts:
            if "$exists" in t:
                out.append(ctx.ok(R, gb, a, "no cursor filter: the query is the $exists pre-filter alone"))
            else:
                out.append(ctx.inc(R, gb, a, "unrecognised filter construction: " + t[:60]))
            continue
        # cursor filter present
        is_and = isinstance(v, ast.Dict) and len(v.keys) == 1 and isinstance(v.keys[0], ast.Constant) and v.keys[0].value == "$and" \
            and isinstance(v.values[0], (ast.List, ast.Tuple)) and any(isinstance(e, ast.Name) and e.id == FV for e in v.values[0].elts)
        if is_and and "$exists" in t:
            out.append(ctx.ok(R, gb, a, "the $exists pre-filter is combined with the cursor's filter by $and"))
        elif isinstance(v, ast.Dict) and any(k is None for k in v.keys):
            out.append(ctx.viol(R, gb, a, f"the cursor's filter and the $exists pre-filter are merged into one mapping ({t[:70]}): when the filter constrains the grouping key itself "
                                "the $exists entry replaces that constraint and jobs outside the selection are grouped"))
        elif isinstance(v, ast.Call) and isinstance(v.func, ast.Name) and v.func.id == "dict" and FV in names_in(v) and (v.keywords or len(v.args) > 1):
            out.append(ctx.viol(R, gb, a, f"the cursor's filter and the $exists pre-filter are merged into one mapping ({t[:70]}): when the filter constrains the grouping key itself "
                                "the $exists entry replaces that constraint and jobs outside the selection are grouped"))
        elif isinstance(v, ast.Call) and isinstance(v.func, ast.Name) and FV in names_in(v):
            # a helper builds the combined filter: any return that merges the two mappings into one is the violating shape
            tg = [t for t in gb.nested_all if t.name == v.func.id] or [t for t in ctx.calls.resolve_call(gb, v)[0]]
            merged = None
            anded = False
            for h in tg:
                for r in [x for x in body_nodes(h) if isinstance(x, ast.Return) and x.value is not None]:
                    rv = common.inline_at(ctx, h, r.value, r)
                    for d in [x for x in ast.walk(rv) if isinstance(x, ast.Dict)]:
                        if any(k is None for k in d.keys):
                            merged = (h, r)
                        if any(isinstance(k, ast.Constant) and k.value == "$and" for k in d.keys):
                            anded = True
                    if any(isinstance(x, ast.Call) and isinstance(x.func, ast.Attribute) and x.func.attr == "update" for x in ast.walk(h.node)):
                        merged = merged or (h, r)
            if merged:
                h, r = merged
                out.append(ctx.viol(R, h, r, f"helper {h.name} can merge the cursor's filter and the $exists pre-filter into one mapping ({canon(r.value)[:60]}): keys that name the same state point "
                                    "key in different spellings ('a' / 'sp.a') collapse after prefixing and the cursor's own condition is lost, so jobs outside the selection are grouped"))
            elif anded:
                out.append(ctx.ok(R, gb, a, f"helper {v.func.id} combines the pre-filter with the cursor's filter by $and"))
            else:
                out.append(ctx.inc(R, gb, a, "unrecognised filter construction: " + t[:60]))
        elif FV not in names_in(v):
            out.append(ctx.viol(R, gb, a, "the cursor's filter is dropped when the $exists pre-filter is built: jobs outside the selection are grouped"))
        else:
            out.append(ctx.inc(R, gb, a, "unrecognised filter construction: " + t[:60]))
    if q and q[0].args and canon(q[0].args[0]) == FV:
        out.append(ctx.ok(R, gb, q[0], "the grouped jobs are find_jobs(<the constructed filter>)"))
    else:
        out.append(ctx.viol(R, gb, gb.node, "the grouped jobs are not queried with the constructed filter"))
    # pre-filter only when no default
    for a in first[1:]:
        facts = common.facts_at(ctx, gb, a, "n")
        if ("default is None", True) in facts:
            continue
        # the pre-filter may have been built earlier into a local that stays None when a default is given: then every construction of an
        # $exists mapping that can reach this assignment must itself be under `default is None`
        srcs = []
        for nm in sorted(names_in(a.value) - {FV} - set(gb.params)):
            try:
                ds = common.reaching_defs(ctx, gb, nm, a)
            except Exception:
                ds = ["?"]
            srcs += [(nm, d) for d in ds]
        builds = [(nm, d) for (nm, d) in srcs if isinstance(d, ast.AST) and "$exists" in canon(d)]
        others = [(nm, d) for (nm, d) in srcs if not (isinstance(d, ast.AST) and ("$exists" in canon(d) or (isinstance(d, ast.Constant) and d.value is None)))]
        guarded = builds and not others and all(("default is None", True) in common.facts_at(ctx, gb, d, "n") for (_nm, d) in builds) \
            and all((f"{nm} is None", False) in facts for (nm, _d) in builds)
        if not guarded:
            out.append(ctx.viol(R, gb, a, "the $exists pre-filter is applied although a default was given: jobs lacking the key are dropped instead of labelled with the default"))
    # the pre-filter names the grouping keys as the caller spelled them (with their 'doc.' / 'sp.' prefix): the query engine decides the namespace from that
    # prefix, so the keys come from the `key` parameter itself, never from the prefix-stripped copies the key function works with
    kp = "key" if "key" in gb.params else None
    stripped_names = set()
    for n in body_nodes(gb):
        tgt = None
        val = None
        if isinstance(n, ast.Assign) and len(n.targets) == 1 and isinstance(n.targets[0], ast.Name):
            tgt, val = n.targets[0].id, n.value
        elif isinstance(n, ast.Call) and isinstance(n.func, ast.Attribute) and n.func.attr in ("append", "add", "extend") and isinstance(n.func.value, ast.Name) and n.args:
            tgt, val = n.func.value.id, n.args[0]
        if tgt and val is not None and any(isinstance(c, ast.Call) and ((isinstance(c.func, ast.Name) and c.func.id == "_strip_prefix") or
                                                                      (isinstance(c.func, ast.Attribute) and c.func.attr in ("split", "partition", "removeprefix", "rsplit")))
                                           for c in ast.walk(val)):
            stripped_names.add(tgt)
    n_pre = 0
    in_nested = {id(x) for st in ast.walk(gb.node) if isinstance(st, (ast.FunctionDef, ast.AsyncFunctionDef, ast.Lambda)) and st is not gb.node for x in ast.walk(st)}
    for d in body_nodes(gb):
        srcs = []
        if id(d) in in_nested:
            continue        # a helper's own parameter: judged where the helper is expanded / called
        if isinstance(d, ast.DictComp) and "$exists" in canon(d.value):
            srcs = [d.generators[0].iter]
            if not (isinstance(d.key, ast.Name) and isinstance(d.generators[0].target, ast.Name) and d.key.id == d.generators[0].target.id):
                srcs.append(d.key)
        elif isinstance(d, ast.Dict) and d.keys and all(k is not None and not (isinstance(k, ast.Constant) and str(k.value).startswith("$")) for k in d.keys) \
                and all(isinstance(v, ast.Dict) and "$exists" in canon(v) for v in d.values):
            srcs = list(d.keys)
        if not srcs or kp is None:
            continue
        n_pre += 1
        kk = f"{gb.qual}|prefilter-keys"
        used = set()
        for e in srcs:
            ex = common.inline_at(ctx, gb, e, d)
            used |= names_in(ex) | names_in(e)
        # ... and what those locals were computed from (a few steps back)
        for _step in range(4):
            more = set()
            for nm in sorted(used - set(gb.params)):
                try:
                    ds = common.reaching_defs(ctx, gb, nm, d)
                except Exception:
                    ds = []
                for dd in ds:
                    if isinstance(dd, ast.AST):
                        more |= names_in(dd)
            if more <= used:
                break
            used |= more
        if used & stripped_names:
            out.append(ctx.viol(R, gb, d, f"the $exists pre-filter `{canon(d)[:60]}` is keyed by {sorted(used & stripped_names)}, the prefix-stripped copies of the grouping keys: a 'doc.x' key is "
                                "then required of the state point - jobs that do have doc.x are filtered out (no groups), or a KeyError is raised when a state point key of that name exists",
                                construct=kk))
        elif kp in used:
            out.append(ctx.ok(R, gb, d, "the $exists pre-filter is keyed by the grouping keys as given", construct=kk))
        else:
            out.append(ctx.inc(R, gb, d, f"keys of the $exists pre-filter not traced to the `key` parameter ({sorted(used)})", construct=kk))
    return out


@rule("C07-d")
def c07_d(ctx: Ctx):
    """CLI value casting tries int before float on the raw token; parse_filter covers str / Mapping / iterable; logical tables agree."""
    R = "C07-d"
    out = []
    # the function that turns a value token into a typed scalar: _cast, or (when it was written out) its user _parse_single
    f = ctx.prog.funcs.get("signac.filterparse:_cast") or ctx.fn("signac.filterparse:_parse_single")
    cfg = ctx.cfg(f)
    raw = set(f.params)
    floats = [n for n in cfg.stmt_nodes() for c in ast.walk(n.ast) if n.kind == "stmt" and isinstance(c, ast.Call) and isinstance(c.func, ast.Name) and c.func.id == "float"
              and c.args and isinstance(c.args[0], ast.Name) and c.args[0].id in raw]
    tok = {c.args[0].id for n in floats for c in ast.walk(n.ast) if isinstance(c, ast.Call) and isinstance(c.func, ast.Name) and c.func.id == "float" and c.args and isinstance(c.args[0], ast.Name)}
    ints = {n.id for n in cfg.stmt_nodes() for c in ast.walk(n.ast) if n.kind == "stmt" and isinstance(c, ast.Call) and isinstance(c.func, ast.Name) and c.func.id == "int"
            and c.args and isinstance(c.args[0], ast.Name) and c.args[0].id in (tok or raw)}
    if not ints:
        out.append(ctx.viol(R, f, f.node, f"{f.name} never applies int() to the raw token: integer tokens are read through float and lose precision above 2**53"))
    if not floats and not ints:
        out.append(ctx.inc(R, f, f.node, "no int() / float() conversion of the value token found"))
    for fl in floats:
        w = cfg.must_pass_before(fl.id, ints, kinds="nx")
        if w is None:
            out.append(ctx.ok(R, f, fl.ast, "float() is tried only after int() on the raw token failed"))
        else:
            out.append(ctx.viol(R, f, fl.ast, "float() can be applied before int() was tried on the raw token: large integer tokens are rounded through a double, so the CLI spelling "
                                "selects different jobs than the mapping spelling", witness=cfg.describe_path(w)))
    # a string filter is split at white space only - what a shell hands over after its own unquoting; a second round of quote / escape processing
    # (shlex) strips the backslashes of regular-expression values
    pf0 = ctx.fn("signac.filterparse:parse_filter")
    lex = [c for c in body_nodes(pf0) if isinstance(c, ast.Call) and (common.ext_name(ctx, pf0, c) or "").startswith("shlex.")]
    if not lex:
        # ... also when the tokeniser sits in a helper of the same module that parse_filter calls
        for g in ctx.calls.closure([pf0]).values():
            if g.module.name == pf0.module.name and g.qual != pf0.qual:
                lex += [c for c in body_nodes(g) if isinstance(c, ast.Call) and (common.ext_name(ctx, g, c) or "").startswith("shlex.")]
    spl = [c for c in body_nodes(pf0) if isinstance(c, ast.Call) and isinstance(c.func, ast.Attribute) and c.func.attr == "split" and canon(c.func.value) == pf0.params[0]]
    if lex:
        out.append(ctx.viol(R, pf0, lex[0], f"the string form of a filter is tokenised with {canon(lex[0].func)}: backslashes and quotes inside values are consumed, so "
                            "find_jobs(r'c /^\\d$/') evaluates the regular expression ^d$ - the string front end selects other jobs than the mapping and the command line", construct=pf0.qual + "|tokenise"))
    elif spl and not spl[0].args and not spl[0].keywords:
        out.append(ctx.ok(R, pf0, spl[0], "the string form of a filter is split at white space only", construct=pf0.qual + "|tokenise"))
    else:
        out.append(ctx.inc(R, pf0, pf0.node, "tokenisation of the string form not recognised", construct=pf0.qual + "|tokenise"))
    pf = ctx.fn("signac.filterparse:parse_filter")
    kinds = {canon(n.args[1]) for n in body_nodes(pf) if isinstance(n, ast.Call) and isinstance(n.func, ast.Name) and n.func.id == "isinstance" and len(n.args) == 2}
    if {"str", "Mapping"} <= kinds:
        out.append(ctx.ok(R, pf, pf.node, "parse_filter distinguishes str, Mapping and other iterables"))
    else:
        out.append(ctx.inc(R, pf, pf.node, f"parse_filter type dispatch: {sorted(kinds)}"))
    for r in c06_a(ctx):
        r.rule = R
        out.append(r)
    # command line front end: tokens -> parse_filter_arg -> the same evaluator as find_jobs
    m = ctx.prog.modules.get("signac.__main__")
    if m is not None:
        fw = ctx.prog.funcs.get("signac.__main__:_find_with_filter")
        if fw is None:
            out.append(ctx.inc(R, None, None, "signac.__main__._find_with_filter not found", construct="cli|_find_with_filter"))
        else:
            calls = [c for c in body_nodes(fw) if isinstance(c, ast.Call) and "signac.project:Project._find_job_ids" in common.targets_of(ctx, fw, c)
                     or (isinstance(c, ast.Call) and isinstance(c.func, ast.Attribute) and c.func.attr in ("_find_job_ids", "find_jobs"))]
            ok = False
            for c in calls:
                a = kwarg(c, "filter") or (c.args[0] if c.args else None)
                cands = [a] if a is not None else []
                if isinstance(a, ast.Name):
                    cands += [n.value for n in body_nodes(fw) if isinstance(n, ast.Assign) and any(isinstance(t, ast.Name) and t.id == a.id for t in n.targets)]
                if any(isinstance(x, ast.Call) and "signac.filterparse:parse_filter_arg" in common.targets_of(ctx, fw, x) for v in cands for x in ast.walk(v)):
                    ok = True
                    out.append(ctx.ok(R, fw, c, "the command line filter tokens are parsed by parse_filter_arg and evaluated by the same _find_job_ids as Project.find_jobs"))
            if not ok:
                out.append(ctx.viol(R, fw, fw.node, "the command line `find` does not evaluate parse_filter_arg(tokens) through Project._find_job_ids: CLI and Python spellings use different evaluators"))
    # _is_json_like decides which command-line tokens are handed to the JSON parser: evaluated on constant probe tokens
    from .. import absint as A
    jl = ctx.prog.funcs.get("signac.filterparse:_is_json_like")
    kj = "signac.filterparse:_is_json_like|probes"
    if jl is None:
        out.append(ctx.inc(R, None, None, "_is_json_like not found", construct=kj))
    else:
        want = {"[]": True, "{}": True, "[1]": True, '{"a": 1}': True, "[[1, 2], 3]": True, "abc": False, "12": False, "[1": False, "a]": False, "{a": False, "/x/": False}
        wrong, gave_up = [], None
        for tok, exp in want.items():
            evl = A.Evaluator({jl.params[0]: A.Const(tok)})
            try:
                kind, val = evl.run(jl.node.body)
                got = bool(val.value) if kind == "return" and isinstance(val, A.Const) else None
                if got is None:
                    gave_up = "no constant result"
                elif got != exp:
                    wrong.append((tok, got))
            except A.Raised as ex:
                wrong.append((tok, "raises " + ex.exc))
            except A.GiveUp as g:
                gave_up = g.why
        if wrong:
            out.append(ctx.viol(R, jl, jl.node, f"_is_json_like answers {wrong} on the probe tokens: e.g. the two-character values '[]' / '{{}}' are searched as strings instead of being "
                                "parsed as JSON, so `signac find tags []` selects other jobs than {'tags': []}", construct=kj))
        elif gave_up:
            out.append(ctx.inc(R, jl, jl.node, f"_is_json_like could not be evaluated on the probe tokens: {gave_up}", construct=kj))
        else:
            out.append(ctx.ok(R, jl, jl.node, f"_is_json_like classifies all {len(want)} probe tokens ('[]', '{{}}', nested, non-JSON) as expected", construct=kj))
    # the root (namespace) of a dotted key is its FIRST component, in _root_keys exactly as in _add_prefix
    rk = ctx.fn("signac.filterparse:_root_keys")
    ys = [y.value for y in body_nodes(rk) if isinstance(y, ast.Yield) and y.value is not None]
    kr = rk.qual + "|first-component"
    bad = [y for y in ys if any(isinstance(c, ast.Call) and isinstance(c.func, ast.Attribute) and c.func.attr in ("rsplit", "rpartition") for c in ast.walk(y))
           or any(isinstance(s2, ast.Subscript) and ctx.fold(s2.slice, rk) not in (0, UNKNOWN) and isinstance(s2.value, ast.Call) and isinstance(s2.value.func, ast.Attribute)
                  and s2.value.func.attr in ("split", "partition") for s2 in ast.walk(y))]
    good = [y for y in ys if common.pmatch("K.split('.', 1)[0]", y) is not None or common.pmatch("K.partition('.')[0]", y) is not None or common.pmatch("K.split('.')[0]", y) is not None]
    if bad:
        out.append(ctx.viol(R, rk, bad[0], f"_root_keys yields `{canon(bad[0])}` for a dotted key, which is not its first component: 'doc.a.b' (or 'doc.n.$gt') is no longer recognised as a "
                            "document key, the index is built without job documents and the filter matches nothing", construct=kr))
    elif good:
        out.append(ctx.ok(R, rk, good[0], "_root_keys yields the first dotted component of a key", construct=kr))
    else:
        out.append(ctx.inc(R, rk, rk.node, "_root_keys: component extraction not recognised", construct=kr))
    pfa = ctx.fn("signac.filterparse:parse_filter_arg")
    ps = ctx.fn("signac.filterparse:_parse_single")
    # key-only token => $exists; /regex/ => $regex; JSON-like => parsed JSON; else _cast
    txt = " ".join(canon(common.inline_at(ctx, ps, n.value, n)) if n.value is not None else "" for n in body_nodes(ps) if isinstance(n, ast.Return))
    need = ["'$exists': True", "'$regex': value[1:-1]", "_parse_json(value)"] + (["_cast(value)"] if "signac.filterparse:_cast" in ctx.prog.funcs else [])
    miss = [x for x in need if x not in txt]
    rx = [d for r in body_nodes(ps) if isinstance(r, ast.Return) and r.value is not None for d in ast.walk(r.value) if isinstance(d, ast.Dict)
          and any(isinstance(k, ast.Constant) and k.value == "$regex" for k in d.keys)]
    stripped = [v for d in rx for (k, v) in zip(d.keys, d.values) if isinstance(k, ast.Constant) and k.value == "$regex"
                and isinstance(v, ast.Call) and isinstance(v.func, ast.Attribute) and v.func.attr in ("strip", "lstrip", "rstrip", "replace")]
    if stripped:
        out.append(ctx.viol(R, ps, stripped[0], f"the /regex/ token is unwrapped with `{canon(stripped[0])}`, which removes every leading and trailing '/', not just the two delimiters: "
                            "`signac find path //scratch/` searches for 'scratch' and selects more jobs than {'path': {'$regex': '/scratch'}}", construct=ps.qual + "|regex-delimiters"))
    # a value token is handed to a JSON decoder only if it looks like a JSON object / array; every other token is a typed scalar as written
    valp = ps.params[1] if len(ps.params) > 1 else "value"
    dec = [c for c in body_nodes(ps) if isinstance(c, ast.Call) and (common.ext_name(ctx, ps, c) in ("json.loads",) or any(t.endswith(":_parse_json") for t in common.targets_of(ctx, ps, c)))
           and c.args and valp in names_in(c.args[0])]
    ungated = []
    for c in dec:
        facts = common.expand_facts(ctx, ps, common.facts_at(ctx, ps, c, "n"))
        if not any(pol and t.replace(" ", "") == f"_is_json_like({valp})" for (t, pol) in facts):
            ungated.append(c)
    if ungated:
        out.append(ctx.viol(R, ps, ungated[0], f"`{canon(ungated[0])[:50]}` decodes every value token that happens to be valid JSON, not only those that look like an object / array: a value "
                            "written with its own double quotes ('\"abc\"', '\"7\"') loses them and selects other jobs than the mapping spelling of the same filter, and a malformed "
                            "JSON-like token is silently compared as a string instead of being reported", construct=ps.qual + "|json-only-if-json-like"))
    if stripped:
        pass
    elif not miss:
        out.append(ctx.ok(R, ps, ps.node, "token forms: key alone -> $exists, /re/ -> $regex, JSON text -> parsed JSON, anything else -> typed scalar"))
    else:
        out.append(ctx.inc(R, ps, ps.node, f"_parse_single no longer has the forms {miss}"))
    return out


@rule("C07-e")
def c07_e(ctx: Ctx):
    """Sentinels and grouping: `default=None` means 'no default' (0 / '' / False are defaults); groupby input is sorted by the key; an empty command-line selection stays empty."""
    from .lints import sentinel_discipline, groupby_sorted, coalesce_to_none
    R = "C07-e"
    out = sentinel_discipline(ctx, R, [
        (CUR + ".groupby", "default", "a falsy default (0, '', False) is a default: jobs lacking the key must be labelled with it, not filtered out"),
        (CUR + ".groupby", "key", "key=None means 'group by id'"),
    ])
    out += groupby_sorted(ctx, R, ("signac.project",))
    if ctx.prog.modules.get("signac.__main__") is not None:
        out += coalesce_to_none(ctx, R, [q for q in ("signac.__main__:_find_with_filter_or_none", "signac.__main__:_find_with_filter")
                                         if q in ctx.prog.funcs or q.endswith(":_find_with_filter")],
                                "a filter that matches no job becomes 'no filter', so `signac diff/schema/sync -f ...` act on the whole project while `signac find` with the same tokens selects nothing")
        f = ctx.prog.funcs.get("signac.__main__:_find_with_filter_or_none")
        if f is not None:
            rets = [r for r in body_nodes(f) if isinstance(r, ast.Return)]
            for r in rets:
                facts = common.facts_at(ctx, f, r, "n")
                if r.value is not None and isinstance(r.value, ast.Call) and canon(r.value.func) == "_find_with_filter":
                    if any(pol and "args.job_id or args.filter" in t for (t, pol) in facts) or (("args.job_id", True) in facts or ("args.filter", True) in facts) \
                            or common.entails(facts, "args.job_id or args.filter", True):
                        out.append(ctx.ok(R, f, r, "a selection is computed exactly when a job id or a filter was given"))
                    else:
                        out.append(ctx.inc(R, f, r, f"selection computed under {sorted(facts)}"))
    return out


@rule("C07-f")
def c07_f(ctx: Ctx):
    """Nested-mapping and dotted / operator-suffix spellings flatten to the same (key, hashable value) pairs (same obligation as C06-g)."""
    from .c06 import c06_g
    res = c06_g(ctx)
    for r in res:
        r.rule = "C07-f"
    return res


@rule("C07-g")
def c07_g(ctx: Ctx):
    """What cursor[i:j] (and iter(cursor)) hands out describes the selected ids every time it is looked at: iterating it starts over from the stored
    id list; it is not a one-shot stream that a second pass (count, then process) finds exhausted."""
    R = "C07-g"
    out = []
    ci = ctx.prog.classes.get("signac.project:_JobsCursorIterator")
    k = "signac.project:_JobsCursorIterator|re-iterable"
    if ci is None:
        return [ctx.inc(R, None, None, "_JobsCursorIterator not found", construct=k)]
    it = ci.methods.get("__iter__")
    nx = ci.methods.get("__next__")
    if it is None or nx is None:
        return [ctx.inc(R, None, None, "_JobsCursorIterator lacks __iter__ / __next__", construct=k)]
    rets = [r for r in body_nodes(it) if isinstance(r, ast.Return) and r.value is not None]
    consumes = any(isinstance(c, ast.Call) and isinstance(c.func, ast.Name) and c.func.id == "next" and c.args and canon(c.args[0]).startswith("self.") for c in body_nodes(nx))
    returned_by_getitem = any(isinstance(c, ast.Call) and canon(c.func).endswith("_JobsCursorIterator") for q in (CUR + ".__getitem__", CUR + ".__iter__")
                              for c in body_nodes(ctx.fn(q)))
    selfret = [r for r in rets if canon(r.value) == "self"]
    if selfret and consumes and returned_by_getitem:
        out.append(ctx.viol(R, it, selfret[0], "__iter__ returns the iterator itself while __next__ consumes one stored iterator: the object that cursor[i:j] / iter(cursor) returns is a "
                            "one-shot stream - a second pass over the same slice yields nothing, so the slice no longer agrees with the cursor's id list", construct=k))
    elif rets and all(isinstance(r.value, ast.Call) for r in rets):
        out.append(ctx.ok(R, it, rets[0], "every iteration starts a new pass over the stored id list", construct=k))
    elif not consumes:
        out.append(ctx.ok(R, it, it.node, "__next__ does not consume a stored one-shot iterator", construct=k, nontrivial=False))
    else:
        out.append(ctx.inc(R, it, it.node, "__iter__ of _JobsCursorIterator not recognised", construct=k))
    return out


@rule("C07-h")
def c07_h(ctx: Ctx):
    """All spellings of a filter are evaluated against the same index: whether job documents are indexed does not depend on the order of the filter's keys (from C06-e)."""
    from .c06 import c06_e
    res = c06_e(ctx)
    for r in res:
        r.rule = "C07-h"
    return res


@rule("C07-i")
def c07_i(ctx: Ctx):
    """Every sub-command that takes -f / -j tells an empty selection from no selection by identity."""
    from . import cli
    return cli.selection_discipline(ctx, "C07-i")


@rule("C07-j")
def c07_j(ctx: Ctx):
    """Every token of the simple filter syntax takes part in the filter (no pairing that drops an odd last token)."""
    from .lints import no_pairwise_zip_of_slices
    return no_pairwise_zip_of_slices(ctx, "C07-j", ("signac.filterparse",))


RULES = [c07_a, c07_b, c07_c, c07_d, c07_e, c07_f, c07_g, c07_h, c07_i, c07_j]
