"""C13 - a successful sync makes the destination a superset and touches nothing else."""
import ast

from ..engine import rule, Ctx
from ..core import UNKNOWN, dotted, kwarg, body_nodes, inline, stmt_key, canon, walk_no_nested, names_in
from . import common
from .c03 import _own

PROP = "C13"
FLOOR = 16
EXPLANATION = (
    "Decided (structural necessary conditions): (a) the source is never a mutation target: in sync.py every copy / "
    "copytree call has a source-derived first and a destination-derived second argument, sync_jobs / sync_projects / "
    "Project.clone are invoked with source and destination in the right roles (also from Job.sync and Project.sync), "
    "document sync functions get (source document, destination proxy), and no mutating method is called on a "
    "source-derived receiver; (b) on every path of sync_jobs to the file walk the state point file name, and unless "
    "doc_sync is COPY the document file name, has been appended to the exclude list that is passed on; in the file walk "
    "every source-only file is copied (files) or copytree'd (directories when recursive); (c) the only deleting operations "
    "written in sync.py are os.remove inside _FileModifyProxy._remove, reached from remove(), the backup clean-up and the "
    "replacement of an existing file by a link, plus the roll-back clear() of _DocProxy; _DocProxy offers no item deletion."
    " (h) The per-job and per-file loops of the synchronisation carry nothing between iterations; sync_jobs never modifies the caller's exclude list; a clone-side exclude filter protects the reserved file names."
    ' (k) _FileModifyProxy.copy ends on every normal path of a real run in a copy primitive / link creation (no skip condition of its own), and a real copytree is shutil.copytree, not an os.walk re-implementation.'
    ' (l) the selection of `signac sync` is not computed in the destination project and an empty selection selects nothing (C13-l).'
)
UNDECIDED = "The superset / byte-identity post-condition and idempotence of a repeated sync are behavioural and not decided."

SJ = "signac.sync:sync_jobs"
SP = "signac.sync:sync_projects"
SJW = "signac.sync:_sync_job_workspaces"
SRC_NAMES = {"src", "source", "src_job", "other", "fn_src"}
DST_NAMES = {"dst", "destination", "dst_job", "self", "fn_dst", "dst_proxy"}


def _root_names(ctx, fi, v, depth):
    """Parameters an expression's *owner* derives from.  A path built with os.path.join / X.fn(...) belongs to the owner of its first
    component; an attribute or a job opened in X belongs to X; locals are traced through their binders (assignment, `with f(arg) as v`
    -> arg, loop target -> iterable) up to the parameters of the function or of the enclosing functions."""
    scope_params = set(fi.params)
    p = fi.parent
    while p is not None:
        scope_params |= set(p.params)
        p = p.parent
    if isinstance(v, ast.Call):
        d = dotted(v.func) or ""
        if d in ("os.path.join", "os.sep.join", "join") and v.args:
            first = v.args[0].elts[0] if isinstance(v.args[0], (ast.Tuple, ast.List)) and v.args[0].elts else v.args[0]
            return _root_names(ctx, fi, first, depth)
        if isinstance(v.func, ast.Attribute) and v.func.attr in ("fn", "open_job", "get_job"):
            return _root_names(ctx, fi, v.func.value, depth)
    if isinstance(v, ast.Attribute):
        return _root_names(ctx, fi, v.value, depth)
    out = set()
    for nm in names_in(v):
        if nm in scope_params or depth > 5:
            out.add(nm)
            continue
        srcs = []
        for n in body_nodes(fi):
            if isinstance(n, ast.Assign) and any(nm in common.target_names(t) for t in n.targets):
                srcs.append(n.value)
            elif isinstance(n, (ast.With, ast.AsyncWith)):
                for it in n.items:
                    if it.optional_vars is not None and nm in common.target_names(it.optional_vars):
                        ce = it.context_expr
                        if isinstance(ce, ast.Call) and ce.args:
                            srcs.extend(ce.args)
                        else:
                            srcs.append(ce)
            elif isinstance(n, (ast.For, ast.AsyncFor)) and nm in common.target_names(n.target):
                srcs.append(n.iter)
        if not srcs:
            out.add(nm)
        for sx in srcs:
            if nm in names_in(sx):
                continue
            out |= _root_names(ctx, fi, sx, depth + 1)
    return out


def _role(ctx, fi, e, at=None):
    """'src' | 'dst' | 'both' | None by the root variables the (inlined) expression mentions."""
    v = common.inline_at(ctx, fi, e, at if at is not None else e)
    ns = _root_names(ctx, fi, v, 0)
    s = bool(ns & {"src", "source", "src_job", "other"})
    d = bool(ns & {"dst", "destination"}) or ("self" in ns and fi.qual in ("signac.job:Job.sync", "signac.project:Project.sync"))
    if s and d:
        return "both"
    return "src" if s else ("dst" if d else None)


@rule("C13-a")
def c13_a(ctx: Ctx):
    """Argument roles: sources are read, destinations are written."""
    R = "C13-a"
    out = []
    sjw = ctx.fn(SJW)
    for n in body_nodes(sjw):
        if isinstance(n, ast.Call) and isinstance(n.func, ast.Name) and n.func.id in ("copy", "copytree") and len(n.args) >= 2:
            a, b = _role(ctx, sjw, n.args[0]), _role(ctx, sjw, n.args[1])
            if a == "src" and b == "dst":
                out.append(ctx.ok(R, sjw, n, f"{n.func.id}(<source path>, <destination path>)"))
            elif a == "dst" and b == "src":
                out.append(ctx.viol(R, sjw, n, f"{stmt_key(n, 50)} copies from the destination into the source job: the source project is modified"))
            else:
                out.append(ctx.inc(R, sjw, n, f"cannot determine roles of the arguments of {stmt_key(n, 50)} ({a}, {b})"))
    # keyword roles at the call sites of the sync entry points
    sites = [("signac.sync:sync_projects.<locals>._clone_or_sync", SJ, "src", "dst"), ("signac.job:Job.sync", SJ, "src", "dst"),
             ("signac.project:Project.sync", SP, "source", "destination")]
    for fq, callee, ks, kd in sites:
        fi = ctx.fn(fq)
        calls = [n for n in body_nodes(fi) if isinstance(n, ast.Call) and callee in common.targets_of(ctx, fi, n)]
        if not calls:
            out.append(ctx.inc(R, fi, fi.node, f"no call of {callee.split(':')[-1]}"))
        for c in calls:
            s = kwarg(c, ks) or (c.args[0] if c.args else None)
            d = kwarg(c, kd) or (c.args[1] if len(c.args) > 1 else None)
            rs = _role(ctx, fi, s) if s is not None else None
            rd = _role(ctx, fi, d) if d is not None else None
            if rs == "src" and rd == "dst":
                out.append(ctx.ok(R, fi, c, f"{callee.split(':')[-1]}({ks}=<source>, {kd}=<destination>)"))
            elif rs == "dst" and rd == "src":
                out.append(ctx.viol(R, fi, c, f"{stmt_key(c, 60)}: source and destination are swapped, the synchronisation writes into the project it should read"))
            else:
                out.append(ctx.inc(R, fi, c, f"roles of {ks}/{kd} not determined ({rs}, {rd})"))
    inner = ctx.fn("signac.sync:sync_projects.<locals>._clone_or_sync")
    for n in body_nodes(inner):
        if isinstance(n, ast.Call) and "signac.project:Project.clone" in common.targets_of(ctx, inner, n):
            recv = _role(ctx, inner, n.func.value)
            arg = _role(ctx, inner, n.args[0]) if n.args else None
            if recv == "dst" and arg == "src":
                out.append(ctx.ok(R, inner, n, "destination.clone(<source job>)"))
            else:
                out.append(ctx.viol(R, inner, n, f"{stmt_key(n, 50)}: clone is not <destination>.clone(<source job>)"))
        if isinstance(n, ast.Call) and "signac.project:Project.open_job" in common.targets_of(ctx, inner, n):
            if _role(ctx, inner, n.func.value) == "dst":
                out.append(ctx.ok(R, inner, n, "the job to synchronise into is opened in the destination project"))
            else:
                out.append(ctx.viol(R, inner, n, f"{stmt_key(n, 50)}: the job that is written to is not opened in the destination project"))
    # document sync argument order, and backups of the destination document
    for fq in (SJ, SP):
        fi = ctx.fn(fq)
        for n in body_nodes(fi):
            if isinstance(n, ast.Call) and isinstance(n.func, ast.Name) and n.func.id == "doc_sync" and len(n.args) >= 2:
                a, b = _role(ctx, fi, n.args[0]), _role(ctx, fi, n.args[1])
                if a == "src" and b == "dst":
                    out.append(ctx.ok(R, fi, n, "doc_sync(<source document>, <destination proxy>)"))
                else:
                    out.append(ctx.viol(R, fi, n, f"{stmt_key(n, 50)}: the document sync function writes into the source document"))
            if isinstance(n, ast.Call) and isinstance(n.func, ast.Attribute) and n.func.attr == "create_doc_backup" and n.args:
                if _role(ctx, fi, n.args[0]) == "dst":
                    out.append(ctx.ok(R, fi, n, "the proxy / backup wraps the destination document"))
                else:
                    out.append(ctx.viol(R, fi, n, f"{stmt_key(n, 50)}: the writable proxy wraps the source document"))
    # mutating methods on source-derived receivers
    MUT = {"init", "clear", "reset", "remove", "move", "update_statepoint", "clone", "import_from", "update_cache", "sync"}
    n_checked = 0
    for fi in ctx.prog.functions_of_module("signac.sync"):
        for n in body_nodes(fi):
            if isinstance(n, ast.Call) and isinstance(n.func, ast.Attribute) and n.func.attr in MUT:
                root = n.func.value
                while isinstance(root, ast.Attribute):
                    root = root.value
                if isinstance(root, ast.Name) and root.id in ("src", "source", "src_job"):
                    out.append(ctx.viol(R, fi, n, f"{stmt_key(n, 50)} mutates the source"))
                elif isinstance(root, ast.Name):
                    n_checked += 1
            if isinstance(n, (ast.Assign, ast.AugAssign, ast.Delete)):
                tg = n.targets if not isinstance(n, ast.AugAssign) else [n.target]
                for t in tg:
                    if isinstance(t, (ast.Subscript, ast.Attribute)):
                        root = t
                        while isinstance(root, (ast.Attribute, ast.Subscript)):
                            root = root.value
                        if isinstance(root, ast.Name) and root.id in ("src", "source", "src_job"):
                            out.append(ctx.viol(R, fi, n, f"{stmt_key(n, 50)} writes into the source"))
    out.append(ctx.ok(R, None, None, f"no mutating method call / store on a source-derived receiver in signac/sync.py ({n_checked} mutating calls on other receivers)",
                      construct="sync|source-receivers", nontrivial=False))
    return out


@rule("C13-b")
def c13_b(ctx: Ctx):
    """State point and document files are always excluded from the file walk; every source-only entry is transferred."""
    R = "C13-b"
    out = []
    sj = ctx.fn(SJ)
    cfg = ctx.cfg(sj)
    walk = common.stmts_containing_call_to(ctx, sj, quals=(SJW,))
    if not walk:
        return [ctx.inc(R, sj, sj.node, "sync_jobs does not call _sync_job_workspaces")]
    # the list handed to the file walk as `exclude=` (by role, whatever the local is called)
    exnames = set()
    for st, call in walk:
        ex0 = kwarg(call, "exclude") or (call.args[3] if len(call.args) > 3 else None)
        if isinstance(ex0, ast.Name):
            exnames.add(ex0.id)
    sp_app, doc_app = set(), set()
    for n in cfg.stmt_nodes():
        added = []
        for sub in _own(n.ast):
            for c in walk_no_nested(sub):
                if isinstance(c, ast.Call) and isinstance(c.func, ast.Attribute) and c.func.attr in ("append", "extend", "add", "insert") \
                        and canon(c.func.value) in exnames and c.args:
                    added.append(canon(c.args[-1]))
        a0 = n.ast
        if isinstance(a0, ast.AugAssign) and canon(a0.target) in exnames:
            added.append(canon(a0.value))
        if isinstance(a0, ast.Assign) and any(canon(t) in exnames for t in a0.targets) and (exnames & names_in(a0.value)):
            added.append(canon(a0.value))
        # the list is built as a literal that already contains the reserved names: [*patterns, src.FN_STATE_POINT] / patterns + [src.FN_STATE_POINT]
        if isinstance(a0, ast.Assign) and any(canon(t) in exnames for t in a0.targets):
            for x in ast.walk(a0.value):
                if isinstance(x, (ast.List, ast.Tuple)):
                    for el in x.elts:
                        if not isinstance(el, ast.Starred):
                            added.append(canon(el))
        for a in added:
            if "FN_STATE_POINT" in a:
                sp_app.add(n.id)
            if "FN_DOCUMENT" in a:
                doc_app.add(n.id)
    for st, call in walk:
        ex = kwarg(call, "exclude") or (call.args[3] if len(call.args) > 3 else None)
        if ex is None:
            out.append(ctx.viol(R, sj, call, "no exclude list is passed to the file walk"))
        elif not isinstance(ex, ast.Name):
            out.append(ctx.inc(R, sj, call, f"exclude list passed to the file walk is {canon(ex)[:40]}, not a local list"))
        for nid in cfg.node_ids_for(st):
            paths, trunc = cfg.paths_to(nid, kinds="n")
            bad_sp = bad_doc = None
            for path, facts in paths:
                if not any(i in sp_app for i in path):
                    bad_sp = path
                copy_mode = ("doc_sync == DocSync.COPY", True) in facts
                if not copy_mode and not any(i in doc_app for i in path):
                    bad_doc = path
            if bad_sp:
                out.append(ctx.viol(R, sj, st, "the file walk can be reached without FN_STATE_POINT in the exclude list: the destination's state point file is overwritten / reported as conflict",
                                    witness=cfg.describe_path(bad_sp), construct=SJ + "|exclude-sp"))
            else:
                out.append(ctx.ok(R, sj, st, f"all {len(paths)} paths to the file walk append FN_STATE_POINT to exclude", construct=SJ + "|exclude-sp"))
            if bad_doc:
                out.append(ctx.viol(R, sj, st, "the file walk can be reached with doc_sync != COPY but without FN_DOCUMENT in the exclude list: the document file is copied over the "
                                    "destination document instead of being merged", witness=cfg.describe_path(bad_doc), construct=SJ + "|exclude-doc"))
            else:
                out.append(ctx.ok(R, sj, st, "unless doc_sync is COPY, FN_DOCUMENT is appended to exclude on every path", construct=SJ + "|exclude-doc"))
    # left-only entries are transferred
    sjw = ctx.fn(SJW)
    loops = [n for n in body_nodes(sjw) if isinstance(n, ast.For) and canon(n.iter).endswith(".left_only")]
    if not loops:
        out.append(ctx.inc(R, sjw, sjw.node, "no loop over diff.left_only"))
    for lp in loops:
        copies = [c for st in lp.body for c in walk_no_nested(st) if isinstance(c, ast.Call) and isinstance(c.func, ast.Name) and c.func.id == "copy"]
        trees = [c for st in lp.body for c in walk_no_nested(st) if isinstance(c, ast.Call) and isinstance(c.func, ast.Name) and c.func.id == "copytree"]
        if copies:
            facts = common.facts_at(ctx, sjw, copies[0], "n")
            exf = [t for (t, pol) in facts if not pol and "exclude" in t]
            if exf:
                verdict, msg = common.exclude_predicate_verdict(ctx, sjw, exf[0], canon(lp.target))
                if verdict == "viol":
                    out.append(ctx.viol(R, sjw, copies[0], msg, construct=SJW + "|exclude-predicate"))
                elif verdict == "ok":
                    out.append(ctx.ok(R, sjw, copies[0], msg, construct=SJW + "|exclude-predicate"))
                else:
                    out.append(ctx.inc(R, sjw, copies[0], msg, construct=SJW + "|exclude-predicate"))
            extra = [f for f in facts if not ("exclude" in f[0] or "isfile" in f[0] or f[0] == "deep")]
            if extra:
                out.append(ctx.viol(R, sjw, copies[0], f"source-only files are copied only under the additional condition {extra}: some source files never reach the destination"))
            else:
                out.append(ctx.ok(R, sjw, copies[0], "every non-excluded source-only file is copied"))
        else:
            out.append(ctx.viol(R, sjw, lp, "source-only files are not copied"))
        if trees:
            facts = common.facts_at(ctx, sjw, trees[0], "n")
            if ("recursive", True) in facts:
                out.append(ctx.ok(R, sjw, trees[0], "source-only directories are copied when recursive"))
            else:
                out.append(ctx.inc(R, sjw, trees[0], f"copytree condition not recognised: {sorted(facts)}"))
        else:
            out.append(ctx.viol(R, sjw, lp, "source-only directories are never copied, even when recursive"))
    # the tree copy used for new jobs / source-only directories copies everything
    fp = ctx.fn("signac.sync:_FileModifyProxy.copytree")
    for c in [x for x in body_nodes(fp) if isinstance(x, ast.Call) and common.ext_name(ctx, fp, x) == "shutil.copytree"]:
        ig = kwarg(c, "ignore")
        if ig is not None and not (isinstance(ig, ast.Constant) and ig.value is None):
            out.append(ctx.viol(R, fp, c, f"the tree copy passes ignore={canon(ig)[:50]}: matching source entries of newly cloned jobs and source-only directories are silently not copied, "
                                "so the destination is not a superset of the source"))
        else:
            out.append(ctx.ok(R, fp, c, "the tree copy has no built-in ignore filter"))
    for n in body_nodes(fp):
        if isinstance(n, ast.Call) and isinstance(n.func, ast.Attribute) and n.func.attr == "setdefault" and n.args and ctx.fold(n.args[0], fp) == "ignore":
            out.append(ctx.viol(R, fp, n, "the tree copy installs a default ignore filter: matching source entries are silently not copied"))
    # common sub-directories are recursed into when recursive
    rec = [n for n in body_nodes(sjw) if isinstance(n, ast.Call) and SJW in common.targets_of(ctx, sjw, n)]
    if rec:
        facts = common.facts_at(ctx, sjw, rec[0], "n")
        if ("recursive", True) in facts:
            out.append(ctx.ok(R, sjw, rec[0], "common sub-directories are synchronised recursively when recursive"))
    else:
        out.append(ctx.viol(R, sjw, sjw.node, "common sub-directories are never descended into"))
    return out


@rule("C13-c")
def c13_c(ctx: Ctx):
    """Deleting operations in sync.py are exactly the frozen three (+ roll-back clear); _DocProxy cannot delete items."""
    R = "C13-c"
    out = []
    allowed_callers = {"signac.sync:_FileModifyProxy.remove": "logging wrapper", "signac.sync:_FileModifyProxy.create_backup": "removes the '~' backup",
                       "signac.sync:_FileModifyProxy.copy": "replaces an existing file by a link (follow_symlinks=False)"}
    for fi in ctx.prog.functions_of_module("signac.sync"):
        for e in ctx.effects.direct(fi):
            if e.kind == "delete":
                if fi.qual == "signac.sync:_FileModifyProxy._remove" and e.prim == "os.remove":
                    out.append(ctx.ok(R, fi, e.node, "os.remove lives in the gated _remove primitive"))
                else:
                    out.append(ctx.viol(R, fi, e.node, f"{e.prim} in {fi.qual.split(':')[-1]}: synchronisation must not delete destination data (only the backup / link replacement may remove a file)"))
        for n in body_nodes(fi):
            if isinstance(n, ast.Call) and isinstance(n.func, ast.Attribute) and n.func.attr in ("_remove", "remove") \
                    and isinstance(n.func.value, ast.Name) and n.func.value.id in ("self", "proxy"):
                if fi.qual in allowed_callers:
                    if fi.qual.endswith(".copy"):
                        facts = common.facts_at(ctx, fi, n, "n")
                        need = [("os.path.islink(src)", True), ("self.follow_symlinks", False), ("os.path.isfile(dst)", True)]
                        if all(f in facts for f in need):
                            out.append(ctx.ok(R, fi, n, "removal only to replace an existing destination file by a link"))
                        else:
                            out.append(ctx.viol(R, fi, n, f"copy() removes the destination under {sorted(facts)}, not only when replacing a file by a link"))
                    else:
                        out.append(ctx.ok(R, fi, n, allowed_callers[fi.qual]))
                else:
                    out.append(ctx.viol(R, fi, n, f"{fi.qual.split(':')[-1]} removes files through the proxy: destination-only files must stay untouched"))
    dp = ctx.prog.cls("signac.sync:_DocProxy")
    bad = [m for m in dp.methods if m in ("__delitem__", "pop", "popitem", "__getattr__", "__getattribute__")]
    if bad:
        out.append(ctx.viol(R, dp.methods[bad[0]], dp.methods[bad[0]].node, f"_DocProxy offers {bad}: destination-only document keys can be deleted"))
    else:
        out.append(ctx.ok(R, None, None, "_DocProxy exposes no item deletion", construct="_DocProxy|no-delete"))
    clear_callers = [(fi, n) for fi in ctx.prog.functions_of_module("signac.sync") for n in body_nodes(fi)
                     if isinstance(n, ast.Call) and isinstance(n.func, ast.Attribute) and n.func.attr == "clear" and isinstance(n.func.value, ast.Name)
                     and (n.func.value.id in ("proxy", "dst_proxy", "dst") or ctx.calls.type_of(n.func.value, fi) == "signac.sync:_DocProxy")]
    for fi, n in clear_callers:
        hs = common.enclosing_handlers(ctx, fi, n)
        if hs and fi.qual.endswith("create_doc_backup"):
            out.append(ctx.ok(R, fi, n, "clear() of the document only in the roll-back handler, followed by update(backup)"))
        else:
            out.append(ctx.viol(R, fi, n, "the destination document is cleared outside the roll-back"))
    return out


from .c15 import c15_f  # noqa: E402


@rule("C13-d")
def c13_d(ctx: Ctx):
    """Only selected jobs are transferred (same obligation as C15-f)."""
    res = c15_f(ctx)
    for r in res:
        r.rule = "C13-d"
    return res


@rule("C13-e")
def c13_e(ctx: Ctx):
    """Destination-only document keys survive: nested mappings are merged, existing keys overwritten only when selected (same obligation as C14-b)."""
    from .c14 import c14_b, c14_d, c14_e
    res = c14_b(ctx) + [r for r in c14_d(ctx) if "restore-before-yield" in r.construct or "fresh-backup" in r.construct] + [r for r in c14_e(ctx) if "main_sync" in r.function]
    for r in res:
        r.rule = "C13-e"
    return res


@rule("C13-f")
def c13_f(ctx: Ctx):
    """The schema compatibility gate runs before anything is modified."""
    R = "C13-f"
    fi = ctx.fn(SP)
    cfg = ctx.cfg(fi)
    out = []
    raises = [n for n in cfg.stmt_nodes() if isinstance(n.ast, ast.Raise) and n.ast.exc is not None
              and (dotted(n.ast.exc.func if isinstance(n.ast.exc, ast.Call) else n.ast.exc) or "").endswith("SchemaSyncConflict")]
    if not raises:
        return [ctx.viol(R, fi, fi.node, "sync_projects never raises SchemaSyncConflict: check_schema has no effect")]
    muts = set()
    for n in cfg.stmt_nodes():
        for sub in _own(n.ast):
            for c in walk_no_nested(sub):
                if isinstance(c, ast.Call):
                    nm = c.func.attr if isinstance(c.func, ast.Attribute) else (c.func.id if isinstance(c.func, ast.Name) else "")
                    if nm in ("create_doc_backup", "doc_sync", "_clone_or_sync", "imap", "map", "clone", "sync_jobs"):
                        muts.add(n.id)
    after = cfg.reachable(muts, kinds="n")
    for r in raises:
        facts = common.facts_at(ctx, fi, r.ast, "n")
        if r.id in after:
            out.append(ctx.viol(R, fi, r.ast, "SchemaSyncConflict can be raised after documents / jobs were already synchronised"))
        elif ("check_schema", True) in facts:
            out.append(ctx.ok(R, fi, r.ast, "with check_schema the schema gate raises before any document or job is touched"))
        else:
            out.append(ctx.inc(R, fi, r.ast, f"schema gate facts: {sorted(facts)}"))
    d = fi.default_of("check_schema")
    if d is not None and ctx.fold(d, fi) is True:
        out.append(ctx.ok(R, fi, fi.node, "check_schema defaults to True", construct=SP + "|default:check_schema"))
    else:
        out.append(ctx.viol(R, fi, fi.node, "check_schema does not default to True", construct=SP + "|default:check_schema"))
    return out


@rule("C13-g")
def c13_g(ctx: Ctx):
    """Exclude handling cannot strip state point / document files from cloned jobs, and the clone / sync decision rests on DestinationExistsError (from C15-d, C04-b)."""
    from .c15 import c15_d
    from .c04 import c04_b, c04_j
    res = c04_j(ctx) + [r for r in c15_d(ctx) if ("exclude" in r.construct or "clone" in r.construct) and "clone-exclude" not in r.construct] + [r for r in c04_b(ctx) if "Project.clone" in r.function]
    for r in res:
        r.rule = "C13-g"
    return res


@rule("C13-h")
def c13_h(ctx: Ctx):
    """Per-job / per-entry loops are independent: nothing read in one iteration was computed in another."""
    from .lints import per_item_loops, late_binding_in_loops
    return late_binding_in_loops(ctx, "C13-h", ("signac.sync",)) + per_item_loops(ctx, "C13-h", [('signac.sync:sync_projects', 'a job is synchronised with the handle / decision of the previous job'), ('signac.sync:_sync_job_workspaces', 'a file is copied to / from the path computed for the previous entry'), ('signac.sync:sync_jobs', 'state of a previous job leaks into this one')])


@rule("C13-i")
def c13_i(ctx: Ctx):
    """Whole-module cross-checks: no exchanged positional arguments in resolved internal calls; diagnostics (logging / warnings) do no work."""
    from .lints import swapped_arguments, pure_logging
    return swapped_arguments(ctx, "C13-i", ['signac.sync']) + pure_logging(ctx, "C13-i", ['signac.sync'])


@rule("C13-j")
def c13_j(ctx: Ctx):
    """File strategies decide per file (from C14-e FileSync.update and C14-h FileSync.Ask)."""
    from .c14 import c14_h, c14_e
    res = c14_h(ctx) + [r for r in c14_e(ctx) if "FileSync" in (r.function or "")]
    for r in res:
        r.rule = "C13-j"
    return res


@rule("C13-k")
def c13_k(ctx: Ctx):
    """The proxy transfers what it is asked to transfer: (1) _FileModifyProxy.copy ends, on every path of a real run, in a copy primitive, the re-creation of a link,
    or an exception - no 'already up to date' shortcut of its own (whether a differing file is overwritten was decided by the caller's comparison and strategy);
    (2) a real copytree is shutil.copytree (which copies what directory links point to) - an os.walk re-implementation does not descend into linked directories."""
    R = "C13-k"
    out = []
    cp = ctx.fn("signac.sync:_FileModifyProxy.copy")
    cfg = ctx.cfg(cp)
    transfer = set()
    for n in cfg.stmt_nodes():
        if n.kind != "stmt":
            continue
        for c in walk_no_nested(n.ast):
            if isinstance(c, ast.Call):
                e = common.ext_name(ctx, cp, c) or ""
                nm = c.func.attr if isinstance(c.func, ast.Attribute) else (c.func.id if isinstance(c.func, ast.Name) else "")
                if e.startswith("shutil.copy") or e in ("os.symlink", "os.link") or (isinstance(c.func, ast.Attribute) and canon(c.func.value) == "self" and nm in ("_copy", "_copy2", "_copy_p", "_copyfile")):
                    transfer.add(n.id)
    k = cp.qual + "|always-transfers"
    if not transfer:
        out.append(ctx.inc(R, cp, cp.node, "no copy primitive found in _FileModifyProxy.copy", construct=k))
    else:
        paths, trunc = cfg.paths_to(cfg.exit, kinds="n")
        bad = None
        for path, facts in paths:
            if any(i in transfer for i in path):
                continue
            if ("self.dry_run", True) in facts:
                continue
            bad = (path, facts)
        if trunc:
            out.append(ctx.inc(R, cp, cp.node, "path enumeration truncated", construct=k))
        elif bad:
            cond = sorted(t for (t, p) in bad[1] if p and "dry_run" not in t)[:3]
            out.append(ctx.viol(R, cp, cp.node, f"_FileModifyProxy.copy can return on a real run without copying anything (under {cond}): the caller has already decided that this file is "
                                "to be transferred (source-only file, or a conflict the strategy answered with True - also when the files were compared by content and only their "
                                "size / mtime signature agrees), so the destination silently keeps the old file", witness=cfg.describe_path(bad[0]), construct=k))
        else:
            out.append(ctx.ok(R, cp, cp.node, f"all {len(paths)} normal paths of a real run end in a copy primitive / link creation", construct=k))
    ct = ctx.fn("signac.sync:_FileModifyProxy.copytree")
    k2 = ct.qual + "|real-run-copytree"
    walks = [c for c in body_nodes(ct) if isinstance(c, ast.Call) and common.ext_name(ctx, ct, c) == "os.walk"]
    real = [c for c in body_nodes(ct) if isinstance(c, ast.Call) and common.ext_name(ctx, ct, c) == "shutil.copytree"]
    flagged = False
    for w in walks:
        facts = common.facts_at(ctx, ct, w, "n")
        fl = kwarg(w, "followlinks")
        if ("self.dry_run", True) not in facts and not (fl is not None and ctx.fold(fl, ct) is True):
            out.append(ctx.viol(R, ct, w, "a real (non dry-run) copytree walks the source with os.walk, which lists directory symlinks but does not descend into them, whereas shutil.copytree "
                                "copies what they point to: a linked directory inside a job (shared input data) arrives empty in the destination", construct=k2))
            flagged = True
    if not flagged:
        if real and all(("self.dry_run", False) in common.facts_at(ctx, ct, c, "n") or not walks for c in real):
            out.append(ctx.ok(R, ct, real[0], "a real copytree is shutil.copytree with the proxy's copy function; only the dry run walks the tree itself", construct=k2))
        elif real:
            out.append(ctx.ok(R, ct, real[0], "the tree copy is shutil.copytree", construct=k2))
        else:
            out.append(ctx.inc(R, ct, ct.node, "no shutil.copytree in _FileModifyProxy.copytree", construct=k2))
    return out


@rule("C13-l")
def c13_l(ctx: Ctx):
    """signac sync: the selection names source jobs (not computed in the destination) and an empty selection selects nothing."""
    from . import cli
    return cli.selection_from_source(ctx, "C13-l") + cli.selection_discipline(ctx, "C13-l", {"main_sync"})


RULES = [c13_a, c13_b, c13_c, c13_d, c13_e, c13_f, c13_g, c13_h, c13_i, c13_j, c13_k, c13_l]
