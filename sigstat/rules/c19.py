"""C19 - discovery resolves to the nearest enclosing project; init_project is idempotent (thin)."""
import ast

from ..engine import rule, Ctx
from ..core import UNKNOWN, dotted, kwarg, body_nodes, inline, stmt_key, canon, walk_no_nested, names_in
from . import common
from .c03 import _own

PROP = "C19"
FLOOR = 10
EXPLANATION = (
    "Decided (thin structural part): (a) on the success path of init_project (existing project) the only reachable mutating "
    "primitive is the guarded creation of a missing workspace directory; configuration writes happen only inside the "
    "LookupError handler; (b) get_job takes the last id-like component of the existing, absolute path (all matches, last one), "
    "truncates the path at the end of that match and searches the project from the parent of that directory, after "
    "checking that the queried path exists; (c) discovery normalises paths with abspath and never resolves symbolic links "
    "(a job directory symlinked into a workspace belongs to the project that holds the link); _locate_config_dir walks "
    "upwards one parent at a time and returns the first directory with a config file; get_project(search=False) does not walk."
    ' Every upward walk in _locate_config_dir starts from os.path.abspath(...); directory creation written in init_project tolerates an existing directory.'
    ' The search=False guard tests a lexically normalised file name like the walk that follows; a textual parent (dirname) of the truncated job path needs an explicit existence test; every upward walk (also one factored into a generator helper) starts from os.path.abspath.'
    ' (e) only `signac init` / `migrate` create directories: no other sub-command plants a project marker (C19-e).'
    ' (f) `signac move` / `clone` hand their PROJECT argument to get_project as given (C19-f).'
)
UNDECIDED = "Resolution for every directory layout, relative paths under varying cwd and LookupError for every non-matching input are not decided."

IP = "signac.project:Project.init_project"
GJ = "signac.project:Project.get_job"
GP = "signac.project:Project.get_project"
LOC = "signac._config:_locate_config_dir"


@rule("C19-a")
def c19_a(ctx: Ctx):
    """init_project on an existing project writes nothing (except creating a missing workspace directory)."""
    R = "C19-a"
    f = ctx.fn(IP)
    out = []
    tries = [n for n in f.node.body if isinstance(n, ast.Try)]
    if not tries:
        # guard-clause spelling: "no project here yet" is decided by a test of the configuration file instead of the LookupError of get_project(search=False)
        cfg = ctx.cfg(f)
        writes = []
        for n in cfg.stmt_nodes():
            if n.kind != "stmt":
                continue
            for c in walk_no_nested(n.ast):
                if isinstance(c, ast.Call):
                    e = common.ext_name(ctx, f, c) or ""
                    internal_mut = any(x.kind in common.MUTATING_KINDS for t in common.targets_of_funcs(ctx, f, c) if not t.qual.endswith(("get_project", "Project.__init__"))
                                       for x in ctx.effects.transitive([t])[0])
                    if e in ("os.makedirs", "os.mkdir", "os.replace", "os.rename") or internal_mut or (isinstance(c.func, ast.Attribute) and c.func.attr == "write" and "onfig" in canon(c.func.value)):
                        writes.append((n, c))
        checks = {n.id for n in cfg.stmt_nodes() if n.kind == "stmt" and any(isinstance(c, ast.Call) and any(t.qual.endswith(":_raise_if_older_schema") for t in common.targets_of_funcs(ctx, f, c))
                                                                             for c in walk_no_nested(n.ast))}
        if not writes:
            return [ctx.inc(R, f, f.node, "init_project has no try and no recognisable write")]
        for n, c in writes:
            facts = common.expand_facts(ctx, f, common.facts_at(ctx, f, c, "n"))
            absent = any((not pol) and ("os.path.isfile(" in t or "os.path.exists(" in t) and "onfig" in t for (t, pol) in facts)
            kk = IP + "|write:" + canon(c)[:40]
            if not absent:
                out.append(ctx.viol(R, f, c, f"{canon(c)[:50]} runs for existing projects too (not under 'no configuration file here'): init_project is not idempotent", construct=kk))
            elif cfg.must_pass_before(n.id, checks, kinds="n") is not None or not checks:
                out.append(ctx.viol(R, f, c, f"{canon(c)[:50]} can run before the legacy-schema check (_raise_if_older_schema): a refused init_project on a project with an older schema has already "
                                    "modified it (e.g. left an empty .signac/ behind, on which a later migration fails half-way)", construct=kk))
            else:
                out.append(ctx.ok(R, f, c, "written only when no configuration file exists here, after the legacy-schema check", construct=kk))
        return out
    tr = tries[0]
    hs = [h for h in tr.handlers if "LookupError" in canon(h.type or ast.Constant(value=""))]
    if not hs:
        out.append(ctx.inc(R, f, tr, "no LookupError handler"))
    # effects reachable from the try body
    roots = []
    for st in tr.body:
        for c in walk_no_nested(st):
            if isinstance(c, ast.Call):
                tg, ext = ctx.calls.resolve_call(f, c)
                roots += tg
    eff, cl = ctx.effects.transitive(roots)
    bad = [e for e in eff if e.kind in common.MUTATING_KINDS and e.kind != "mkdir"]
    mk = [e for e in eff if e.kind == "mkdir"]
    for e in bad:
        out.append(ctx.viol(R, e.fi, e.node, f"opening an existing project can {e.prim} ({e.kind}): init_project on an existing project must leave it unchanged"))
    for e in mk:
        facts = common.facts_at(ctx, e.fi, e.node, "n")
        if any(not pol and "os.path.isdir(" in t for (t, pol) in facts):
            out.append(ctx.ok(R, e.fi, e.node, "directory creation only when the directory is missing"))
        else:
            # _mkdir_p: look at the call site guard
            out.append(ctx.ok(R, e.fi, e.node, f"{e.prim} with exist_ok (creates nothing that exists)") if kwarg(e.node, "exist_ok") is not None
                       else ctx.inc(R, e.fi, e.node, "unguarded directory creation on the success path"))
    if not bad:
        out.append(ctx.ok(R, f, tr, f"success path closure ({len(cl)} functions): no write other than creating a missing workspace directory", construct=IP + "|success-closure"))
    # statements outside the handler must not write
    for st in f.node.body:
        if st is tr:
            continue
        for c in walk_no_nested(st):
            if isinstance(c, ast.Call):
                tg, ext = ctx.calls.resolve_call(f, c)
                e2, _ = ctx.effects.transitive(tg)
                if any(x.kind in common.MUTATING_KINDS for x in e2) or (isinstance(c.func, ast.Attribute) and c.func.attr == "write"):
                    out.append(ctx.viol(R, f, c, f"{canon(c)[:50]} runs for existing projects too: init_project is not idempotent"))
    # directory creation inside init_project tolerates a directory that is already there (a half-finished earlier attempt, a concurrent init)
    for e in ctx.effects.direct(f):
        if e.kind == "mkdir":
            v = kwarg(e.node, "exist_ok")
            if ctx.fold(v, f) is True if v is not None else False:
                out.append(ctx.ok(R, f, e.node, f"{e.prim}(..., exist_ok=True)", construct=IP + "|mkdir-tolerant"))
            else:
                out.append(ctx.viol(R, f, e.node, f"init_project creates the configuration directory with {e.prim} without exist_ok=True: after an attempt that got as far as creating "
                                    "'.signac' but not the config file (write error, interrupt, concurrent init) every later init_project fails with FileExistsError", construct=IP + "|mkdir-tolerant"))
    # the write of the new configuration - in init_project itself or in a helper it calls
    wsites = []
    _eff, _cl = ctx.effects.transitive([f])
    for g in [f] + [x for x in _cl.values() if x is not f and not x.module.is_dep and x.module.name.startswith("signac")]:
        for c in body_nodes(g):
            if isinstance(c, ast.Call) and isinstance(c.func, ast.Attribute) and c.func.attr == "write" and isinstance(c.func.value, ast.Name) \
                    and (ctx.calls.type_of(c.func.value, g) == "ext:ConfigObj" or g is f or "onfig" in canon(c.func.value)):
                wsites.append((g, c))
    if not wsites:
        out.append(ctx.inc(R, f, f.node, "init_project: no write of the new configuration found (directly or in a called helper)", construct=IP + "|config-read-modify-write"))
    for g, c in wsites:
        d = common.reaching_def(ctx, g, c.func.value.id, c)
        k = IP + "|config-read-modify-write"
        if d is not None and isinstance(d, ast.Call) and "signac._config:_read_config_file" in common.targets_of(ctx, g, d):
            out.append(ctx.ok(R, g, c, "the new configuration is what is on disk plus the schema version (read-modify-write)", construct=k))
        elif d is not None:
            out.append(ctx.viol(R, g, c, f"the configuration written by init_project is built from scratch ({canon(d)[:50]}), not read from the file: whatever another process (or an earlier, "
                                "interrupted init) put into the configuration between the existence test and this write is reset", construct=k))
        else:
            out.append(ctx.inc(R, g, c, "origin of the written configuration not determined", construct=k))
    for e in ctx.effects.direct(f):
        if e.kind in common.MUTATING_KINDS:
            inh = any(common.in_body_of(ctx, f, e.node, h, ("body",)) for h in tr.handlers)
            if inh:
                out.append(ctx.ok(R, f, e.node, f"{e.prim} only inside the handler for 'no project here yet'"))
            else:
                out.append(ctx.viol(R, f, e.node, f"{e.prim} outside the LookupError handler: the configuration of an existing project is rewritten"))
    return out


@rule("C19-b")
def c19_b(ctx: Ctx):
    """get_job: last id-like component, project from its parent, existence checked first."""
    R = "C19-b"
    f = ctx.fn(GJ)
    cfg = ctx.cfg(f)
    out = []
    rx = [c for c in body_nodes(f) if isinstance(c, ast.Call) and (common.ext_name(ctx, f, c) or "").startswith("re.") or
          (isinstance(c, ast.Call) and isinstance(c.func, ast.Attribute) and canon(c.func.value) == "JOB_ID_REGEX")]
    rx = [c for c in rx if isinstance(c, ast.Call)]
    if not rx:
        return [ctx.inc(R, f, f.node, "no regular expression search in get_job")]
    for c in rx:
        api = c.func.attr
        if api in ("finditer", "findall"):
            # last match must be taken
            last = [n for n in body_nodes(f) if isinstance(n, ast.Subscript) and ctx.fold(n.slice, f) == -1]
            # a loop that runs the iterator to exhaustion leaves its target bound to the last match
            pm_ = ctx.parents(f)
            lp = pm_.get(id(c))
            exhaust = isinstance(lp, ast.For) and lp.iter is c and not lp.orelse and not any(isinstance(x, (ast.Break, ast.Return)) for st in lp.body for x in ast.walk(st))
            first = [n for n in body_nodes(f) if (isinstance(n, ast.Subscript) and ctx.fold(n.slice, f) == 0 and any(x is c for x in ast.walk(common.inline_at(ctx, f, n.value, n))))
                     or (isinstance(n, ast.Call) and isinstance(n.func, ast.Name) and n.func.id == "next" and n.args and any(x is c for x in ast.walk(common.inline_at(ctx, f, n.args[0], n))))]
            brk = isinstance(lp, ast.For) and lp.iter is c and any(isinstance(x, (ast.Break, ast.Return)) for st in lp.body for x in ast.walk(st))
            if last:
                out.append(ctx.ok(R, f, c, "all id-like components are found and the last one is used"))
            elif exhaust:
                out.append(ctx.ok(R, f, c, "the matches are iterated to exhaustion: the loop variable ends up as the last id-like component"))
            elif first or brk:
                out.append(ctx.viol(R, f, c, "get_job does not take the last id-like component: for a project nested in a job directory the outer job is returned"))
            else:
                out.append(ctx.inc(R, f, c, "which of the id-like components is used could not be determined"))
        elif api in ("search", "match"):
            out.append(ctx.viol(R, f, c, f"get_job uses {api}(), i.e. the first id-like component of the path: for '<ws>/<id1>/workspace/<id2>' the outer job and project are "
                                "returned instead of the innermost"))
        else:
            out.append(ctx.inc(R, f, c, f"regex API {api}"))
    gp = [c for c in body_nodes(f) if isinstance(c, ast.Call) and GP in common.targets_of(ctx, f, c)]
    for c in gp:
        a = c.args[0] if c.args else kwarg(c, "path")
        v = common.inline_at(ctx, f, a, c) if a is not None else None
        t = canon(v).replace(" ", "") if v is not None else ""
        if ("os.pardir" in t or "'..'" in t) and ".end()]" in t:
            out.append(ctx.ok(R, f, c, "the project is searched from the parent of the matched job directory (<job dir>/.. exists only if the job directory itself exists)"))
        elif "os.path.dirname(" in t and ".end()]" in t:
            # dirname() is textual: the truncated candidate '<...>/<32 hex>' need not exist (a directory '<id>.bak', a sha256-named directory); the join(.., pardir)
            # spelling gets that test for free from get_project's existence check. With dirname an explicit test of the truncated path must precede.
            trunc = [n for n in body_nodes(f) if isinstance(n, ast.Call) and common.ext_name(ctx, f, n) in ("os.path.isdir", "os.path.exists", "os.path.lexists") and n.args
                     and ".end()]" in canon(common.inline_at(ctx, f, n.args[0], n)).replace(" ", "")]
            guarded = False
            for tnode in trunc:
                facts = common.facts_at(ctx, f, c, "n")
                if any(pol and canon(tnode).replace(" ", "") in x.replace(" ", "") for (x, pol) in facts) or any(pol and canon(common.inline_at(ctx, f, tnode, tnode)).replace(" ", "") in x.replace(" ", "") for (x, pol) in common.expand_facts(ctx, f, facts)):
                    guarded = True
            if guarded:
                out.append(ctx.ok(R, f, c, "the project is searched from dirname(<matched job directory>), after the truncated path was tested for existence"))
            else:
                out.append(ctx.viol(R, f, c, "the project is searched from os.path.dirname(<path cut at the end of the id match>), a purely textual parent: when the last id-like run of hex digits is only "
                                    "the prefix of a longer component ('<id>.bak', a sha256-named directory) the truncated directory does not exist, yet a Job with that made-up id is returned "
                                    "instead of LookupError (os.path.join(<dir>, os.pardir) only exists if <dir> does)", construct=GJ + "|parent-of-existing"))
        elif ".end()]" in t:
            out.append(ctx.viol(R, f, c, f"the project is searched from {canon(a)}, the job directory itself: a project nested inside the job directory is found instead of the project whose workspace holds the job"))
        else:
            out.append(ctx.inc(R, f, c, "get_project argument not recognised: " + t[:60]))
    # existence check of the full path precedes the regex
    ex = {n.id for n in cfg.stmt_nodes() if n.kind == "test" and isinstance(n.ast, ast.If) and canon(n.ast.test).replace(" ", "") in ("notos.path.exists(path)",)
          and any(isinstance(x, ast.Raise) for st in n.ast.body for x in ast.walk(st))}
    for c in rx:
        bad = None
        for nid in ctx.node_ids(f, c):
            bad = bad or cfg.must_pass_before(nid, ex, kinds="n")
        if bad is None and ex:
            out.append(ctx.ok(R, f, c, "a non-existent path raises LookupError before any id is extracted from it"))
        else:
            out.append(ctx.viol(R, f, c, "the path is not checked for existence (as given) before an id is extracted from it: a non-existent path below an existing job directory resolves to that job"))
    # the job directory is located by the *position* of the last match, never by searching the id text again
    ts = [c for c in body_nodes(f) if isinstance(c, ast.Call) and isinstance(c.func, ast.Attribute) and c.func.attr in ("partition", "split", "find", "index", "rpartition", "rsplit", "rfind", "rindex")
          and c.args and not isinstance(c.args[0], ast.Constant) and "os.sep" not in canon(c.args[0]) and (names_in(c.args[0]) - set(f.params))
          and (names_in(common.inline_at(ctx, f, c.func.value, c)) & set(f.params))]
    first = [c for c in ts if c.func.attr in ("partition", "split", "find", "index")]
    if first:
        out.append(ctx.viol(R, f, first[0], f"the job directory is derived with {canon(first[0])[:40]}, i.e. from the first occurrence of the id (text or path component): when a nested project holds a job with the "
                            "same id as its enclosing job ('<ws>/X/workspace/X') the outer job and project are returned"))
    elif ts:
        out.append(ctx.inc(R, f, ts[0], f"job directory derived with {canon(ts[0])[:40]}"))
    absn = [n for n in body_nodes(f) if isinstance(n, ast.Call) and common.ext_name(ctx, f, n) == "os.path.abspath"]
    kn = GJ + "|normalised-before-match"
    if absn:
        out.append(ctx.ok(R, f, absn[0], "the query path is made absolute (no link resolution)"))
        out.append(ctx.ok(R, f, absn[0], "the query path is normalised (os.path.abspath collapses '..') before job ids are searched in it", construct=kn))
    else:
        # a helper may do it: every return of the helper must be an os.path.abspath / normpath result
        helpers = []
        for c in body_nodes(f):
            if isinstance(c, ast.Call):
                for tq in common.targets_of(ctx, f, c):
                    g = ctx.prog.funcs.get(tq)
                    if g is not None and not g.module.is_dep and "path" in g.name.lower() and g.qual not in (GP, GJ):
                        helpers.append((c, g))
        good = [(c, g) for (c, g) in helpers if all(isinstance(r.value, ast.Call) and common.ext_name(ctx, g, r.value) in ("os.path.abspath", "os.path.normpath", "os.getcwd")
                                                    for r in body_nodes(g) if isinstance(r, ast.Return) and r.value is not None)]
        if good:
            out.append(ctx.ok(R, f, good[0][0], f"the query path is normalised by {good[0][1].name}() before job ids are searched in it", construct=kn))
        elif helpers:
            c, g = helpers[0]
            out.append(ctx.viol(R, f, c, f"get_job makes the query path absolute with {g.name}(), which does not collapse '..' components (not os.path.abspath / normpath on every return): the id "
                                "pattern is then searched in the un-normalised text, so get_job('../..') from inside a job directory returns that job instead of raising LookupError", construct=kn))
        else:
            out.append(ctx.viol(R, f, f.node, "get_job searches job ids in the query path without normalising it (os.path.abspath): '..' components that lead out of a job directory are ignored",
                                construct=kn))
    ret = [n for n in body_nodes(f) if isinstance(n, ast.Return) and isinstance(n.value, ast.Call)]
    for r in ret:
        idv = kwarg(r.value, "id_")
        if idv is not None and ".group(" in canon(common.inline_at(ctx, f, idv, r)):
            out.append(ctx.ok(R, f, r, "the returned job carries the matched id"))
    return out


@rule("C19-c")
def c19_c(ctx: Ctx):
    """Discovery never resolves symlinks; upward search; search=False does not walk."""
    R = "C19-c"
    out = []
    # the upward walk starts from an absolute path: os.path.dirname() of a relative path ends at '' (the current directory), not at the file system root
    lf = ctx.fn(LOC)

    def _while_walks(g):
        """while loops that move a variable to its parent directory until dirname(v) == v: (loop, variable)"""
        res = []
        for w in [n for n in body_nodes(g) if isinstance(n, ast.While)]:
            found = None
            for x in ast.walk(w):
                if not (isinstance(x, ast.Compare) and len(x.ops) == 1 and isinstance(x.ops[0], (ast.Eq, ast.NotEq))):
                    continue
                for a, b in ((x.left, x.comparators[0]), (x.comparators[0], x.left)):
                    if not isinstance(b, ast.Name):
                        continue
                    e = a.value if isinstance(a, ast.NamedExpr) else a
                    if isinstance(e, ast.Name):
                        # a local bound (inside the loop) to dirname(b)
                        ds = [n.value for n in ast.walk(w) if isinstance(n, ast.Assign) and any(isinstance(t, ast.Name) and t.id == e.id for t in n.targets)]
                        ds += [n.value for n in ast.walk(w) if isinstance(n, ast.NamedExpr) and n.target.id == e.id]
                        if len(ds) == 1:
                            e = ds[0]
                    m = common.pmatch("os.path.dirname(V)", e)
                    if m is not None and canon(m["V"]) == b.id:
                        found = b.id
            if found:
                res.append((w, found))
        return res

    def _outer_defs(g, w, v):
        first = w.body[0] if w.body else w
        return [d for d in common.reaching_defs(ctx, g, v, first) if not (isinstance(d, ast.AST) and any(d is x for x in ast.walk(w)))]

    # sites: (loop statement in _locate_config_dir, variable that holds the directory, start expressions, description)
    sites = []
    for w, v in _while_walks(lf):
        sites.append((w, v, _outer_defs(lf, w, v), "while"))
    # a walk factored into a helper (generator) whose loop variable starts as a parameter: the start is the argument at the call
    for lp in [n for n in body_nodes(lf) if isinstance(n, ast.For) and isinstance(n.iter, ast.Call)]:
        for tq in common.targets_of(ctx, lf, lp.iter):
            g = ctx.prog.funcs.get(tq)
            if g is None or g.module.is_dep:
                continue
            for w, v in _while_walks(g):
                ds = _outer_defs(g, w, v)
                if ds and all(isinstance(d, str) or (isinstance(d, ast.arg)) or (isinstance(d, ast.Name) and d.id in g.params) for d in ds) or (not ds and v in g.params):
                    pname = v
                    idx = g.params.index(pname) if pname in g.params else None
                    arg = None
                    if idx is not None and idx < len(lp.iter.args):
                        arg = lp.iter.args[idx]
                    else:
                        arg = kwarg(lp.iter, pname)
                    tv = lp.target.id if isinstance(lp.target, ast.Name) else v
                    sites.append((lp, tv, [arg] if arg is not None else [], f"for over {g.name}()"))
    walks = sites
    if not walks:
        out.append(ctx.inc(R, lf, lf.node, "no upward walk (dirname(p) == p termination) found in _locate_config_dir", construct=LOC + "|absolute-start"))
    all_loops = [x for x in body_nodes(lf) if isinstance(x, (ast.While, ast.For))]
    for w, v, defs, how in walks:
        k = f"{LOC}|absolute-start|L{[x for x in all_loops if any(x is s[0] for s in sites)].index(w)}"
        def _abs(d, depth=0):
            if isinstance(d, ast.Call) and common.ext_name(ctx, lf, d) == "os.path.abspath":
                return True
            if isinstance(d, ast.Name) and depth < 3:
                # a local that is itself bound (only) to an absolute path
                ds = [n.value for n in body_nodes(lf) if isinstance(n, ast.Assign) and any(isinstance(t, ast.Name) and t.id == d.id for t in n.targets)]
                return bool(ds) and d.id not in lf.params and all(_abs(x, depth + 1) for x in ds)
            return False
        bad = [d for d in defs if not _abs(d)]
        if defs and not bad:
            out.append(ctx.ok(R, lf, w, f"the upward walk over `{v}` starts from os.path.abspath(...)", construct=k))
        elif bad:
            d = bad[0]
            out.append(ctx.viol(R, lf, w, f"the upward walk over `{v}` can start from {canon(d)[:50] if isinstance(d, ast.AST) else d}, which is not absolute: for a relative query path "
                                "os.path.dirname() ends at '' (the current directory) instead of the file system root, so a project above the current directory is not found and '..' "
                                "queries from inside a nested project resolve to the nested project", construct=k))
        else:
            out.append(ctx.inc(R, lf, w, f"start of the upward walk over `{v}` not determined", construct=k))
    # the legacy-schema probe runs only after the search for a current configuration has reached the root without success: it must not sit in the loop that
    # looks for the configuration file
    for w in [n for n in body_nodes(lf) if isinstance(n, (ast.While, ast.For))]:
        finds = [r for r in ast.walk(w) if isinstance(r, ast.Return) and r.value is not None and not (isinstance(r.value, ast.Constant) and r.value.value is None)]
        probes = [c for c in ast.walk(w) if isinstance(c, ast.Call) and "signac._config:_raise_if_older_schema" in common.targets_of(ctx, lf, c)]
        if finds and probes:
            out.append(ctx.viol(R, lf, probes[0], "the legacy-schema probe is executed for every directory on the way up, inside the loop that looks for a configuration: a directory with an old-layout "
                                "signac.rc between the query path and an enclosing initialised project makes get_project raise IncompatibleSchemaVersion instead of returning that project",
                                construct=LOC + "|probe-after-search"))
    lc = ctx.prog.funcs.get("signac._config:_load_config")
    kl = "signac._config:_load_config|project-local-last"
    if lc is None:
        out.append(ctx.inc(R, None, None, "_load_config not found", construct=kl))
    else:
        lcfg = ctx.cfg(lc)
        merges = [n for n in lcfg.stmt_nodes() if n.kind == "stmt" and any(isinstance(c, ast.Call) and isinstance(c.func, ast.Attribute) and c.func.attr == "merge" for c in walk_no_nested(n.ast))]
        verdict = None
        for mnode in merges:
            pml = ctx.parents(lc)
            cur = pml.get(id(mnode.ast))
            loop = None
            while cur is not None:
                if isinstance(cur, ast.For):
                    loop = cur
                    break
                cur = pml.get(id(cur))
            txt = canon(common.inline_at(ctx, lc, mnode.ast.value if isinstance(mnode.ast, ast.Expr) else mnode.ast, mnode.ast))
            if loop is not None and isinstance(loop.iter, (ast.Tuple, ast.List)):
                elts = [canon(e) for e in loop.iter.elts]
                pi = [i for i, e in enumerate(elts) if "_get_project_config_fn" in e]
                ui = [i for i, e in enumerate(elts) if "USER_CONFIG_FN" in e or "signacrc" in e]
                if pi and ui and min(pi) < max(ui):
                    verdict = ("viol", mnode, f"the files are merged in the order {elts}: the user's ~/.signacrc is merged after the project-local configuration")
                elif pi and ui and verdict is None:
                    later = [m2 for m2 in merges if m2 is not mnode and m2.id in lcfg.reachable([lcfg.node_ids_for(loop)[0]], kinds="n") and not any(m2.ast is x for x in ast.walk(loop))]
                    verdict = ("viol", later[0], "another configuration is merged after the project-local one") if later else ("ok", mnode, "")
            if "_get_project_config_fn" in txt and loop is None:
                later = [m2 for m2 in merges if m2 is not mnode and m2.id in lcfg.reachable([mnode.id], kinds="n")]
                if later:
                    verdict = ("viol", later[0], "another configuration is merged after the project-local one")
                elif verdict is None:
                    verdict = ("ok", mnode, "")
        if verdict and verdict[0] == "viol":
            out.append(ctx.viol(R, lc, verdict[1].ast, f"{verdict[2]}; later merges override earlier ones, and every file is validated on its own (defaults filled in), so the user file's "
                                "default schema_version overrides the project's: every project is refused as incompatible as soon as a ~/.signacrc exists", construct=kl))
        elif verdict:
            out.append(ctx.ok(R, lc, verdict[1].ast, "the project-local configuration is merged last and therefore wins", construct=kl))
        else:
            out.append(ctx.inc(R, lc, lc.node, "merge order of the configuration files not recognised", construct=kl))
    for q in (LOC, GP, GJ, "signac._config:_get_project_config_fn"):
        f = ctx.fn(q)
        mt = [c for c in body_nodes(f) if isinstance(c, ast.Call) and common.ext_name(ctx, f, c) in ("os.path.ismount",)]
        if mt:
            out.append(ctx.viol(R, f, mt[0], "the upward search stops at mount points: a project whose workspace or data directory lies on another volume (bind mount, scratch file system) is not "
                                "found from inside it, get_project / get_job raise LookupError"))
        rp = [c for c in body_nodes(f) if isinstance(c, ast.Call) and common.ext_name(ctx, f, c) in ("os.path.realpath", "os.readlink", "pathlib.Path.resolve")]
        if rp:
            out.append(ctx.viol(R, f, rp[0], f"{canon(rp[0])[:50]} resolves symbolic links during discovery: a job directory symlinked into project B's workspace resolves to the project "
                                "that holds the link target, not to B"))
        else:
            out.append(ctx.ok(R, f, f.node, "no symbolic-link resolution in discovery"))
    from .lints import no_memoisation
    out += no_memoisation(ctx, R, [LOC, GP, GJ, "signac._config:_get_project_config_fn", "signac._config:_raise_if_older_schema"],
                          "which project owns a path depends on the current file system; a remembered answer goes stale as soon as a nearer project is initialised (init_project would then return the outer project)")
    f = ctx.fn(LOC)
    loops = [st[0] for st in sites if any(st[0] is n for n in f.node.body)]
    loops.sort(key=lambda n: n.lineno)
    if loops:
        first = loops[0]
        var = [st[1] for st in sites if st[0] is first][0]
        rets = [n for n in ast.walk(first) if isinstance(n, ast.Return)]
        up = [n for n in ast.walk(first) if isinstance(n, ast.Call) and common.ext_name(ctx, f, n) == "os.path.dirname"] or isinstance(first, ast.For)
        tests = [n for n in ast.walk(first) if isinstance(n, (ast.If, ast.While)) and f"os.path.isfile(_get_project_config_fn({var}))" in canon(n.test)]
        if rets and up and tests and canon(rets[0].value) == var:
            out.append(ctx.ok(R, f, first, "upward search: returns the first directory (starting at the query path) that holds a config file, moving one parent at a time"))
        else:
            out.append(ctx.inc(R, f, first, "upward search loop not recognised"))
    else:
        out.append(ctx.inc(R, f, f.node, "no upward search loop"))
    gpf = ctx.fn(GP)
    pp = [p for p in gpf.params if p not in ("cls", "self")]
    ppath = pp[0] if pp else "path"
    exs = [c for c in body_nodes(gpf) if isinstance(c, ast.Call) and common.ext_name(ctx, gpf, c) in ("os.path.exists", "os.path.isdir", "os.path.lexists") and c.args]
    ke = GP + "|exists-as-given"
    # a path that does not exist is refused before anything is searched: the upward walk is lexical and would happily answer for a missing directory below a project
    gcfg = ctx.cfg(gpf)
    guards = {n.id for n in gcfg.stmt_nodes() if n.kind == "test" and isinstance(n.ast, ast.If) and any(isinstance(c, ast.Call) and common.ext_name(ctx, gpf, c) in ("os.path.exists", "os.path.isdir", "os.path.lexists")
                                                                                                    for c in ast.walk(n.ast.test))
              and any(isinstance(x, ast.Raise) for st in n.ast.body + n.ast.orelse for x in ast.walk(st))}
    locs = [c for c in body_nodes(gpf) if isinstance(c, ast.Call) and LOC in common.targets_of(ctx, gpf, c)]
    kx = GP + "|exists-before-search"
    for c in locs:
        bad = None
        for nid in ctx.node_ids(gpf, c):
            bad = bad or gcfg.must_pass_before(nid, guards, kinds="n")
        if guards and bad is None:
            out.append(ctx.ok(R, gpf, c, "the query path is tested for existence (and refused with LookupError) before the upward search starts", construct=kx))
        else:
            out.append(ctx.viol(R, gpf, c, "the upward search can start without the query path having been tested for existence: the walk is lexical, so a path that does not exist (a typo, a "
                                "removed directory) below an initialised project resolves to that project instead of raising LookupError", construct=kx,
                                witness=gcfg.describe_path(bad) if bad else None))
    if not exs:
        out.append(ctx.inc(R, gpf, gpf.node, "get_project: no existence test of the query path", construct=ke))
    for c in exs:
        a = common.inline_at(ctx, gpf, c.args[0], c)
        norm = [x for x in ast.walk(a) if isinstance(x, ast.Call) and common.ext_name(ctx, gpf, x) in ("os.path.abspath", "os.path.normpath", "os.path.realpath")]
        if norm:
            out.append(ctx.viol(R, gpf, c, f"get_project tests the existence of {canon(a)[:50]}, the lexically normalised path: 'sub/ghost/..' or 'notes.txt/..' collapse to an existing directory "
                                "although a component does not exist (or is a file), so they resolve to the enclosing project instead of raising LookupError", construct=ke))
        elif canon(a) in (ppath, f"os.fspath({ppath})"):
            out.append(ctx.ok(R, gpf, c, "get_project tests the existence of the query path as given", construct=ke))
        else:
            out.append(ctx.inc(R, gpf, c, f"existence test on {canon(a)[:50]}", construct=ke))
    # the search=False guard and the walk must look at the same directory: the walk normalises lexically (os.path.abspath collapses '..'),
    # so the guard's file name must be normalised the same way, not left to the kernel (which resolves 'link/..' physically)
    kg = GP + "|guard-normalised-like-walk"
    guards = [c for c in body_nodes(gpf) if isinstance(c, ast.Call) and common.ext_name(ctx, gpf, c) == "os.path.isfile" and c.args
              and any("search" in x for x, _ in common.facts_at(ctx, gpf, c, "n")) or (isinstance(c, ast.Call) and common.ext_name(ctx, gpf, c) == "os.path.isfile" and c.args and
              any(isinstance(b, ast.BoolOp) and any(c is y for y in ast.walk(b)) and "search" in canon(b) for b in body_nodes(gpf)))]
    for c in guards:
        a = common.inline_at(ctx, gpf, c.args[0], c)
        texts = [canon(a)]
        if isinstance(a, ast.Call):
            for tq in common.targets_of(ctx, gpf, a):
                h = ctx.prog.funcs.get(tq)
                if h is not None:
                    texts += [canon(common.inline_at(ctx, h, r.value, r)) for r in body_nodes(h) if isinstance(r, ast.Return) and r.value is not None]
            texts += [canon(common.inline_at(ctx, gpf, x, c)) for x in a.args]
        if any("os.path.abspath(" in t or "os.path.normpath(" in t for t in texts):
            out.append(ctx.ok(R, gpf, c, "the search=False guard tests a lexically normalised file name, like the upward walk that follows it", construct=kg))
        elif any("os.path.realpath(" in t for t in texts):
            pass  # reported by the link-resolution rule
        elif len(texts) > 1:
            out.append(ctx.viol(R, gpf, c, f"the search=False guard tests {texts[-1][:60]} without lexical normalisation while _locate_config_dir walks up from os.path.abspath(path): for a query such as "
                                "'plain/link/..' (link -> a directory of another project) the kernel resolves '..' physically, the guard finds that project's config, and the walk then returns an "
                                "enclosing project of the lexical parent although search=False", construct=kg))
        else:
            out.append(ctx.inc(R, gpf, c, "file name tested by the search=False guard not recognised", construct=kg))
    mi = ctx.prog.funcs.get("signac.__main__:main_init")
    if mi is not None:
        gp = [c for c in body_nodes(mi) if isinstance(c, ast.Call) and (GP in common.targets_of(ctx, mi, c) or "signac.project:get_project" in common.targets_of(ctx, mi, c))]
        bad = [c for c in gp if ctx.fold(kwarg(c, "search"), mi) is not False]
        if bad:
            out.append(ctx.viol(R, mi, bad[0], "`signac init` first looks for a project with an upward search: inside a sub-directory or job directory of an existing project it finds the enclosing "
                                "project and initialises nothing, so no nested project is created", construct="cli|main_init"))
        else:
            out.append(ctx.ok(R, mi, mi.node, "`signac init` initialises the given directory itself (no upward search first)", construct="cli|main_init", nontrivial=False))
    g = ctx.fn(GP)
    loc = [c for c in body_nodes(g) if isinstance(c, ast.Call) and LOC in common.targets_of(ctx, g, c)]
    for c in loc:
        facts = common.facts_at(ctx, g, c, "n")
        t = " ".join(sorted(x for x, _ in facts))
        if any("search" in x for x, _ in facts):
            out.append(ctx.ok(R, g, c, "the upward search runs only when allowed (search) or when the directory itself holds a config"))
        else:
            out.append(ctx.viol(R, g, c, "get_project walks upwards regardless of search=False"))
    return out


@rule("C19-d")
def c19_d(ctx: Ctx):
    """A configuration that declares no schema version is not taken for a current project (from C20-f)."""
    from .c20 import c20_f
    res = [r for r in c20_f(ctx) if "_CFG-default" in r.construct]
    for r in res:
        r.rule = "C19-d"
    return res


@rule("C19-e")
def c19_e(ctx: Ctx):
    """Only `signac init` plants a project marker: no other sub-command creates the `.signac` directory / a config file in the current directory (a stray marker in a
    job or run directory makes discovery stop there instead of at the enclosing project)."""
    R = "C19-e"
    out = []
    for f in ctx.prog.functions_of_module("signac.__main__"):
        if not f.name.startswith("main_") or f.name in ("main_init", "main_migrate"):
            continue
        mk = [e for e in ctx.effects.direct(f) if e.kind in ("mkdir",) or e.prim in ("os.mkdir", "os.makedirs")]
        mk += [c for c in body_nodes(f) if isinstance(c, ast.Call) and (dotted(c.func) or "").split(".")[-1] == "_mkdir_p"]
        if mk:
            node = getattr(mk[0], "node", mk[0])
            out.append(ctx.viol(R, f, node, f"{f.name} creates a directory: run from a job or data directory it plants a project marker there, and get_project from that directory and "
                                "below no longer resolves to the enclosing project", construct=f"{f.qual}|no-marker"))
    if not out:
        out.append(ctx.ok(R, None, None, "no sub-command other than init / migrate creates directories", construct="signac.__main__|no-marker"))
    return out

@rule("C19-f")
def c19_f(ctx: Ctx):
    """signac move / clone resolve their PROJECT argument as given (relative to the working directory), like get_project(path)."""
    from . import cli
    return cli.option_forwarding(ctx, "C19-f", ["main_move", "main_clone"])


RULES = [c19_a, c19_b, c19_c, c19_d, c19_e, c19_f]
