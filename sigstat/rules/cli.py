"""Rules about the command line front end (signac/__main__.py) shared by several properties.

The sub-commands are thin adapters: they turn `args` into the arguments of one API call. Three necessary conditions of "the CLI spelling of an
operation does what the API spelling does":

  selection   a selection computed from -f / -j (`_find_with_filter_or_none`, `_find_with_filter`, `_select_jobs_from_args`) is distinguished from
              "no selection" by identity (`is None`) only and is handed to the API unconditionally - an *empty* selection selects nothing, it does not
              mean "all jobs", and it does not make the command return early
  forwarding  option values reach the API call unchanged (`exclude=args.exclude`, `deep=args.deep`, `exclude_const=args.exclude_const`, ...)
  delegation  a sub-command does not re-implement the operation with file-system primitives of its own (`signac move` is Job.move, nothing else)
"""
from __future__ import annotations

import ast

from ..core import dotted, kwarg, body_nodes, canon, walk_no_nested, names_in
from . import common

MAIN = "signac.__main__"
SELECTORS = ("_find_with_filter_or_none", "_find_with_filter", "_select_jobs_from_args", "_find_job_ids", "find_jobs")


def _selection_vars(ctx, f):
    out = {}
    for n in body_nodes(f):
        if isinstance(n, ast.Assign) and len(n.targets) == 1 and isinstance(n.targets[0], ast.Name) and isinstance(n.value, ast.Call):
            nm = (dotted(n.value.func) or "").split(".")[-1]
            if nm in SELECTORS:
                out[n.targets[0].id] = n
    return out


def _empty_test(e: ast.Compare) -> bool:
    """len(x) compared with a constant in a way that separates 0 from everything else (== 0, != 0, > 0, >= 1, < 1)"""
    a, b, op = e.left, e.comparators[0], e.ops[0]
    if isinstance(b, ast.Call):
        a, b = b, a
        op = {ast.Lt: ast.Gt(), ast.Gt: ast.Lt(), ast.LtE: ast.GtE(), ast.GtE: ast.LtE()}.get(type(op), op)
    if not (isinstance(b, ast.Constant) and isinstance(b.value, int)):
        return False
    v = b.value
    return (isinstance(op, (ast.Eq, ast.NotEq)) and v == 0) or (isinstance(op, ast.Gt) and v == 0) or (isinstance(op, ast.GtE) and v == 1) or (isinstance(op, ast.Lt) and v == 1) \
        or (isinstance(op, ast.LtE) and v == 0)


def selection_discipline(ctx, R, funcs=None):
    """One aggregated instance per sub-command that computes a selection."""
    out = []
    m = ctx.prog.modules.get(MAIN)
    if m is None:
        return [ctx.inc(R, None, None, "signac.__main__ not loaded", construct=MAIN + "|selection")]
    for f in ctx.prog.functions_of_module(MAIN):
        if funcs is not None and f.name not in funcs:
            continue
        if not f.name.startswith("main_"):
            continue
        sel = _selection_vars(ctx, f)
        k = f"{f.qual}|selection-by-identity"
        if not sel:
            direct = [c for c in body_nodes(f) if isinstance(c, ast.Call) and (dotted(c.func) or "").split(".")[-1] in SELECTORS]
            if direct and funcs is not None:
                out.append(ctx.ok(R, f, direct[0], "the selection is handed on as computed (no test of its own)", construct=k))
            continue
        bad = None
        for n in body_nodes(f):
            tests = []
            if isinstance(n, (ast.If, ast.While, ast.IfExp)):
                tests.append(n.test)
            elif isinstance(n, ast.BoolOp):
                tests.extend(n.values)
            elif isinstance(n, ast.comprehension):
                tests.extend(n.ifs)
            for t in tests:
                e = t.operand if isinstance(t, ast.UnaryOp) and isinstance(t.op, ast.Not) else t
                if isinstance(e, ast.Name) and e.id in sel:
                    bad = bad or (t, e.id, "its truth value")
                elif isinstance(e, ast.Call) and isinstance(e.func, ast.Name) and e.func.id == "len" and e.args and isinstance(e.args[0], ast.Name) and e.args[0].id in sel:
                    bad = bad or (t, e.args[0].id, "its length")
                elif isinstance(e, ast.Compare) and len(e.ops) == 1 and any(isinstance(x, ast.Call) and isinstance(x.func, ast.Name) and x.func.id == "len" and x.args
                                                                            and isinstance(x.args[0], ast.Name) and x.args[0].id in sel for x in [e.left] + list(e.comparators)) \
                        and _empty_test(e):
                    bad = bad or (t, [x.args[0].id for x in [e.left] + list(e.comparators) if isinstance(x, ast.Call) and x.args and isinstance(x.args[0], ast.Name)][0], "its length")
        rebound = None
        for n in body_nodes(f):
            if isinstance(n, ast.Assign) and len(n.targets) == 1 and isinstance(n.targets[0], ast.Name) and n.targets[0].id in sel and n is not sel[n.targets[0].id]:
                v = n.value
                from_sel = isinstance(v, ast.Call) and (dotted(v.func) or "").split(".")[-1] in SELECTORS
                derived = n.targets[0].id in names_in(v)       # e.g. wrapping the ids into handles: still the same selection
                is_none = isinstance(v, ast.Constant) and v.value is None
                if not (from_sel or derived or is_none) and getattr(n, "lineno", 0) > getattr(sel[n.targets[0].id], "lineno", 0):
                    rebound = rebound or n
        if rebound is not None and bad is None:
            out.append(ctx.viol(R, f, rebound, f"the selection is replaced by `{canon(rebound.value)[:60]}` after it was computed from -f / -j: jobs the user did not select are acted on",
                                construct=k))
            continue
        if bad:
            t, nm, what = bad
            out.append(ctx.viol(R, f, t, f"`{canon(t)[:50]}` decides on the selection `{nm}` by {what}: a filter that matches no job (an empty selection) is then treated like no selection at all "
                                "(the command acts on every job) or makes the command return without doing its work, unlike the API call with the same selection", construct=k))
        else:
            out.append(ctx.ok(R, f, sel[sorted(sel)[0]], f"the selection ({', '.join(sorted(sel))}) is told from 'no selection' by identity only", construct=k))
    return out


def effective_keywords(ctx, f, call):
    """keyword -> value of a call, with `**name` expanded when `name` is a local bound once to a dict literal / dict(k=v, ...) call (also several of them)"""
    out = {}
    for kw in call.keywords:
        if kw.arg is not None:
            out[kw.arg] = kw.value
            continue
        v = kw.value
        if isinstance(v, ast.Name):
            defs = [a for a in body_nodes(f) if isinstance(a, ast.Assign) and len(a.targets) == 1 and isinstance(a.targets[0], ast.Name) and a.targets[0].id == v.id]
            if len(defs) == 1:
                v = defs[0].value
        if isinstance(v, ast.Dict) and all(isinstance(k, ast.Constant) and isinstance(k.value, str) for k in v.keys):
            for k, val in zip(v.keys, v.values):
                out[k.value] = val
        elif isinstance(v, ast.Call) and isinstance(v.func, ast.Name) and v.func.id == "dict" and not v.args and all(k.arg for k in v.keywords):
            for k in v.keywords:
                out[k.arg] = k.value
        else:
            out["**"] = v
    return out


def selection_from_source(ctx, R):
    """signac sync: the -f / -j selection names jobs of the *source* (it is evaluated in the project the command runs in, or in the source) - never in the destination,
    where the jobs to be cloned do not exist yet."""
    f = ctx.prog.funcs.get(MAIN + ":main_sync")
    k = MAIN + ":main_sync|selection-project"
    if f is None:
        return [ctx.inc(R, None, None, "main_sync not found", construct=k)]
    syncs = [c for c in body_nodes(f) if isinstance(c, ast.Call) and isinstance(c.func, ast.Attribute) and c.func.attr == "sync" and "selection" in effective_keywords(ctx, f, c)]
    if not syncs:
        return [ctx.inc(R, f, f.node, "no <destination>.sync(selection=...) call in main_sync", construct=k)]
    c = syncs[0]
    dst = c.func.value.id if isinstance(c.func.value, ast.Name) else None
    used = set()
    frontier = names_in(effective_keywords(ctx, f, c)["selection"])
    for _ in range(4):
        new = set()
        for nm in sorted(frontier - used):
            used.add(nm)
            try:
                ds = common.reaching_defs(ctx, f, nm, c)
            except Exception:
                ds = []
            for d in ds:
                if isinstance(d, ast.AST):
                    new |= names_in(d)
        frontier = new
        if not frontier - used:
            break
    if dst and dst in used:
        return [ctx.viol(R, f, c, f"the selection handed to {dst}.sync() is computed from `{dst}`, the destination project: jobs that exist only in the source can never be selected, "
                         "so they are not cloned although the command reports success", construct=k)]
    return [ctx.ok(R, f, c, "the selection is not computed from the destination project", construct=k)]


# (sub-command, API method, {keyword: attribute of args that must arrive unchanged (or negated)})
FORWARD = {
    "main_sync": ("sync", {"exclude": "exclude", "deep": "deep", "dry_run": "dry_run", "recursive": "recursive", "parallel": "parallel"}),
    "main_schema": ("detect_schema", {"exclude_const": "exclude_const"}),
    "main_move": ("get_project", {"path": "project"}),
    "main_clone": ("get_project", {"path": "project"}),
}


def option_forwarding(ctx, R, funcs):
    out = []
    for fname in funcs:
        api, table = FORWARD[fname]
        f = ctx.prog.funcs.get(f"{MAIN}:{fname}")
        if f is None:
            out.append(ctx.inc(R, None, None, f"{fname} not found", construct=f"{MAIN}:{fname}|forwarding"))
            continue
        calls = [c for c in body_nodes(f) if isinstance(c, ast.Call) and ((isinstance(c.func, ast.Attribute) and c.func.attr == api) or (isinstance(c.func, ast.Name) and c.func.id == api))]
        # the helpers of the module that the sub-command hands its arguments to are part of it
        if fname in ("main_move", "main_clone"):
            for g in ctx.prog.functions_of_module(MAIN):
                if not g.name.startswith("main_") and any(isinstance(c, ast.Call) and g.qual in common.targets_of(ctx, f, c) for c in body_nodes(f)):
                    calls += [c for c in body_nodes(g) if isinstance(c, ast.Call) and isinstance(c.func, ast.Name) and c.func.id == api]
        withkw = [c for c in calls if (set(table) & set(effective_keywords(ctx, f, c))) or c.args]
        calls = withkw or calls
        if not calls:
            out.append(ctx.inc(R, f, f.node, f"no .{api}(...) call in {fname}", construct=f"{f.qual}|forwarding"))
            continue
        c = calls[0]
        eff = effective_keywords(ctx, f, c)
        for kw, attr in sorted(table.items()):
            k = f"{f.qual}|forward:{kw}"
            v = eff.get(kw)
            if v is None and "**" in eff:
                out.append(ctx.inc(R, f, c, f".{api}() receives **{canon(eff['**'])[:30]} of unknown content", construct=k))
                continue
            if v is None:
                # positional form of detect_schema(exclude_const, subset)
                if api in ("detect_schema", "get_project") and c.args:
                    v = c.args[0]
                else:
                    out.append(ctx.viol(R, f, c, f"{fname} does not pass {kw}= to .{api}(): the option --{attr.replace('_', '-')} has no effect", construct=k))
                    continue
            ex = common.inline_at(ctx, f, v, c)
            t = canon(ex).replace(" ", "")
            if t in (f"args.{attr}", f"notargs.{attr}", f"bool(args.{attr})"):
                out.append(ctx.ok(R, f, c, f"{kw}= receives args.{attr} unchanged", construct=k))
            else:
                out.append(ctx.viol(R, f, c, f"{kw}= receives `{canon(ex)[:60]}` instead of args.{attr} as given: the CLI spelling of the option no longer means what the API spelling means "
                                    "(e.g. a regular expression containing a comma is split, a flag is decided somewhere else)", construct=k))
    return out


def move_delegates(ctx, R):
    """`signac move` is Job.move for every job - one atomic rename or a refusal. It does not fall back to copying and deleting (which can leave the job in both
    projects, or nest it inside an existing destination job)."""
    f = ctx.prog.funcs.get(MAIN + ":main_move")
    k = MAIN + ":main_move|delegates"
    if f is None:
        return [ctx.inc(R, None, None, "main_move not found", construct=k)]
    bad = None
    # main_move and the helpers of the module it calls (a loop shared with `signac clone` receives the operation as a callable: what main_move passes is its own code)
    scope = [f]
    seen = {f.qual}
    todo = [f]
    while todo:
        g = todo.pop()
        for c in body_nodes(g):
            if isinstance(c, ast.Call):
                for t in common.targets_of_funcs(ctx, g, c):
                    if t.module.name == MAIN and t.qual not in seen and not t.name.startswith("main_") and t.name not in ("_open_job_by_id", "_print_err"):
                        seen.add(t.qual)
                        scope.append(t)
                        todo.append(t)
    moves = []
    for g in scope:
        for c in [x for x in ast.walk(g.node) if isinstance(x, ast.Call)]:
            e = common.ext_name(ctx, g, c) or ""
            if e.startswith(("shutil.", "os.replace", "os.rename", "os.remove", "os.unlink")):
                bad = bad or (c, e)
            elif isinstance(c.func, ast.Attribute) and c.func.attr in ("clone", "remove", "sync", "init"):
                bad = bad or (c, "." + c.func.attr + "()")
            elif isinstance(c.func, ast.Attribute) and c.func.attr == "move":
                moves.append(c)
    if bad:
        return [ctx.viol(R, f, bad[0], f"main_move uses {bad[1]} besides Job.move: a move that the rename refuses (other file system, existing destination) is carried out as a multi-step copy / "
                         "delete, which a fault leaves half done (the job in both projects) or which nests the job inside an existing destination job", construct=k)]
    if not moves:
        return [ctx.inc(R, f, f.node, "no .move() call in main_move", construct=k)]
    return [ctx.ok(R, f, moves[0], "signac move is Job.move and nothing else", construct=k)]


def sync_strategy_origin(ctx, R):
    """signac sync takes its file strategy from FileSync (by name) and applies the --key pattern anchored (re.match), as DocSync.ByKey(str) does: the CLI defines
    no strategy of its own and does not widen the key selection to a substring search."""
    f = ctx.prog.funcs.get(MAIN + ":main_sync")
    k = MAIN + ":main_sync|strategy-origin"
    if f is None:
        return [ctx.inc(R, None, None, "main_sync not found", construct=k)]
    out = []
    syncs = [c for c in body_nodes(f) if isinstance(c, ast.Call) and isinstance(c.func, ast.Attribute) and c.func.attr == "sync" and "strategy" in effective_keywords(ctx, f, c)]
    if not syncs:
        return [ctx.inc(R, f, f.node, "no .sync(strategy=...) call in main_sync", construct=k)]
    v = effective_keywords(ctx, f, syncs[0])["strategy"]
    bad = None
    if isinstance(v, ast.Name):
        for a in body_nodes(f):
            if isinstance(a, ast.Assign) and any(isinstance(t, ast.Name) and t.id == v.id for t in a.targets):
                val = a.value
                # looked up in FileSync, derived from its own previous value (instantiating the looked-up class), or produced by a helper of the module
                ok = (isinstance(val, ast.Constant) and val.value is None) or "FileSync" in canon(val) or (isinstance(val, ast.Call) and isinstance(val.func, ast.Name) and val.func.id.startswith("_")) \
                    or any(x.id == v.id or x.id.startswith(v.id + "_h") for x in ast.walk(val) if isinstance(x, ast.Name)) \
                    or any(isinstance(x, ast.Name) and x.id != v.id and any(isinstance(b, ast.Assign) and any(isinstance(t, ast.Name) and t.id == x.id for t in b.targets) and "FileSync" in canon(b.value)
                                                                          for b in body_nodes(f)) for x in ast.walk(val))
                if isinstance(val, ast.Lambda) or not ok:
                    bad = bad or a
            elif isinstance(a, (ast.FunctionDef, ast.AsyncFunctionDef)) and a.name == v.id:
                bad = bad or a
    if bad is not None:
        out.append(ctx.viol(R, f, bad, f"main_sync builds a file strategy of its own (`{canon(bad)[:60]}`): the command line then decides conflicts differently from the FileSync strategy of the "
                            "same name (e.g. overwrites a destination file that is not older)", construct=k))
    else:
        out.append(ctx.ok(R, f, syncs[0], "the file strategy is looked up in FileSync", construct=k))
    k2 = MAIN + ":main_sync|key-anchored"
    searches = [c for c in ast.walk(f.node) if isinstance(c, ast.Call) and ((dotted(c.func) or "") in ("re.search", "re.findall", "re.finditer") or (isinstance(c.func, ast.Attribute) and c.func.attr in ("search", "findall", "finditer")))]
    if searches:
        out.append(ctx.viol(R, f, searches[0], f"the --key pattern is applied with `{canon(searches[0].func)}`: an unanchored pattern selects every key that merely contains it ('a' selects "
                            "'nested.a' and 'data'), so keys the user did not select are overwritten - unlike DocSync.ByKey('a')", construct=k2))
    else:
        out.append(ctx.ok(R, f, f.node, "the --key pattern is matched from the start of the key", construct=k2))
    return out
