"""sigstat.restore - recognising functions of the reference tree behind a refactoring.

The rules are anchored at functions that exist on the reference tree. Four kinds of maintenance commit make such an anchor
disappear without changing behaviour:

    rename            def _job_dirs(self)            ->  def _iter_job_ids(self)          (locals / parameters may be renamed too)
    move              import_export._check(...)      ->  _utility._check(...)
    method->function  Project._check(self)           ->  _check(config)   called as   _check(self.config)
    inline            self._update_in_memory_cache() ->  its statements written out in update_cache()

The inventory (`baseline_functions.json`, "sources") keeps the normalised source of every reference function. This module
*unifies* the current code with that source:

* function mode - a reference function K is gone and exactly one function N that is not on the reference tree has a body that
  is K's body up to a consistent renaming of parameters / locals, the function's own name in recursive calls, and (method to
  function) `self.attr` spelled as a parameter. Then N *is* K: the definition is put back under K's name, in K's class /
  module, with K's names and N's source positions, and every call of N becomes the corresponding call of K (arguments are
  mapped through the parameter correspondence; `N(x.attr, a)` becomes `x.K(a)`).
* site mode - K is gone and no such N exists, but a run of statements in some function is K's body with K's parameters read
  as arbitrary expressions and K's locals consistently renamed: the run becomes the call `recv.K(args)` again and K is
  re-created.

Nothing here decides a property and nothing is taken from the reference tree that the current tree does not contain: a
definition is only restored after the *current* code has been shown to be the reference body modulo names, so an edit inside a
renamed / moved / inlined body makes the unification fail and the function simply stays missing (the rules then report a
missing anchor, exit 2, never a violation).
"""
from __future__ import annotations

import ast
import copy
import json
from typing import Dict, List, Optional, Set, Tuple

from .inline import INVENTORY, Def, enumerate_defs


_SOURCES: Optional[Dict[str, dict]] = None


def load_sources() -> Dict[str, dict]:
    global _SOURCES
    if _SOURCES is None:
        try:
            with open(INVENTORY) as fh:
                _SOURCES = json.load(fh).get("sources", {})
        except (OSError, ValueError):
            _SOURCES = {}
    return _SOURCES


def _strip_doc(body: List[ast.stmt]) -> List[ast.stmt]:
    if body and isinstance(body[0], ast.Expr) and isinstance(body[0].value, ast.Constant) and isinstance(body[0].value.value, str):
        return body[1:]
    return body


def _params(fn) -> List[str]:
    a = fn.args
    return [p.arg for p in a.posonlyargs + a.args + a.kwonlyargs]


def _stored(fn_or_stmts) -> Set[str]:
    """names bound inside (assignment, loop / with / except targets, comprehension variables, walrus, nested defs, imports)"""
    out: Set[str] = set()
    nodes = fn_or_stmts if isinstance(fn_or_stmts, list) else [fn_or_stmts]
    for top in nodes:
        for n in ast.walk(top):
            if isinstance(n, ast.Name) and isinstance(n.ctx, (ast.Store, ast.Del)):
                out.add(n.id)
            elif isinstance(n, ast.ExceptHandler) and n.name:
                out.add(n.name)
            elif isinstance(n, (ast.FunctionDef, ast.AsyncFunctionDef, ast.ClassDef)) and n is not top:
                out.add(n.name)
            elif isinstance(n, ast.arg) and not (isinstance(top, (ast.FunctionDef, ast.AsyncFunctionDef)) and n in _own_args(top)):
                out.add(n.arg)
            elif isinstance(n, (ast.Import, ast.ImportFrom)):
                for a in n.names:
                    out.add((a.asname or a.name).split(".")[0])
    return out


def _own_args(fn) -> List[ast.arg]:
    a = fn.args
    return a.posonlyargs + a.args + a.kwonlyargs + ([a.vararg] if a.vararg else []) + ([a.kwarg] if a.kwarg else [])


class Unifier:
    """structural unification of reference code (k side) with current code (n side)"""

    def __init__(self, kfn, k_is_method: bool, mode: str, nname: Optional[str] = None, nparams: Optional[List[str]] = None,
                 nlocals: Optional[Set[str]] = None, n_is_method: bool = False):
        self.mode = mode
        self.kname = kfn.name
        self.kparams = _params(kfn)
        self.kself = self.kparams[0] if (k_is_method and self.kparams and not any(ast.unparse(d) in ("staticmethod",) for d in kfn.decorator_list)) else None
        self.klocals = _stored(kfn) - set()
        self.kstored_params = {p for p in self.kparams if p in _stored(_strip_doc(kfn.body))}
        self.nname = nname
        self.nparams = set(nparams or [])
        self.nlocals = set(nlocals or set())
        self.n_is_method = n_is_method
        self.map: Dict[str, str] = {}
        self.rev: Dict[str, str] = {}
        self.binds: Dict[str, ast.AST] = {}
        self.attr_map: Dict[str, str] = {}
        self.attr_rev: Dict[str, str] = {}
        self.pairs: List[Tuple[ast.AST, ast.AST]] = []
        # reference parameter -> attribute chain over a current parameter ("parameter object": copy -> proxy.copy)
        self.param_expr: Dict[str, ast.expr] = {}
        self.allow_param_expr = False
        # recursive calls are compared through the parameter correspondence once it is complete
        self.rec_calls: List[Tuple[ast.Call, ast.Call]] = []
        self.kfn = kfn
        self.nfn = None
        # hypotheses "reference function g is the current function g'" made while comparing (mutually recursive renamed functions): confirmed by the driver
        self.vanished: Set[str] = set()
        self.fresh: Set[str] = set()
        self.assume: Dict[str, str] = {}

    # -- names ------------------------------------------------------------------------------------
    def _bij(self, k: str, n: str) -> bool:
        if self.map.get(k, n) != n or self.rev.get(n, k) != k:
            return False
        self.map[k] = n
        self.rev[n] = k
        return True

    def _assume(self, g: str, g2: str) -> bool:
        if self.assume.get(g, g2) != g2:
            return False
        self.assume[g] = g2
        return True

    def _local_name(self, k: str, n: str) -> bool:
        """a name-valued field (handler name, nested def name, arg) on both sides"""
        if k in self.klocals or k in self.kparams:
            return self._bij(k, n)
        return k == n

    def u_name(self, k: ast.Name, n: ast.AST) -> bool:
        kid = k.id
        if self.mode == "site" and kid in self.kparams and kid not in self.kstored_params:
            if not isinstance(n, ast.expr):
                return False
            prev = self.binds.get(kid)
            if prev is None:
                if isinstance(k.ctx, (ast.Store, ast.Del)):
                    return False
                self.binds[kid] = n
                return True
            return ast.dump(prev) == ast.dump(n)
        if self.mode == "func" and self.allow_param_expr and kid in self.kparams and kid not in self.kstored_params and kid not in self.map \
                and isinstance(n, ast.Attribute) and isinstance(k.ctx, ast.Load):
            root = n
            while isinstance(root, ast.Attribute):
                root = root.value
            if isinstance(root, ast.Name) and root.id in self.nparams and self.rev.get(root.id) is None:
                prev = self.param_expr.get(kid)
                if prev is None:
                    self.param_expr[kid] = n
                    return True
                return ast.dump(prev) == ast.dump(n)
            return False
        if not isinstance(n, ast.Name):
            return False
        if kid in self.param_expr:
            return False
        if kid in self.klocals or kid in self.kparams:
            if self.mode == "func" and n.id not in self.nlocals and n.id not in self.nparams:
                return False
            if n.id in self.attr_rev:
                return False
            return self._bij(kid, n.id)
        if kid == self.kname and self.kself is None and self.mode == "func":
            return n.id == self.nname
        # a global / builtin: the very same name, and not shadowed on the other side
        if n.id != kid:
            if kid in self.vanished and n.id in self.fresh and n.id not in self.nlocals and n.id not in self.nparams and n.id not in self.rev:
                return self._assume(kid, n.id)
            return False
        if n.id in self.rev:
            return False
        if self.mode == "func" and (n.id in self.nparams or n.id in self.nlocals):
            return False
        if self.mode == "site" and n.id in self.nlocals:
            return False
        return True

    # -- nodes ------------------------------------------------------------------------------------
    def u(self, k, n) -> bool:
        if isinstance(k, ast.Name):
            ok = self.u_name(k, n)
            if ok:
                self.pairs.append((k, n))
            return ok
        if isinstance(k, ast.Attribute) and isinstance(k.value, ast.Name) and self.kself is not None and k.value.id == self.kself and self.mode == "func":
            # recursion through the receiver: self.K -> self.N / N
            if k.attr == self.kname:
                if isinstance(n, ast.Name) and n.id == self.nname and not self.n_is_method:
                    self.pairs.append((k, n))
                    return True
                if isinstance(n, ast.Attribute) and n.attr == self.nname and self.n_is_method and self.u(k.value, n.value):
                    self.pairs.append((k, n))
                    return True
                return False
            # method -> function: `self.attr` handed in as a parameter
            if not self.n_is_method and isinstance(n, ast.Name) and n.id in self.nparams and n.id not in self.rev and isinstance(k.ctx, ast.Load):
                if self.attr_map.get(k.attr, n.id) != n.id or self.attr_rev.get(n.id, k.attr) != k.attr:
                    return False
                self.attr_map[k.attr] = n.id
                self.attr_rev[n.id] = k.attr
                self.pairs.append((k, n))
                return True
        if self.mode == "func" and self.nfn is not None and isinstance(k, ast.Call) and isinstance(n, ast.Call) and self._is_self_call(k, self.kname, self.kself is not None) \
                and self._is_self_call(n, self.nname, self.n_is_method):
            if isinstance(k.func, ast.Attribute) and isinstance(n.func, ast.Attribute) and not self.u(k.func.value, n.func.value):
                return False
            self.rec_calls.append((k, n))
            self.pairs.append((k, n))
            return True
        if type(k) is not type(n):
            return False
        if isinstance(k, ast.Constant):
            if type(k.value) is not type(n.value) or k.value != n.value:
                return False
            self.pairs.append((k, n))
            return True
        if isinstance(k, ast.AST):
            for f in k._fields:
                if f in ("ctx", "type_comment", "kind"):
                    continue
                a, b = getattr(k, f, None), getattr(n, f, None)
                if isinstance(k, (ast.FunctionDef, ast.AsyncFunctionDef, ast.ClassDef)) and f == "body":
                    a, b = _strip_doc(a), _strip_doc(b)
                if isinstance(a, list) or isinstance(b, list):
                    if not isinstance(a, list) or not isinstance(b, list) or len(a) != len(b):
                        return False
                    for x, y in zip(a, b):
                        if isinstance(x, ast.AST) or isinstance(y, ast.AST):
                            if not self.u(x, y):
                                return False
                        elif isinstance(k, (ast.Global, ast.Nonlocal)):
                            if not self._local_name(x, y):
                                return False
                        elif x != y:
                            return False
                elif isinstance(a, ast.AST) or isinstance(b, ast.AST):
                    if not (isinstance(a, ast.AST) and isinstance(b, ast.AST)) or not self.u(a, b):
                        return False
                elif isinstance(a, str) and isinstance(b, str) and ((isinstance(k, ast.ExceptHandler) and f == "name")
                                                                       or (isinstance(k, (ast.FunctionDef, ast.AsyncFunctionDef, ast.ClassDef)) and f == "name")
                                                                       or (isinstance(k, ast.arg) and f == "arg")):
                    if not self._local_name(a, b):
                        return False
                elif isinstance(k, ast.alias) and f == "name" and isinstance(a, str) and isinstance(b, str):
                    # `from .mod import g` inside the function: binds the local g; g may be a reference function under its new name
                    if a != b and not (a in self.vanished and b in self.fresh and self._assume(a, b)):
                        return False
                    if k.asname is None and n.asname is None and not self._local_name(a.split(".")[0], b.split(".")[0]):
                        return False
                elif isinstance(k, ast.Attribute) and f == "attr" and a != b:
                    if not (a in self.vanished and b in self.fresh and self._assume(a, b)):
                        return False
                elif isinstance(k, ast.keyword) and f == "arg":
                    # keyword of a recursive call may carry a renamed parameter
                    if a != b and not (a in self.kparams and self.map.get(a) == b):
                        return False
                elif a != b:
                    return False
            self.pairs.append((k, n))
            return True
        return k == n

    @staticmethod
    def _is_self_call(c: ast.Call, name: str, is_method: bool) -> bool:
        if is_method:
            return isinstance(c.func, ast.Attribute) and c.func.attr == name
        return isinstance(c.func, ast.Name) and c.func.id == name

    def u_block(self, ks: List[ast.stmt], ns: List[ast.stmt]) -> bool:
        if len(ks) != len(ns):
            return False
        if not all(self.u(a, b) for a, b in zip(ks, ns)):
            return False
        return self.check_rec_calls()

    def check_rec_calls(self) -> bool:
        """recursive calls: actual by actual through the parameter correspondence"""
        pending, self.rec_calls = self.rec_calls, []
        for kc, nc in pending:
            kb = _bind_call(self.kfn, kc, skip_first=self.kself is not None)
            nb = _bind_call(self.nfn, nc, skip_first=self.n_is_method)
            if kb is None or nb is None:
                return False
            kd, nd = _defaults(self.kfn), _defaults(self.nfn)
            kps = self.kparams[1:] if self.kself is not None else self.kparams
            used_n = set()
            for kp in kps:
                ke = kb.get(kp, kd.get(kp))
                if kp in self.param_expr:
                    ne = _subst_root(self.param_expr[kp], nb)
                    if ne is None or ke is None or not self.u(ke, ne):
                        return False
                    continue
                np_ = self.map.get(kp)
                if np_ is None:
                    continue        # not used by the body
                used_n.add(np_)
                ne = nb.get(np_, nd.get(np_))
                if ke is None and ne is None:
                    continue
                if ke is None or ne is None or not self.u(ke, ne):
                    return False
            for attr, np_ in self.attr_map.items():
                used_n.add(np_)
        return not self.rec_calls or self.check_rec_calls()

    def copy_positions(self):
        for k, n in self.pairs:
            if hasattr(n, "lineno") and "lineno" in getattr(k, "_attributes", ()):
                ast.copy_location(k, n)


def _shape(stmts: List[ast.stmt]) -> Tuple[str, ...]:
    return tuple(type(s).__name__ for s in stmts)


def _parse_src(entry) -> Optional[ast.FunctionDef]:
    try:
        fn = ast.parse(entry["src"]).body[0]
    except (SyntaxError, IndexError, KeyError):
        return None
    return fn if isinstance(fn, (ast.FunctionDef, ast.AsyncFunctionDef)) else None


def _home(pkg, qual, entry):
    """(module inliner, container list) where the reference function lived, or None if its module / class is gone"""
    mod = qual.split(":", 1)[0]
    m = pkg.get(mod)
    if m is None:
        return None
    if entry.get("class"):
        cls = [c for c in m.tree.body if isinstance(c, ast.ClassDef) and c.name == entry["class"]]
        if not cls:
            return None
        return m, cls[0].body
    return m, m.tree.body


def _refresh(pkg):
    for m in pkg.values():
        m.defs = enumerate_defs(m.modname, m.tree)
        m.new = [d for d in m.defs if d.qual not in m.known]
        m.module_bound = set(m.imports)
        for st in m.tree.body:
            if isinstance(st, (ast.FunctionDef, ast.AsyncFunctionDef, ast.ClassDef)):
                m.module_bound.add(st.name)
            elif isinstance(st, ast.Assign):
                for t in st.targets:
                    for x in ast.walk(t):
                        if isinstance(x, ast.Name):
                            m.module_bound.add(x.id)


def _add_import(m, name: str, from_mod: str):
    if name in m.module_bound and m.imports.get(name, (None, None))[0] != from_mod:
        # bound to something else already (e.g. the stale import of the moved function): replace below
        pass
    node = ast.ImportFrom(module=from_mod, names=[ast.alias(name=name, asname=None)], level=0)
    node.lineno = node.end_lineno = 1
    node.col_offset = node.end_col_offset = 0
    pos = 1 if (m.tree.body and isinstance(m.tree.body[0], ast.Expr) and isinstance(getattr(m.tree.body[0], "value", None), ast.Constant)
                and isinstance(m.tree.body[0].value.value, str)) else 0
    m.tree.body.insert(pos, node)
    m.imports[name] = (from_mod, name)
    m.module_bound.add(name)


def _drop_import(m, name: str):
    """remove `name` from every from-import of the module"""
    for n in ast.walk(m.tree):
        for fld in ("body", "orelse", "finalbody"):
            blk = getattr(n, fld, None)
            if not isinstance(blk, list):
                continue
            for i, st in enumerate(list(blk)):
                if isinstance(st, ast.ImportFrom) and any((a.asname or a.name) == name for a in st.names):
                    st.names = [a for a in st.names if (a.asname or a.name) != name]
                    if not st.names:
                        blk[blk.index(st)] = ast.copy_location(ast.Pass(), st)
    m.imports.pop(name, None)


# =====================================================================================================================
# function mode: renamed / moved / method <-> function
# =====================================================================================================================

def _bind_call(nfn, call: ast.Call, skip_first: bool) -> Optional[Dict[str, ast.expr]]:
    a = nfn.args
    if a.vararg or a.kwarg or any(isinstance(x, ast.Starred) for x in call.args) or any(k.arg is None for k in call.keywords):
        return None
    pos = [p.arg for p in a.posonlyargs + a.args]
    if skip_first:
        pos = pos[1:]
    if len(call.args) > len(pos):
        return None
    out: Dict[str, ast.expr] = {}
    for p, v in zip(pos, call.args):
        out[p] = v
    allowed = set(pos) | {p.arg for p in a.kwonlyargs}
    for k in call.keywords:
        if k.arg not in allowed or k.arg in out:
            return None
        out[k.arg] = k.value
    return out


def _subst_root(expr: ast.expr, bound: Dict[str, ast.expr]) -> Optional[ast.expr]:
    """attribute chain over a parameter with the parameter replaced by its actual"""
    e = copy.deepcopy(expr)
    cur, parent = e, None
    while isinstance(cur, ast.Attribute):
        parent, cur = cur, cur.value
    if not isinstance(cur, ast.Name) or cur.id not in bound:
        return None
    if parent is None:
        return copy.deepcopy(bound[cur.id])
    parent.value = copy.deepcopy(bound[cur.id])
    return e


def _defaults(fn) -> Dict[str, Optional[ast.expr]]:
    a = fn.args
    pos = a.posonlyargs + a.args
    d: Dict[str, Optional[ast.expr]] = {}
    for p, dv in zip(pos, [None] * (len(pos) - len(a.defaults)) + list(a.defaults)):
        d[p.arg] = dv
    for p, dv in zip(a.kwonlyargs, a.kw_defaults):
        d[p.arg] = dv
    return d


class _Plan:
    """what it takes to turn the current function N back into the reference function K"""

    def __init__(self, qual, entry, kfn, nd: Def, nmod, uni: Unifier):
        self.qual, self.entry, self.kfn, self.nd, self.nmod, self.uni = qual, entry, kfn, nd, nmod, uni
        self.k_is_method = entry.get("class") is not None
        self.n_is_method = nd.kind == "method"
        self.kname, self.nname = kfn.name, nd.node.name
        self.keep_defaults = False      # near-match restoration keeps the current function's own defaults

    def k_call(self, bound: Dict[str, ast.expr], recv_hint: Optional[ast.expr], at, partial: bool = False) -> Optional[ast.Call]:
        """the call of K equivalent to a call of N whose actuals are `bound` (N parameter -> expression); partial: the actuals of a functools.partial
        (what is missing is supplied later)"""
        u = self.uni
        kdef, ndef = _defaults(self.kfn), _defaults(self.nd.node)
        kparams = u.kparams
        recv = None
        if self.k_is_method and u.kself is not None:
            kparams = kparams[1:]
            if self.n_is_method:
                recv = recv_hint
            elif u.kself in u.map:
                recv = bound.get(u.map[u.kself])
            else:
                for attr, p in u.attr_map.items():
                    e = bound.get(p)
                    if not (isinstance(e, ast.Attribute) and e.attr == attr):
                        return None
                    if recv is not None and ast.dump(recv) != ast.dump(e.value):
                        return None
                    recv = e.value
            if recv is None:
                return None
        args: List[ast.expr] = []
        kws: List[ast.keyword] = []
        gap = False
        kwonly = {p.arg for p in self.kfn.args.kwonlyargs}
        for kp in kparams:
            np_ = u.map.get(kp)
            e = bound.get(np_) if np_ is not None else None
            if kp in u.param_expr:
                e = _subst_root(u.param_expr[kp], bound)
                if e is None:
                    return None
            if e is None and np_ is None and kp in bound and kp not in u.rev:
                e = bound.get(kp)       # parameter unused in the body, kept under its name
            if e is None:
                dn = ndef.get(np_) if np_ is not None else None
                dk = kdef.get(kp)
                if self.keep_defaults:
                    gap = True
                    continue
                if dn is not None and (dk is None or ast.dump(dn) != ast.dump(dk)):
                    e = copy.deepcopy(dn)
                elif dk is None and np_ is not None and not partial:
                    return None
                else:
                    gap = True
                    continue
            if gap or kp in kwonly:
                kws.append(ast.keyword(arg=kp, value=e))
            else:
                args.append(e)
        fn = ast.Attribute(value=copy.deepcopy(recv), attr=self.kname, ctx=ast.Load()) if recv is not None else ast.Name(id=self.kname, ctx=ast.Load())
        c = ast.Call(func=fn, args=args, keywords=kws)
        for x in ast.walk(c):
            if not hasattr(x, "lineno"):
                ast.copy_location(x, at)
        return ast.copy_location(c, at)


def _same_signature(plan: _Plan) -> bool:
    """pure rename: same kind, parameters correspond one to one in order"""
    if plan.k_is_method != plan.n_is_method or plan.uni.attr_map:
        return False
    kp, np_ = plan.uni.kparams, _params(plan.nd.node)
    if len(kp) != len(np_):
        return False
    ka, na = plan.kfn.args, plan.nd.node.args
    if (len(ka.posonlyargs), len(ka.args), len(ka.kwonlyargs)) != (len(na.posonlyargs), len(na.args), len(na.kwonlyargs)):
        return False
    for a, b in zip(kp, np_):
        mapped = plan.uni.map.get(a)
        if mapped is None:
            if b in plan.uni.rev:
                return False
        elif mapped != b:
            return False
    kd, nd = _defaults(plan.kfn), _defaults(plan.nd.node)
    for a, b in zip(kp, np_):
        x, y = kd.get(a), nd.get(b)
        if (x is None) != (y is None) or (x is not None and ast.dump(x) != ast.dump(y)):
            return False
    return True


def _references(pkg, plan: _Plan):
    """every reference to N in the package: (module, parent node, field, index or None, node, kind) with kind 'call' | 'value'"""
    out = []
    nname = plan.nname
    for m in pkg.values():
        sees_function = False
        if not plan.n_is_method:
            imp = m.imports.get(nname)
            sees_function = (m is plan.nmod) or (imp is not None and imp == (plan.nmod.modname, nname))
        for parent in ast.walk(m.tree):
            if parent is plan.nd.node:
                pass
            for fld, val in ast.iter_fields(parent):
                vals = val if isinstance(val, list) else [val]
                for i, v in enumerate(vals):
                    hit = False
                    if plan.n_is_method and isinstance(v, ast.Attribute) and v.attr == nname:
                        hit = True
                    elif not plan.n_is_method and sees_function and isinstance(v, ast.Name) and v.id == nname and isinstance(v.ctx, ast.Load):
                        hit = True
                    if not hit:
                        continue
                    kind = "call" if (isinstance(parent, ast.Call) and fld == "func") else "value"
                    if kind == "value" and isinstance(parent, ast.Call) and fld == "args" and i == 0 and _is_partial(parent, m):
                        kind = "partial"
                    out.append((m, parent, fld, i if isinstance(val, list) else None, v, kind))
    return out


def _is_partial(call: ast.Call, m) -> bool:
    f = call.func
    if isinstance(f, ast.Name) and f.id == "partial":
        return m.imports.get("partial") == ("functools", "partial")
    return isinstance(f, ast.Attribute) and f.attr == "partial" and isinstance(f.value, ast.Name) and f.value.id == "functools"


def _rewrite_ref(plan, parent, v, kind, pure):
    """-> ('rename', None) | ('call', new Call) | ('partial', new Call standing for the actuals) | None (cannot be re-written)"""
    if kind == "value":
        return ("rename", None) if pure else None
    if pure:
        return ("rename", None)
    recv_hint = v.value if isinstance(v, ast.Attribute) else None
    if kind == "partial":
        fake = ast.Call(func=v, args=list(parent.args[1:]), keywords=list(parent.keywords))
        bound = _bind_call(plan.nd.node, fake, skip_first=plan.n_is_method)
        if bound is None:
            return None
        kc = plan.k_call(bound, recv_hint, parent, partial=True)
        return None if kc is None else ("partial", kc)
    bound = _bind_call(plan.nd.node, parent, skip_first=plan.n_is_method)
    if bound is None:
        return None
    if plan.n_is_method and not plan.k_is_method and recv_hint is not None and _params(plan.nd.node):
        bound[_params(plan.nd.node)[0]] = recv_hint      # method turned back into a function: the receiver is the first argument again
    kc = plan.k_call(bound, recv_hint, parent)
    return None if kc is None else ("call", kc)


def _apply_ref(plan, parent, v, how, kc, pure):
    if how == "rename":
        if isinstance(v, ast.Attribute):
            v.attr = plan.kname
        else:
            v.id = plan.kname
        if isinstance(parent, ast.Call) and parent.func is v and pure:
            for kw in parent.keywords:
                if kw.arg is not None and kw.arg in plan.uni.rev:
                    kw.arg = plan.uni.rev[kw.arg]
    elif how == "call":
        parent.func, parent.args, parent.keywords = kc.func, kc.args, kc.keywords
    elif how == "partial":
        parent.args = [kc.func] + list(kc.args)
        parent.keywords = kc.keywords


def _fix_imports(pkg, plan, hm):
    if not plan.n_is_method:
        for m in pkg.values():
            imp = m.imports.get(plan.nname)
            if imp is not None and imp == (plan.nmod.modname, plan.nname):
                _drop_import(m, plan.nname)
    if not plan.k_is_method:
        for m in pkg.values():
            if m is hm:
                imp = m.imports.get(plan.kname)
                if imp is not None:
                    _drop_import(m, plan.kname)
                continue
            uses = any(isinstance(x, ast.Name) and x.id == plan.kname and isinstance(x.ctx, ast.Load) for x in ast.walk(m.tree))
            if uses and m.imports.get(plan.kname) != (hm.modname, plan.kname):
                _drop_import(m, plan.kname)
                _add_import(m, plan.kname, hm.modname)


def _inside(node, root) -> bool:
    return any(x is node for x in ast.walk(root))


def restore_functions(pkg, sources: Dict[str, dict]) -> None:
    """function mode (see module docstring); repeated until nothing more is recognised (a renamed function may call another one)"""
    for _round in range(4):
        if not _restore_functions_once(pkg, sources):
            break


def _restore_functions_once(pkg, sources) -> bool:
    have = {d.qual for m in pkg.values() for d in m.defs}
    known_names = {q.rsplit(":", 1)[1].rsplit(".", 1)[-1] for q in sources}
    new_defs = [(m, d) for m in pkg.values() for d in m.new if d.kind in ("module", "method")]
    vanished = {q.rsplit(":", 1)[1].rsplit(".", 1)[-1] for q in sources if q not in have and ".<locals>." not in q}
    fresh = {d.node.name for _m, d in new_defs}
    # phase A: for every vanished reference function the unique current function whose body unifies with it (possibly under hypotheses about other
    # vanished functions it calls)
    cands: Dict[str, _Plan] = {}
    for qual, entry in sources.items():
        if qual in have or ".<locals>." in qual:
            continue
        home = _home(pkg, qual, entry)
        kfn = _parse_src(entry)
        if home is None or kfn is None:
            continue
        hm, container = home
        if any(isinstance(n, (ast.FunctionDef, ast.AsyncFunctionDef)) and n.name == kfn.name for n in container):
            continue
        kbody = _strip_doc(kfn.body)
        k_is_method = entry.get("class") is not None
        plans = []
        for m, d in new_defs:
            if d.node not in d.container:
                continue
            nbody = _strip_doc(d.node.body)
            if _shape(kbody) != _shape(nbody) or type(d.node) is not type(kfn):
                continue
            if [ast.unparse(x) for x in d.node.decorator_list] != [ast.unparse(x) for x in kfn.decorator_list]:
                continue
            if d.node.args.vararg or d.node.args.kwarg or kfn.args.vararg or kfn.args.kwarg:
                if ast.dump(d.node.args) != ast.dump(kfn.args):
                    continue
            u = Unifier(kfn, k_is_method, "func", nname=d.node.name, nparams=_params(d.node), nlocals=_stored(d.node), n_is_method=d.kind == "method")
            u.nfn = d.node
            u.vanished, u.fresh = vanished - {kfn.name}, fresh - {d.node.name}
            if not u.u_block(kbody, nbody):
                continue
            # every reference-side parameter that the body uses must be a parameter on the current side as well
            if any(u.map.get(kp) is not None and u.map[kp] not in u.nparams for kp in u.kparams):
                continue
            if any(u.rev.get(np_) is not None and u.rev[np_] not in u.kparams for np_ in u.nparams):
                continue
            plans.append(_Plan(qual, entry, kfn, d, m, u))
        if len(plans) != 1:
            continue
        plan = plans[0]
        if plan.nname != plan.kname and plan.nname in known_names:
            continue
        plan.home = (hm, container)
        cands[qual] = plan
    # phase B: hypotheses must be confirmed by other candidates (greatest fixed point)
    while True:
        pairs = {(p.kname, p.nname) for p in cands.values()}
        drop = [q for q, p in cands.items() if any((g, g2) not in pairs for g, g2 in p.uni.assume.items())]
        if not drop:
            break
        for q in drop:
            del cands[q]
    # phase C: apply
    changed = False
    for qual, plan in cands.items():
        hm, container = plan.home
        entry, kfn = plan.entry, plan.kfn
        refs = _references(pkg, plan)
        pure = _same_signature(plan)
        # dry run: every reference must be rewritable
        rewrites = []
        ok = True
        for (m, parent, fld, idx, v, kind) in refs:
            if _inside(v, plan.nd.node):
                continue        # recursion: the restored body already spells it with K's name
            rw = _rewrite_ref(plan, parent, v, kind, pure)
            if rw is None:
                ok = False
                break
            rewrites.append((parent, v, rw[0], rw[1]))
        if not ok or plan.nd.node not in plan.nd.container:
            continue
        # 1. the definition: K's text with N's positions
        plan.uni.copy_positions()
        new_def = kfn
        ast.copy_location(new_def, plan.nd.node)
        for x in ast.walk(new_def):
            if "lineno" in getattr(x, "_attributes", ()) and not hasattr(x, "lineno"):
                ast.copy_location(x, plan.nd.node)
        ast.fix_missing_locations(new_def)
        plan.nd.container.remove(plan.nd.node)
        container.append(new_def)
        # 2. the references
        for (parent, v, how, kc) in rewrites:
            _apply_ref(plan, parent, v, how, kc, pure)
        # 3. imports (module-level functions only)
        _fix_imports(pkg, plan, hm)
        what = []
        if plan.nname != plan.kname:
            what.append("renamed")
        if plan.nmod is not hm:
            what.append(f"moved to {plan.nmod.modname}")
        if plan.k_is_method != plan.n_is_method:
            what.append("method turned into a function" if plan.k_is_method else "function turned into a method")
        if not what:
            what.append("re-spelled")
        hm.log.append(f"{plan.nd.qual} is the reference function {qual} ({', '.join(what)}; bodies unify): restored")
        changed = True
        _refresh(pkg)
    return changed


# =====================================================================================================================
# site mode: a reference function written out at its call sites
# =====================================================================================================================

def _blocks(fn):
    for n in ast.walk(fn):
        if isinstance(n, (ast.FunctionDef, ast.AsyncFunctionDef, ast.ClassDef)) and n is not fn:
            continue
        for fld in ("body", "orelse", "finalbody"):
            blk = getattr(n, fld, None)
            if isinstance(blk, list) and blk and isinstance(blk[0], ast.stmt):
                yield blk
        for h in getattr(n, "handlers", []) or []:
            yield h.body


def _loads_after(fn, line: int, names: Set[str], skip: List[ast.AST]) -> Set[str]:
    """names whose next occurrence after `line` (in source order) is a read: the value bound inside the run would still be looked at"""
    skipped = {id(x) for s in skip for x in ast.walk(s)}
    first: Dict[str, Tuple[Tuple[int, int], bool]] = {}
    for x in ast.walk(fn):
        if isinstance(x, ast.Name) and x.id in names and id(x) not in skipped and getattr(x, "lineno", 0) > line:
            pos = (x.lineno, x.col_offset)
            is_load = isinstance(x.ctx, ast.Load)
            # in `a = f(a)` the read comes first although the target is left of it
            if x.id not in first or (pos[0] < first[x.id][0][0]) or (pos[0] == first[x.id][0][0] and is_load and not first[x.id][1]) \
                    or (pos[0] == first[x.id][0][0] and is_load == first[x.id][1] and pos < first[x.id][0]):
                first[x.id] = (pos, is_load)
    return {k for k, (_p, is_load) in first.items() if is_load}


def _strip_tail_returns(stmts: List[ast.stmt]) -> Optional[List[ast.stmt]]:
    """the body with every `return <side-effect free value>` in tail position removed (what is left when the function is written out at a call
    site that ignores the result); None if a return is not in tail position or its value is not plainly pure"""
    def pure(e):
        return e is None or all(isinstance(x, (ast.Name, ast.Tuple, ast.List, ast.Constant, ast.Load, ast.Attribute)) for x in ast.walk(e))

    def tail(block: List[ast.stmt]) -> Optional[List[ast.stmt]]:
        out = list(block)
        if not out:
            return out
        last = out[-1]
        if isinstance(last, ast.Return):
            if not pure(last.value):
                return None
            out = out[:-1]
        elif isinstance(last, ast.If):
            b, o = tail(last.body), tail(last.orelse)
            if b is None or o is None:
                return None
            new = copy.copy(last)
            new.body = b or [ast.copy_location(ast.Pass(), last)]
            new.orelse = o
            out[-1] = new
        elif isinstance(last, (ast.With,)):
            b = tail(last.body)
            if b is None:
                return None
            new = copy.copy(last)
            new.body = b or [ast.copy_location(ast.Pass(), last)]
            out[-1] = new
        return out
    res = tail(stmts)
    if res is None:
        return None
    if any(isinstance(x, ast.Return) for s in res for x in ast.walk(s)):
        return None
    return res


def restore_inlined(pkg, sources: Dict[str, dict]) -> None:
    have = {d.qual for m in pkg.values() for d in m.defs}
    changed = False
    for qual, entry in sources.items():
        if qual in have or ".<locals>." in qual:
            continue
        home = _home(pkg, qual, entry)
        kfn = _parse_src(entry)
        if home is None or kfn is None or isinstance(kfn, ast.AsyncFunctionDef):
            continue
        hm, container = home
        if any(isinstance(n, (ast.FunctionDef, ast.AsyncFunctionDef)) and n.name == kfn.name for n in container):
            continue
        if kfn.decorator_list or kfn.args.vararg or kfn.args.kwarg:
            continue
        kbody = _strip_doc(kfn.body)
        ret = None
        core = kbody
        if kbody and isinstance(kbody[-1], ast.Return):
            ret, core = kbody[-1].value, kbody[:-1]
        if not core:
            continue
        if any(isinstance(x, ast.Return) for s in core for x in ast.walk(s)):
            # returns further up: only the form "written out where the result is ignored" is recognised
            core = _strip_tail_returns(kbody)
            ret = None
            if not core:
                continue
        if any(isinstance(x, (ast.Return, ast.Yield, ast.YieldFrom, ast.Await, ast.Global, ast.Nonlocal)) for s in core for x in ast.walk(s)):
            continue
        k_is_method = entry.get("class") is not None
        kdefaults = _defaults(kfn)
        count = 0
        first_at = None
        mods = list(pkg.values()) if k_is_method else [hm]
        for m in mods:
            for d in list(m.defs):
                if d.kind == "nested" and False:
                    continue
                host = d.node
                host_locals = _stored(host) | set(_params(host))
                for blk in _blocks(host):
                    i = 0
                    while i + len(core) <= len(blk):
                        run = blk[i:i + len(core)]
                        if _shape(run) != _shape(core):
                            i += 1
                            continue
                        u = Unifier(kfn, k_is_method, "site", nlocals=host_locals)
                        if u.kstored_params or not u.u_block(core, run):
                            i += 1
                            continue
                        target = None
                        used = len(core)
                        if ret is not None and i + len(core) < len(blk):
                            nxt = blk[i + len(core)]
                            if isinstance(nxt, ast.Assign) and len(nxt.targets) == 1 and isinstance(nxt.targets[0], ast.Name):
                                u2 = copy.copy(u)
                                u2.map, u2.rev, u2.binds, u2.pairs = dict(u.map), dict(u.rev), dict(u.binds), []
                                if u2.u(ret, nxt.value):
                                    u, target, used = u2, nxt.targets[0], len(core) + 1
                            elif isinstance(nxt, ast.Return) and nxt.value is not None:
                                u2 = copy.copy(u)
                                u2.map, u2.rev, u2.binds, u2.pairs = dict(u.map), dict(u.rev), dict(u.binds), []
                                if u2.u(ret, nxt.value):
                                    u, target, used = u2, "return", len(core) + 1
                        # the locals of K must not be looked at by the host afterwards
                        site_locals = {u.map[k] for k in u.map if k in u.klocals}
                        last_line = max(getattr(x, "end_lineno", getattr(x, "lineno", 0)) or 0 for s in blk[i:i + used] for x in ast.walk(s) if hasattr(x, "lineno"))
                        live = _loads_after(host, last_line, site_locals, blk[i:i + used])
                        if isinstance(target, ast.Name):
                            live.discard(target.id)
                        if live:
                            i += 1
                            continue
                        params = u.kparams
                        recv = None
                        if k_is_method and u.kself is not None:
                            recv = u.binds.get(u.kself)
                            params = params[1:]
                            if recv is None:
                                i += 1
                                continue
                        args, kws, gap, bad = [], [], False, False
                        kwonly = {p.arg for p in kfn.args.kwonlyargs}
                        for kp in params:
                            e = u.binds.get(kp)
                            if e is None:
                                if kdefaults.get(kp) is None:
                                    bad = True
                                    break
                                gap = True
                                continue
                            if gap or kp in kwonly:
                                kws.append(ast.keyword(arg=kp, value=copy.deepcopy(e)))
                            else:
                                args.append(copy.deepcopy(e))
                        if bad:
                            i += 1
                            continue
                        at = blk[i]
                        fn = ast.Attribute(value=copy.deepcopy(recv), attr=kfn.name, ctx=ast.Load()) if recv is not None else ast.Name(id=kfn.name, ctx=ast.Load())
                        call = ast.Call(func=fn, args=args, keywords=kws)
                        if target == "return":
                            st = ast.Return(value=call)
                        elif target is not None:
                            st = ast.Assign(targets=[copy.deepcopy(target)], value=call)
                        else:
                            st = ast.Expr(value=call)
                        for x in ast.walk(st):
                            if "lineno" in getattr(x, "_attributes", ()) and not hasattr(x, "lineno"):
                                ast.copy_location(x, at)
                        ast.copy_location(st, at)
                        ast.fix_missing_locations(st)
                        blk[i:i + used] = [st]
                        if first_at is None:
                            first_at = at
                            u.copy_positions()
                        count += 1
                        i += 1
        if count:
            for x in ast.walk(kfn):
                if "lineno" in getattr(x, "_attributes", ()) and not hasattr(x, "lineno"):
                    ast.copy_location(x, first_at)
            ast.copy_location(kfn, first_at)
            ast.fix_missing_locations(kfn)
            container.append(kfn)
            hm.log.append(f"re-created {qual}: {count} run(s) of statements unify with its reference body and became calls again")
            changed = True
            _refresh(pkg)
            have = {d.qual for m in pkg.values() for d in m.defs}
    if changed:
        _refresh(pkg)


# =====================================================================================================================
# signature mode: a reference function whose parameter list was re-arranged
# =====================================================================================================================

def _sig_key(fn) -> str:
    a = fn.args
    return ast.dump(ast.arguments(posonlyargs=[ast.arg(arg=x.arg) for x in a.posonlyargs], args=[ast.arg(arg=x.arg) for x in a.args],
                                  vararg=ast.arg(arg=a.vararg.arg) if a.vararg else None, kwonlyargs=[ast.arg(arg=x.arg) for x in a.kwonlyargs],
                                  kw_defaults=[None if d is None else d for d in a.kw_defaults], kwarg=ast.arg(arg=a.kwarg.arg) if a.kwarg else None,
                                  defaults=list(a.defaults)))


def restore_signatures(pkg, sources: Dict[str, dict]) -> None:
    """A reference function that is still there under its name but takes its inputs differently (parameters re-ordered, made keyword-only, defaults
    dropped, two bound methods replaced by the object they belong to) while its body is the reference body modulo that correspondence: the reference
    parameter list is put back and every call is re-written to it, so that rules which read arguments by position / name see what they know."""
    changed = False
    for m in list(pkg.values()):
        for d in list(m.defs):
            if d.kind not in ("module", "method") or d.qual not in sources:
                continue
            name = d.node.name
            if d.kind == "method" and (not name.startswith("_") or name.startswith("__")):
                continue        # calls of a public method name cannot be told apart from calls of other classes' methods of that name
            entry = sources[d.qual]
            kfn = _parse_src(entry)
            if kfn is None or type(kfn) is not type(d.node):
                continue
            if _sig_key(kfn) == _sig_key(d.node):
                continue
            if kfn.args.vararg or kfn.args.kwarg or d.node.args.vararg or d.node.args.kwarg:
                continue
            if [ast.unparse(x) for x in d.node.decorator_list] != [ast.unparse(x) for x in kfn.decorator_list]:
                continue
            kbody, nbody = _strip_doc(kfn.body), _strip_doc(d.node.body)
            if _shape(kbody) != _shape(nbody):
                continue
            k_is_method = entry.get("class") is not None
            u = Unifier(kfn, k_is_method, "func", nname=name, nparams=_params(d.node), nlocals=_stored(d.node), n_is_method=d.kind == "method")
            u.nfn = d.node
            u.allow_param_expr = True
            if not u.u_block(kbody, nbody):
                continue
            if any(u.map.get(kp) is not None and u.map[kp] not in u.nparams for kp in u.kparams):
                continue
            if any(u.rev.get(np_) is not None and u.rev[np_] not in u.kparams for np_ in u.nparams):
                continue
            plan = _Plan(d.qual, entry, kfn, d, m, u)
            rewrites = []
            ok = True
            for (m2, parent, fld, idx, v, kind) in _references(pkg, plan):
                if _inside(v, d.node):
                    continue
                if kind != "call":
                    ok = False
                    break
                bound = _bind_call(d.node, parent, skip_first=plan.n_is_method)
                if bound is None:
                    ok = False
                    break
                kc = plan.k_call(bound, v.value if isinstance(v, ast.Attribute) else None, parent)
                if kc is None:
                    ok = False
                    break
                rewrites.append((parent, kc))
            if not ok:
                continue
            u.copy_positions()
            ast.copy_location(kfn, d.node)
            for x in ast.walk(kfn):
                if "lineno" in getattr(x, "_attributes", ()) and not hasattr(x, "lineno"):
                    ast.copy_location(x, d.node)
            ast.fix_missing_locations(kfn)
            d.container[d.container.index(d.node)] = kfn
            for call, kc in rewrites:
                call.func, call.args, call.keywords = kc.func, kc.args, kc.keywords
            m.log.append(f"{d.qual}: parameter list differs from the reference one while the body unifies with it: reference signature restored, {len(rewrites)} call(s) re-written")
            changed = True
    if changed:
        _refresh(pkg)


# =====================================================================================================================
# nested functions under a new name
# =====================================================================================================================

def restore_nested_names(m, sources: Dict[str, dict]) -> None:
    """a nested function of the reference tree that is gone while its enclosing function holds a new nested function whose body unifies with it:
    the reference name is put back (definition and every use inside the enclosing function)"""
    have = {d.qual: d for d in m.defs}
    changed = False
    for qual, entry in sources.items():
        if not qual.startswith(m.modname + ":") or ".<locals>." not in qual or qual in have:
            continue
        outer_q, name = qual.rsplit(".<locals>.", 1)
        outer = have.get(outer_q)
        kfn = _parse_src(entry)
        if outer is None or kfn is None:
            continue
        cands = []
        for d in m.defs:
            if d.kind != "nested" or d.parent is not outer or d.qual in sources or type(d.node) is not type(kfn):
                continue
            kbody, nbody = _strip_doc(kfn.body), _strip_doc(d.node.body)
            if _shape(kbody) != _shape(nbody) or _sig_key(kfn) != _sig_key(d.node):
                continue
            u = Unifier(kfn, False, "func", nname=d.node.name, nparams=_params(d.node), nlocals=_stored(d.node))
            u.nfn = d.node
            # free variables of a closure are names of the enclosing function: compared as globals (same name)
            if u.u_block(kbody, nbody) and all(u.map.get(p, p) == p for p in u.kparams):
                cands.append(d)
        how = "bodies unify"
        if not cands:
            # edited on the way: the only new nested function of the enclosing function that is clearly similar keeps its own body under the reference name
            sim = sorted(((_similarity(kfn, d.node), d) for d in m.defs if d.kind == "nested" and d.parent is outer and d.qual not in sources
                          and type(d.node) is type(kfn)), key=lambda t: -t[0])
            if sim and sim[0][0] >= 0.6 and (len(sim) == 1 or sim[0][0] - sim[1][0] >= 0.12):
                cands = [sim[0][1]]
                how = f"similarity {sim[0][0]:.2f}, its own body is analysed"
        if len(cands) != 1:
            continue
        d = cands[0]
        old = d.node.name
        if any(isinstance(x, ast.Name) and x.id == name for x in ast.walk(outer.node)):
            continue
        for x in ast.walk(outer.node):
            if isinstance(x, ast.Name) and x.id == old:
                x.id = name
        d.node.name = name
        m.log.append(f"{outer_q}: nested function {old} is the reference closure {name} under a new name ({how}): name restored")
        changed = True
    if changed:
        m.defs = enumerate_defs(m.modname, m.tree)
        m.new = [d for d in m.defs if d.qual not in m.known]


# =====================================================================================================================
# successor mode: a reference function that was renamed / moved / turned into a function AND edited
# =====================================================================================================================

def _tokens(fn) -> List[str]:
    out = []
    for st in _strip_doc(fn.body):
        for n in ast.walk(st):
            t = type(n).__name__
            if isinstance(n, ast.Attribute):
                t += ":" + n.attr
            elif isinstance(n, ast.Constant):
                t += ":" + repr(n.value)[:24]
            elif isinstance(n, ast.Name) and isinstance(n.ctx, ast.Load):
                t += ":" + n.id
            out.append(t)
    return out


def _similarity(kfn, nfn) -> float:
    import difflib
    a, b = _tokens(kfn), _tokens(nfn)
    if not a or not b:
        return 0.0
    return difflib.SequenceMatcher(None, a, b, autojunk=False).ratio()


def restore_successors(pkg, sources: Dict[str, dict]) -> None:
    """What is left after the exact passes: a reference function K is gone and no current function unifies with it, but one function N that is not on
    the reference tree is clearly its successor (by far the most similar body among the new functions, or the same name in another module). N is *not*
    replaced by reference code - it is its own, current body that is put under K's name and home (parameters and locals that the matching statements
    identify are given K's names, `p` that stands for `self.attr` is written as `self.attr`, calls are re-written) so that the rules anchored at K
    judge the code as it is now. An edit made together with a rename / move is thereby seen by the same rules as an edit of the unmoved function."""
    import difflib
    have = {d.qual for m in pkg.values() for d in m.defs}
    known_names = {q.rsplit(":", 1)[1].rsplit(".", 1)[-1] for q in sources}
    vanished = [(q, e) for q, e in sources.items() if q not in have and ".<locals>." not in q]
    if not vanished:
        return
    new_defs = [(m, d) for m in pkg.values() for d in m.new if d.kind in ("module", "method") and d.node in d.container]
    if not new_defs:
        return
    scores = []
    for qual, entry in vanished:
        kfn = _parse_src(entry)
        if kfn is None or _home(pkg, qual, entry) is None:
            continue
        if len(_tokens(kfn)) < 12:
            continue        # too small to recognise by similarity
        for m, d in new_defs:
            if type(d.node) is not type(kfn):
                continue
            if bool(_has_yield(d.node)) != bool(_has_yield(kfn)):
                continue
            sc = _similarity(kfn, d.node)
            if d.node.name == kfn.name:
                sc += 0.25
            scores.append((sc, qual, id(d), m, d, entry, kfn))
    scores.sort(key=lambda t: -t[0])
    used_k, used_n = set(), set()
    changed = False
    for sc, qual, did, m, d, entry, kfn in scores:
        if qual in used_k or did in used_n:
            continue
        if sc < 0.62:
            break
        # margin over the best alternative for this K and for this N
        alt_k = max([s2 for (s2, q2, d2, *_r) in scores if q2 == qual and d2 != did and d2 not in used_n] + [0.0])
        alt_n = max([s2 for (s2, q2, d2, *_r) in scores if d2 == did and q2 != qual and q2 not in used_k] + [0.0])
        if sc - max(alt_k, alt_n) < 0.12:
            continue
        if d.node.name != kfn.name and d.node.name in known_names:
            continue
        if _apply_successor(pkg, qual, entry, kfn, m, d):
            used_k.add(qual)
            used_n.add(did)
            changed = True
            m.log.append(f"{d.qual} is taken as the successor of the reference function {qual} (similarity {sc:.2f}; its own body is analysed under the reference name)")
            _refresh(pkg)
    if changed:
        _refresh(pkg)


def _has_yield(fn) -> bool:
    todo = list(fn.body)
    while todo:
        n = todo.pop()
        if isinstance(n, (ast.Yield, ast.YieldFrom)):
            return True
        if isinstance(n, (ast.FunctionDef, ast.AsyncFunctionDef, ast.Lambda, ast.ClassDef)):
            continue
        todo.extend(ast.iter_child_nodes(n))
    return False


def _apply_successor(pkg, qual, entry, kfn, nmod, nd: Def) -> bool:
    import difflib
    home = _home(pkg, qual, entry)
    if home is None:
        return False
    hm, container = home
    if any(isinstance(n, (ast.FunctionDef, ast.AsyncFunctionDef)) and n.name == kfn.name for n in container):
        return False
    k_is_method = entry.get("class") is not None
    n_is_method = nd.kind == "method"
    kbody, nbody = _strip_doc(kfn.body), _strip_doc(nd.node.body)
    u = Unifier(kfn, k_is_method, "func", nname=nd.node.name, nparams=_params(nd.node), nlocals=_stored(nd.node), n_is_method=n_is_method)
    u.nfn = nd.node
    # statement by statement, aligned on the statement kinds; what does not unify is skipped (its names stay as they are)
    sm = difflib.SequenceMatcher(None, list(_shape(kbody)), list(_shape(nbody)), autojunk=False)
    for tag, i1, i2, j1, j2 in sm.get_opcodes():
        if tag != "equal":
            continue
        for ks, ns in zip(kbody[i1:i2], nbody[j1:j2]):
            snap = (dict(u.map), dict(u.rev), dict(u.attr_map), dict(u.attr_rev), list(u.rec_calls), len(u.pairs), dict(u.assume))
            if not u.u(ks, ns):
                u.map, u.rev, u.attr_map, u.attr_rev, u.rec_calls, u.assume = snap[0], snap[1], snap[2], snap[3], snap[4], snap[6]
                del u.pairs[snap[5]:]
    u.rec_calls = []
    # parameters: what the statements identified, then equal names
    nparams = _params(nd.node)
    for kp in u.kparams:
        if kp not in u.map and kp in nparams and kp not in u.rev:
            u.map[kp] = kp
            u.rev[kp] = kp
    if k_is_method and u.kself is not None and not n_is_method and u.kself not in u.map:
        # what the receiver became, from the call sites: a parameter that is handed `<obj>.attr` at every call stands for `self.attr` when K reads that attribute
        probe = _Plan(qual, entry, kfn, nd, nmod, u)
        k_attrs = {x.attr for x in ast.walk(kfn) if isinstance(x, ast.Attribute) and isinstance(x.value, ast.Name) and x.value.id == u.kself}
        seen: Dict[str, Set[str]] = {}
        n_calls = 0
        for (m, parent, fld, idx, v, kind) in _references(pkg, probe):
            if _inside(v, nd.node) or kind not in ("call", "partial"):
                continue
            fake = parent if kind == "call" else ast.Call(func=v, args=list(parent.args[1:]), keywords=list(parent.keywords))
            bound = _bind_call(nd.node, fake, skip_first=False)
            if bound is None:
                continue
            n_calls += 1
            for pn, e in bound.items():
                seen.setdefault(pn, set()).add(e.attr if isinstance(e, ast.Attribute) and isinstance(e.value, (ast.Name, ast.Attribute)) else "?")
        for pn, attrs in seen.items():
            if len(attrs) == 1 and "?" not in attrs and pn not in u.rev and pn not in u.attr_rev:
                at = next(iter(attrs))
                if at in k_attrs and at not in u.attr_map:
                    u.attr_map[at] = pn
                    u.attr_rev[pn] = at
        if not u.attr_map:
            return False        # no way to tell what the receiver became
    if any(u.map.get(kp) is not None and u.map[kp] not in u.nparams for kp in u.kparams):
        return False
    plan = _Plan(qual, entry, kfn, nd, nmod, u)
    plan.keep_defaults = True
    pure = _same_signature(plan) and not u.attr_map
    rewrites = []
    for (m, parent, fld, idx, v, kind) in _references(pkg, plan):
        rw = _rewrite_ref(plan, parent, v, kind, pure)
        if rw is None:
            if _inside(v, nd.node):
                continue
            return False
        rewrites.append((parent, v, rw[0], rw[1]))
    # the definition: N's own code under K's name, with the identified names spelled as in K
    node = nd.node
    ren = {n: k for n, k in u.rev.items() if n != k}
    # a renaming target must not collide with another name of N
    names_of_n = _stored(node) | set(nparams)
    ren = {n: k for n, k in ren.items() if k not in (names_of_n - set(ren))}
    attr_params = dict(u.attr_rev) if (k_is_method and not n_is_method) else {}
    kself = u.kself or "self"

    class T(ast.NodeTransformer):
        def visit_Name(self, x):
            if x.id in attr_params and isinstance(x.ctx, ast.Load):
                return ast.copy_location(ast.Attribute(value=ast.copy_location(ast.Name(id=kself, ctx=ast.Load()), x), attr=attr_params[x.id], ctx=ast.Load()), x)
            if x.id in ren:
                x.id = ren[x.id]
            elif x.id == plan.nname and not n_is_method and not k_is_method:
                x.id = plan.kname
            return x

        def visit_arg(self, x):
            if x.arg in ren:
                x.arg = ren[x.arg]
            return x

        def visit_ExceptHandler(self, x):
            if x.name and x.name in ren:
                x.name = ren[x.name]
            self.generic_visit(x)
            return x
    node.body = [T().visit(st) for st in node.body]
    a = node.args
    allargs = a.posonlyargs + a.args + a.kwonlyargs
    for x in allargs:
        if x.arg in ren:
            x.arg = ren[x.arg]
    if attr_params:
        a.args = [x for x in a.args if x.arg not in attr_params]
        kw = [(x, dv) for x, dv in zip(a.kwonlyargs, a.kw_defaults) if x.arg not in attr_params]
        a.kwonlyargs, a.kw_defaults = [x for x, _ in kw], [dv for _, dv in kw]
        a.args.insert(0, ast.copy_location(ast.arg(arg=kself, annotation=None), node))
        # defaults of dropped positional parameters: positional defaults align to the tail, dropped parameters had none in the cases accepted
        a.defaults = a.defaults[-len([x for x in a.args[1:]]):] if a.defaults and len(a.defaults) > len(a.args) - 1 else a.defaults
    # parameter order: K's order for the parameters K has, the rest behind
    if not n_is_method or k_is_method:
        korder = [p for p in u.kparams]
        pos = a.posonlyargs + a.args
        defaults = [None] * (len(pos) - len(a.defaults)) + list(a.defaults)
        dmap = {x.arg: dv for x, dv in zip(pos, defaults)}
        byname = {x.arg: x for x in a.args}
        new_args = [byname[p] for p in korder if p in byname] + [x for x in a.args if x.arg not in korder]
        # keep the order only if defaults stay a suffix
        nd_list = [dmap.get(x.arg) for x in new_args]
        first_def = next((i for i, dv in enumerate(nd_list) if dv is not None), len(nd_list))
        if all(dv is not None for dv in nd_list[first_def:]) and not a.posonlyargs:
            a.args = new_args
            a.defaults = [dv for dv in nd_list if dv is not None]
    node.name = plan.kname
    ast.fix_missing_locations(node)
    nd.container.remove(node)
    container.append(node)
    for (parent, v, how, kc) in rewrites:
        _apply_ref(plan, parent, v, how, kc, pure)
    _fix_imports(pkg, plan, hm)
    return True
