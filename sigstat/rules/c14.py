"""C14 - sync never overwrites conflicts unless told to; failed syncs roll documents back."""
import ast

from ..engine import rule, Ctx
from ..core import UNKNOWN, dotted, kwarg, body_nodes, inline, stmt_key, canon, walk_no_nested, names_in
from ..exc import ExcFacts
from . import common
from .c03 import _own, _is_tilde

PROP = "C14"
FLOOR = 14
EXPLANATION = (
    "Decided (structural necessary conditions): (a) in the differing-files loop of _sync_job_workspaces a file is copied only "
    "under the facts `strategy is not None` and `strategy(src, dst, <path>)` true, and with no strategy FileSyncConflict is "
    "raised before any copy of that file; (b) in DocSync.ByKey.__call__ an existing destination key is overwritten only on "
    "paths where the values differ, the value is not a mapping (mappings are merged recursively), a key strategy exists and "
    "it returned true for root+key; skipped keys are recorded and, without a strategy, raised as DocumentSyncConflict at the "
    "top level; (c) the recursive call passes a root that extends the current root with the key; (d) both backup context "
    "managers wrap the yield in a handler for every exception (bare / BaseException) that restores the backup and re-raises, "
    "and remove the backup in a finally; (e) FileSync.always / never return the constants True / False, FileSync.update "
    "returns mtime(source) > mtime(destination) strictly, DocSync.update stores every source key into the destination."
    ' The backup context of the document merge is not wrapped in buffered mode.'
    " The proxy's copy() has no skip of its own (C13-k); a key strategy is built from --key only for a non-empty pattern; collected changes are not applied by a shallow update(); the in-memory roll-back copy depends on nothing but 'empty / no file name / file missing'."
    ' C14-c follows the descent into a self-recursive helper method of ByKey. (j) Project.clone cannot pass dirs_exist_ok to the tree copy (C14-j).'
    ' (k) `signac sync`: the file strategy is looked up in FileSync and the --key pattern is applied anchored (C14-k); (l) Job.sync / Project.sync do not re-bind the options they pass on (C14-l).'
)
UNDECIDED = "The 'iff' for every conflict shape and exact equality of the document with its pre-sync content after a roll-back are not decided."

SJW = "signac.sync:_sync_job_workspaces"
BYKEY = "signac.sync:DocSync.ByKey.__call__"


@rule("C14-a")
def c14_a(ctx: Ctx):
    """Differing files: copy only if the strategy says so; no strategy => FileSyncConflict."""
    R = "C14-a"
    fi = ctx.fn(SJW)
    out = []
    loops = [n for n in body_nodes(fi) if isinstance(n, ast.For) and canon(n.iter).endswith(".diff_files")]
    if not loops:
        return [ctx.inc(R, fi, fi.node, "no loop over diff.diff_files")]
    for lp in loops:
        copies = [c for st in lp.body for c in walk_no_nested(st) if isinstance(c, ast.Call) and isinstance(c.func, ast.Name) and c.func.id in ("copy", "copytree")]
        if not copies:
            out.append(ctx.inc(R, fi, lp, "differing files are never copied (no copy call in the loop)"))
        for c in copies:
            facts = common.facts_at(ctx, fi, c, "n")
            consulted = [t for (t, pol) in facts if pol and t.replace(" ", "").startswith("strategy(")]
            not_none = ("strategy is None", False) in facts
            if consulted and not_none:
                args_ok = consulted[0].replace(" ", "").startswith("strategy(src,dst,")
                try:
                    sc = ast.parse(consulted[0], mode="eval").body
                    third = common.inline_at(ctx, fi, sc.args[2], c) if isinstance(sc, ast.Call) and len(sc.args) > 2 else None
                except SyntaxError:
                    third = None
                if args_ok and third is not None and "subdir" not in names_in(third):
                    out.append(ctx.viol(R, fi, c, f"the strategy is asked about `{canon(sc.args[2])}`, the bare file name, not the path relative to the job ({canon(third)[:40]}): for a conflict in a "
                                        "sub-directory a path-dependent strategy (update, a predicate on the path) decides on the top-level file of the same name"))
                elif args_ok:
                    out.append(ctx.ok(R, fi, c, f"a differing file is copied only when {consulted[0][:50]} is true"))
                else:
                    out.append(ctx.viol(R, fi, c, f"the strategy is consulted as {consulted[0][:60]}, not as strategy(src, dst, <path>)"))
            else:
                out.append(ctx.viol(R, fi, c, f"a file that differs on both sides is overwritten without a positive verdict of the strategy (facts: {sorted(facts)})"))
        raises = [r for st in lp.body for r in walk_no_nested(st) if isinstance(r, ast.Raise) and r.exc is not None
                  and (dotted(r.exc.func if isinstance(r.exc, ast.Call) else r.exc) or "").endswith("FileSyncConflict")]
        if not raises:
            out.append(ctx.viol(R, fi, lp, "with strategy=None a differing file does not raise FileSyncConflict"))
        for r in raises:
            facts = common.facts_at(ctx, fi, r, "n")
            if ("strategy is None", True) in facts:
                out.append(ctx.ok(R, fi, r, "FileSyncConflict is raised when no strategy is given"))
            else:
                out.append(ctx.viol(R, fi, r, f"FileSyncConflict is raised under {sorted(facts)}, not exactly when strategy is None"))
        # strategy None must not be able to fall through to continue silently
        cfg = ctx.cfg(fi)
        for hid in cfg.node_ids_for(lp):
            # any path through the body under `strategy is None` that returns to the header without raising and without exclude?
            starts = [b for (b, k, _) in cfg.succ[hid] if k == "n" and any(cfg.nodes[b].ast is st or _contains(st, cfg.nodes[b].ast) for st in lp.body)]
            for s in starts:
                stack = [(s, [], frozenset())]
                while stack:
                    n, facts, used = stack.pop()
                    if n == hid:
                        if ("strategy is None", True) in facts and not any("exclude" in t and pol for (t, pol) in facts):
                            out.append(ctx.viol(R, fi, lp, "with strategy=None a differing, non-excluded file is silently skipped instead of raising FileSyncConflict"))
                            stack = []
                        continue
                    for (b, k, ef) in cfg.succ[n]:
                        if k == "n" and (n, b) not in used:
                            stack.append((b, facts + list(ef), used | {(n, b)}))
    return out


def _contains(st, node):
    return node is not None and any(x is node for x in ast.walk(st))


@rule("C14-b")
def c14_b(ctx: Ctx):
    """ByKey overwrites an existing key only when selected; mappings are merged; conflicts are recorded and raised."""
    R = "C14-b"
    fi = ctx.fn(BYKEY)
    cfg = ctx.cfg(fi)
    out = []
    loops = [n for n in cfg.stmt_nodes() if isinstance(n.ast, ast.For) and "src" in canon(n.ast.iter)]
    # positive pattern: the changes are collected into a mapping whose entries for nested documents come from the recursion, and that mapping is applied
    # with a (shallow) update(): an existing nested mapping of the destination is then *replaced* by the collected sub-mapping, its other keys are lost
    bulk = []
    cls_funcs = [g for g in ctx.prog.funcs.values() if g.cls is not None and g.cls.qual == "signac.sync:DocSync.ByKey"]
    for g in cls_funcs:
        for c in body_nodes(g):
            if isinstance(c, ast.Call) and isinstance(c.func, ast.Attribute) and c.func.attr == "update" and isinstance(c.func.value, ast.Name) and c.func.value.id in g.params \
                    and c.args and isinstance(c.args[0], ast.Name):
                producers = [d for d in common.reaching_defs(ctx, g, c.args[0].id, c) if isinstance(d, ast.Call)]
                rec = []
                for d in producers:
                    for t in common.targets_of_funcs(ctx, g, d):
                        if t.cls is not None and t.cls.qual == "signac.sync:DocSync.ByKey":
                            for a in body_nodes(t):
                                if isinstance(a, ast.Assign) and any(isinstance(tt, ast.Subscript) for tt in a.targets) and isinstance(a.value, ast.Name):
                                    for dd in common.reaching_defs(ctx, t, a.value.id, a):
                                        if isinstance(dd, ast.Call) and any(x.qual == t.qual for x in common.targets_of_funcs(ctx, t, dd)):
                                            rec.append((t, a))
                if rec:
                    bulk.append((g, c, rec[0]))
    if bulk:
        g, c, (t, a) = bulk[0]
        return [ctx.viol(R, g, c, f"the collected changes are applied with {canon(c)[:40]}, a shallow update, and for a nested document the collected entry is the sub-mapping returned by the "
                         f"recursion (`{stmt_key(a, 40)}` in {t.name}): the destination's nested mapping is replaced by it and keys that exist only in the destination are lost")]
    if not loops:
        return [ctx.inc(R, fi, fi.node, "no loop over the source items")]
    lp = loops[0]
    tgt = lp.ast.target
    kname = tgt.elts[0].id if isinstance(tgt, ast.Tuple) and isinstance(tgt.elts[0], ast.Name) else (tgt.id if isinstance(tgt, ast.Name) else None)
    vname = tgt.elts[1].id if isinstance(tgt, ast.Tuple) and len(tgt.elts) > 1 and isinstance(tgt.elts[1], ast.Name) else "value"
    stores = [n for n in cfg.stmt_nodes() if isinstance(n.ast, ast.Assign) and any(
        isinstance(t, ast.Subscript) and canon(t.value) == "dst" for t in n.ast.targets) and _contains(lp.ast, n.ast)]
    if not stores or not kname:
        return [ctx.inc(R, fi, lp.ast, "no `dst[key] = value` store in the loop")]
    for s in stores:
        paths, trunc = cfg.paths_to(s.id, start=lp.id, kinds="n")
        bad = None
        n_in = 0
        for path, facts in paths:
            fs = set(common.expand_facts(ctx, fi, facts))
            if (f"{kname} in dst", False) in fs:
                continue  # new key
            n_in += 1
            differ = any(t.replace(" ", "").startswith(f"dst[{kname}]==") and not pol for (t, pol) in fs)
            notmap = any(t.replace(" ", "").startswith(f"isinstance({vname},") and "Mapping" in t and not pol for (t, pol) in fs)
            has_strat = ("self.key_strategy is None", False) in fs
            selected = any(t.replace(" ", "").startswith("self.key_strategy(") and pol for (t, pol) in fs)
            if not (differ and notmap and has_strat and selected):
                bad = (path, sorted(fs), differ, notmap, has_strat, selected)
        if bad:
            path, fs, differ, notmap, has_strat, selected = bad
            why = []
            if not notmap:
                why.append("a nested mapping is replaced wholesale instead of being merged (destination-only nested keys are lost)")
            if not has_strat or not selected:
                why.append("the key strategy did not select the key")
            if not differ:
                why.append("values were not compared")
            out.append(ctx.viol(R, fi, s.ast, "an existing destination key can be overwritten although " + "; ".join(why),
                                witness=cfg.describe_path(path)))
        else:
            out.append(ctx.ok(R, fi, s.ast, f"existing keys are overwritten only on {n_in} path(s) where values differ, the value is not a mapping and the key strategy selected the key"))
        # the strategy is asked about root + key
        asked = [c for c in body_nodes(fi) if isinstance(c, ast.Call) and canon(c.func) == "self.key_strategy"]
        for c in asked:
            a = canon(c.args[0]).replace(" ", "") if c.args else ""
            if a == f"root+{kname}":
                out.append(ctx.ok(R, fi, c, "the key strategy is asked about the full dotted key root + key"))
            else:
                out.append(ctx.viol(R, fi, c, f"the key strategy is asked about {a!r} instead of root + key"))
    # skipped keys recorded and raised
    adds = [c for c in body_nodes(fi) if isinstance(c, ast.Call) and canon(c.func) == "self.skipped_keys.add"]
    if adds:
        out.append(ctx.ok(R, fi, adds[0], "unselected conflicting keys are recorded in skipped_keys"))
    else:
        out.append(ctx.viol(R, fi, fi.node, "conflicting keys that are not overwritten are not recorded: conflicts pass silently"))
    raises = [r for r in body_nodes(fi) if isinstance(r, ast.Raise) and r.exc is not None and (dotted(r.exc.func if isinstance(r.exc, ast.Call) else r.exc) or "").endswith("DocumentSyncConflict")]
    if not raises:
        out.append(ctx.viol(R, fi, fi.node, "DocumentSyncConflict is never raised"))
    for r in raises:
        facts = common.facts_at(ctx, fi, r, "n")
        need = {("self.key_strategy is None", True), ("self.skipped_keys", True), ("root", False)}
        if need <= set(facts):
            out.append(ctx.ok(R, fi, r, "without a key strategy, recorded conflicts raise DocumentSyncConflict at the top level"))
        else:
            out.append(ctx.viol(R, fi, r, f"DocumentSyncConflict is raised under {sorted(facts)}; expected: skipped keys, no strategy, top level"))
    return out


@rule("C14-c")
def c14_c(ctx: Ctx):
    """The recursion extends the current root."""
    R = "C14-c"
    fi = ctx.fn(BYKEY)
    out = []
    rec = [c for c in body_nodes(fi) if isinstance(c, ast.Call) and isinstance(c.func, ast.Name) and c.func.id == "self"]
    if not rec:
        # the descent may live in a self-recursive helper method of the same class (a generator that yields the differing items)
        cls_q = BYKEY.rsplit(".", 1)[0]
        for g in ctx.prog.funcs.values():
            if g.qual.startswith(cls_q + ".") and g.qual != BYKEY and ".<locals>." not in g.qual[len(cls_q):]:
                own = [c for c in body_nodes(g) if isinstance(c, ast.Call) and isinstance(c.func, ast.Attribute) and c.func.attr == g.name
                       and isinstance(c.func.value, ast.Name) and c.func.value.id == "self"]
                if own and len(g.params) >= 4:
                    fi, rec = g, own
                    break
    if not rec:
        return [ctx.inc(R, fi, fi.node, "no recursive self(...) call in ByKey.__call__")]
    rootp = fi.params[3] if len(fi.params) > 3 else "root"
    for c in rec:
        r = kwarg(c, rootp) or (c.args[2] if len(c.args) > 2 else None)
        if r is None:
            out.append(ctx.viol(R, fi, c, "the recursive call does not pass a root: nested conflicts are reported / decided by their last component only"))
            continue
        ns = names_in(common.inline_at(ctx, fi, r, c))
        knames = {x for n in body_nodes(fi) if isinstance(n, ast.For) and canon(n.iter).startswith("src") for x in common.target_names(n.target)[:1]}
        if rootp in ns and (ns & knames):
            out.append(ctx.ok(R, fi, c, f"recursion passes root={canon(r)}"))
        else:
            out.append(ctx.viol(R, fi, c, f"recursion passes root={canon(r)}, which drops the accumulated prefix: at depth >= 3 the key strategy is asked about 'b.c' instead of 'a.b.c'"))
        a0, a1 = (canon(c.args[0]) if c.args else ""), (canon(c.args[1]) if len(c.args) > 1 else "")
        loopvals = {canon(n.target.elts[1]) for n in body_nodes(fi) if isinstance(n, ast.For) and isinstance(n.target, ast.Tuple)
                    and len(n.target.elts) == 2 and canon(n.iter).startswith("src")}
        if (a0.startswith("src") or a0 in loopvals) and a1.startswith("dst"):
            out.append(ctx.ok(R, fi, c, "recursion descends into (src[key], dst[key])"))
        else:
            out.append(ctx.viol(R, fi, c, f"recursion descends into ({a0}, {a1})"))
    return out


@rule("C14-d")
def c14_d(ctx: Ctx):
    """Backup context managers restore on every exception and re-raise; the backup is removed in finally."""
    R = "C14-d"
    out = []
    ex = ExcFacts(ctx)
    for q in ("signac.sync:_FileModifyProxy.create_backup", "signac.sync:_FileModifyProxy.create_doc_backup"):
        fi = ctx.fn(q)
        pm = ctx.parents(fi)
        yields = [n for n in body_nodes(fi) if isinstance(n, ast.Yield)]
        if not yields:
            out.append(ctx.inc(R, fi, fi.node, "no yield"))
            continue
        for y in yields:
            cur = pm.get(id(y))
            tr = None
            while cur is not None:
                if isinstance(cur, ast.Try) and common.in_body_of(ctx, fi, y, cur, ("body",)):
                    tr = cur
                    break
                if isinstance(cur, ast.With):
                    # delegated to another backup context manager
                    ce = cur.items[0].context_expr
                    if isinstance(ce, ast.Call) and isinstance(ce.func, ast.Attribute) and ce.func.attr == "create_backup":
                        tr = "delegated"
                        break
                cur = pm.get(id(cur))
            k = f"{q}|{stmt_key(y, 30)}"
            if tr == "delegated":
                out.append(ctx.ok(R, fi, y, "file-backed documents: roll-back is delegated to create_backup(<document file>)", construct=k))
                continue
            if tr is None:
                out.append(ctx.viol(R, fi, y, "the yield is not inside a try: an exception in the synchronisation leaves the destination partially modified", construct=k))
                continue
            hs = [h for h in tr.handlers if ex.catches(ex.handler_type_names(fi, h), "KeyboardInterrupt")]
            if not hs:
                types = [t for h in tr.handlers for t in ex.handler_type_names(fi, h)]
                out.append(ctx.viol(R, fi, tr, f"the roll-back handler catches only {types}: an interrupt (KeyboardInterrupt / SystemExit) during the merge leaves the "
                                    "destination partially overwritten and, for file backups, deletes the backup", construct=k))
                continue
            h = hs[0]
            w = common.reraises_on_all_paths(ctx, fi, h)
            restore = [c for st in h.body for c in walk_no_nested(st) if isinstance(c, ast.Call) and (
                (isinstance(c.func, ast.Attribute) and c.func.attr in ("_copy2", "_copy", "copy", "update", "reset") ))]
            if w is not None:
                out.append(ctx.viol(R, fi, h, "the roll-back handler does not re-raise: a conflict is swallowed", construct=k))
            elif not restore:
                out.append(ctx.viol(R, fi, h, "the handler re-raises without restoring the backup", construct=k))
            else:
                # restore must precede the raise
                out.append(ctx.ok(R, fi, h, f"every exception restores the backup ({stmt_key(restore[-1], 40)}) and is re-raised", construct=k))
            if q.endswith("create_backup"):
                fin = [c for st in tr.finalbody for c in walk_no_nested(st) if isinstance(c, ast.Call) and isinstance(c.func, ast.Attribute) and c.func.attr in ("_remove", "remove")]
                if fin:
                    out.append(ctx.ok(R, fi, fin[0], "the backup file is removed in finally", construct=k + "|finally"))
                else:
                    out.append(ctx.viol(R, fi, tr, "the backup file is not removed in a finally block", construct=k + "|finally"))
                # restore direction: backup -> path
                for c in restore:
                    if len(c.args) == 2:
                        if _is_tilde(ctx, fi, c.args[0]) and not _is_tilde(ctx, fi, c.args[1]):
                            out.append(ctx.ok(R, fi, c, "restore copies the backup over the original", construct=k + "|direction"))
                        else:
                            out.append(ctx.viol(R, fi, c, "the 'restore' copies in the wrong direction", construct=k + "|direction"))
    cb = ctx.fn("signac.sync:_FileModifyProxy.create_backup")
    cfgb = ctx.cfg(cb)
    ynodes = [n.id for n in cfgb.stmt_nodes() if n.kind == "stmt" and any(isinstance(x, ast.Yield) for x in walk_no_nested(n.ast))]
    copies = {n.id for n in cfgb.stmt_nodes() if n.kind == "stmt" for c in walk_no_nested(n.ast) if isinstance(c, ast.Call) and isinstance(c.func, ast.Attribute)
              and c.func.attr in ("_copy2", "_copy", "copy2", "copy") and len(c.args) == 2 and _is_tilde(ctx, cb, c.args[1]) and not _is_tilde(ctx, cb, c.args[0])}
    for y in ynodes:
        w = cfgb.must_pass_before(y, copies, kinds="n")
        k = cb.qual + "|fresh-backup"
        if w is None and copies:
            out.append(ctx.ok(R, cb, cfgb.nodes[y].ast, "a fresh backup copy is made on every path to the yield", construct=k))
        else:
            out.append(ctx.viol(R, cb, cfgb.nodes[y].ast, "the body can run without a fresh backup having been written (e.g. a stale '~' file from an earlier failure is reused): the roll-back "
                                "restores content that is not the pre-sync document", construct=k, witness=cfgb.describe_path(w) if w else None))
    restores = {n.id for n in cfgb.stmt_nodes() if n.kind == "stmt" for c in walk_no_nested(n.ast) if isinstance(c, ast.Call) and isinstance(c.func, ast.Attribute)
                and c.func.attr in ("_copy2", "_copy", "copy2", "copy", "replace") and len(c.args) == 2 and _is_tilde(ctx, cb, c.args[0]) and not _is_tilde(ctx, cb, c.args[1])}
    pre = [r for r in restores if any(y in cfgb.reachable([r], kinds="n") for y in ynodes)]
    if pre:
        out.append(ctx.viol(R, cb, cfgb.nodes[pre[0]].ast, "a left-over '~' file is copied back over the document before the synchronisation starts: destination-only changes made since that "
                            "file was written are lost although this sync did not fail", construct=cb.qual + "|restore-before-yield"))
    else:
        out.append(ctx.ok(R, cb, cb.node, "the backup is copied back over the original only in the roll-back handler", construct=cb.qual + "|restore-before-yield"))
    stale = [n for n in body_nodes(cb) if isinstance(n, ast.Raise)]
    okstale = False
    for r in stale:
        facts = common.facts_at(ctx, cb, r, "n")
        if any(pol and ("isfile(path_backup)" in t.replace("os.path.", "") or "exists(path_backup)" in t.replace("os.path.", "")) for (t, pol) in facts) \
                or any(pol and "isfile(path + '~')" in t.replace("os.path.", "") for (t, pol) in facts):
            okstale = True
    if okstale:
        out.append(ctx.ok(R, cb, stale[0], "an existing backup file makes create_backup refuse to start", construct=cb.qual + "|stale-backup"))
    else:
        out.append(ctx.info(R, cb, cb.node, "no refusal on an existing backup file", construct=cb.qual + "|stale-backup"))
    # the document merge is not wrapped in buffered mode: on a conflict the backup context restores the file first and the enclosing buffer then
    # flushes the partially merged document over it
    for q in ("signac.sync:sync_jobs", "signac.sync:sync_projects"):
        g = ctx.fn(q)
        pmg = ctx.parents(g)
        for w in [n for n in body_nodes(g) if isinstance(n, (ast.With, ast.AsyncWith))]:
            idx = [i for i, it in enumerate(w.items) if isinstance(it.context_expr, ast.Call) and isinstance(it.context_expr.func, ast.Attribute) and it.context_expr.func.attr == "create_doc_backup"]
            if not idx:
                continue
            outer = [it.context_expr for it in w.items[:idx[0]]]
            cur = pmg.get(id(w))
            while cur is not None:
                if isinstance(cur, (ast.With, ast.AsyncWith)):
                    outer += [it.context_expr for it in cur.items]
                cur = pmg.get(id(cur))
            buf = [e for e in outer if "buffered" in canon(e)]
            kb = q + "|backup-not-buffered"
            if buf:
                out.append(ctx.viol(R, g, w, f"the document merge runs inside {canon(buf[0])[:40]}: when a conflict is raised the backup context restores the document file and the enclosing "
                                    "buffer then writes the partially merged document over it - the roll-back is undone", construct=kb))
            else:
                out.append(ctx.ok(R, g, w, "the backup context is the outermost context of the document merge (no buffered mode around it)", construct=kb))
    fi = ctx.fn("signac.sync:_FileModifyProxy.create_doc_backup")
    # the in-memory backup: whatever the roll-back handler feeds back into the document (update(X) / reset(X))
    bnames = {a.id for h in body_nodes(fi) if isinstance(h, ast.ExceptHandler) for st in h.body for c in walk_no_nested(st)
              if isinstance(c, ast.Call) and isinstance(c.func, ast.Attribute) and c.func.attr in ("update", "reset") for a in c.args if isinstance(a, ast.Name)}
    bk = [n for n in body_nodes(fi) if isinstance(n, ast.Assign) and any(isinstance(t, ast.Name) and t.id in bnames for t in n.targets)]
    if not bk:
        out.append(ctx.inc(R, fi, fi.node, "no in-memory backup (value restored by the roll-back handler) found"))
    # the in-memory copy is a snapshot only for documents without a file (a deep copy of a file-backed document is another handle on the same file): the choice of
    # that branch may depend only on: document empty, no file name, file missing
    pmf = ctx.parents(fi)
    for b in bk:
        cur = pmf.get(id(b))
        branch_if = None
        while cur is not None:
            if isinstance(cur, ast.If):
                branch_if = cur
                break
            cur = pmf.get(id(cur))
        kd = fi.qual + "|in-memory-branch-condition"
        if branch_if is None:
            out.append(ctx.inc(R, fi, b, "the in-memory backup is not chosen by an if", construct=kd))
            continue
        # dependency closure of the condition through the locals' definitions
        deps, seen, work = set(), set(), [branch_if.test]
        params = set(fi.params)
        while work:
            e = work.pop()
            for x in ast.walk(e):
                if isinstance(x, ast.Call):
                    deps.add(canon(x).replace(" ", ""))
                if isinstance(x, ast.Name) and x.id not in seen and x.id not in params:
                    seen.add(x.id)
                    for n2 in body_nodes(fi):
                        if isinstance(n2, ast.Assign) and any(isinstance(t, ast.Name) and t.id == x.id for t in n2.targets):
                            work.append(n2.value)
                            # the condition under which this definition applies is a dependency too
                            c2 = pmf.get(id(n2))
                            while c2 is not None and c2 is not fi.node:
                                if isinstance(c2, ast.If) and c2 is not branch_if:
                                    work.append(c2.test)
                                c2 = pmf.get(id(c2))
        fnames = {t.id for n2 in body_nodes(fi) if isinstance(n2, ast.Assign) and isinstance(n2.value, ast.Call) and (dotted(n2.value.func) or "") == "getattr" for t in n2.targets if isinstance(t, ast.Name)}
        proxies = {t.id for n2 in body_nodes(fi) if isinstance(n2, ast.Assign) and isinstance(n2.value, ast.Call) and (dotted(n2.value.func) or "").endswith("_DocProxy") for t in n2.targets if isinstance(t, ast.Name)}
        allowed = set()
        for fnm in fnames:
            allowed |= {f"os.path.isfile({fnm})", f"os.path.exists({fnm})"}
        for pr in proxies:
            allowed |= {f"len({pr})"}
        extra = sorted(d for d in deps if d not in allowed and not d.startswith(("getattr(", "_DocProxy(", "len(")))
        if extra:
            out.append(ctx.viol(R, fi, branch_if, f"whether the roll-back uses the in-memory copy also depends on {extra[0]}: a non-empty, file-backed document can then be 'backed up' by a deep copy, "
                                "which is only another handle on the same file - after a conflict the roll-back clears the document and restores nothing", construct=kd))
        else:
            out.append(ctx.ok(R, fi, branch_if, "the in-memory copy is used only for an empty document / no file name / a missing file", construct=kd))
    for b in bk:
        if isinstance(b.value, ast.Call) and common.ext_name(ctx, fi, b.value) == "copy.deepcopy":
            out.append(ctx.ok(R, fi, b, "the in-memory backup is a deep copy"))
        else:
            out.append(ctx.viol(R, fi, b, f"the in-memory backup is {stmt_key(b.value, 40)}: nested values are shared with the document being modified, the roll-back restores modified data"))
    return out


@rule("C14-e")
def c14_e(ctx: Ctx):
    """The stock strategies are what their names say."""
    R = "C14-e"
    out = []
    for q, want in (("signac.sync:FileSync.always", True), ("signac.sync:FileSync.never", False)):
        fi = ctx.fn(q)
        rets = [n for n in body_nodes(fi) if isinstance(n, ast.Return)]
        vals = {repr(ctx.fold(r.value, fi)) if r.value is not None else "None" for r in rets}
        if vals == {repr(want)}:
            out.append(ctx.ok(R, fi, fi.node, f"returns {want} on every path"))
        else:
            out.append(ctx.viol(R, fi, fi.node, f"FileSync.{fi.name} returns {sorted(vals)}, expected always {want}"))
    fi = ctx.fn("signac.sync:FileSync.update")
    rets = [n for n in body_nodes(fi) if isinstance(n, ast.Return) and n.value is not None]
    if len(rets) != 1:
        out.append(ctx.inc(R, fi, fi.node, "FileSync.update: expected one return"))
    else:
        v = inline(rets[0].value, ctx.env(fi))
        neg = False
        if isinstance(v, ast.UnaryOp) and isinstance(v.op, ast.Not):
            v, neg = v.operand, True
        # selection by max()/min() of the pair and an identity test: a tie goes to the element listed first
        sel = None
        if isinstance(v, ast.Compare) and len(v.ops) == 1 and isinstance(v.ops[0], (ast.Is, ast.Eq)):
            for a, b in ((v.left, v.comparators[0]), (v.comparators[0], v.left)):
                if isinstance(a, ast.Call) and isinstance(a.func, ast.Name) and a.func.id in ("max", "min") and a.args and isinstance(a.args[0], (ast.Tuple, ast.List)) \
                        and len(a.args[0].elts) == 2 and isinstance(b, ast.Name) and kwarg(a, "key") is not None and "mtime" in canon(kwarg(a, "key")):
                    first = canon(a.args[0].elts[0])
                    sel = (a.func.id, first, b.id)
        if sel is not None:
            fn_, first, picked = sel
            if fn_ == "max" and picked == "src" and first == "src" and not neg:
                out.append(ctx.viol(R, fi, rets[0], f"FileSync.update returns `{canon(rets[0].value)[:60]}`: max() returns the first of equal elements, so with exactly equal modification times the "
                                    "source counts as 'newest' and a conflicting file is overwritten although the source is not newer"))
            elif fn_ == "max" and picked == "src" and first == "dst" and not neg:
                out.append(ctx.ok(R, fi, rets[0], "overwrite iff mtime(source) is strictly greater than mtime(destination) (a tie goes to the destination, which is listed first)"))
            else:
                out.append(ctx.inc(R, fi, rets[0], f"selection `{canon(rets[0].value)[:60]}` not decided"))
        elif isinstance(v, ast.Compare) and len(v.ops) == 1:
            l, r, op = v.left, v.comparators[0], v.ops[0]
            def side(e):
                t = canon(e)
                if "lstat" in t:
                    return "lstat"
                if "getmtime" not in t and "st_mtime" not in t:
                    return None
                return "src" if "src" in names_in(e) else ("dst" if "dst" in names_in(e) else None)
            sl, sr = side(l), side(r)
            strict_newer = (not neg and ((isinstance(op, ast.Gt) and (sl, sr) == ("src", "dst")) or (isinstance(op, ast.Lt) and (sl, sr) == ("dst", "src")))) \
                or (neg and ((isinstance(op, ast.LtE) and (sl, sr) == ("src", "dst")) or (isinstance(op, ast.GtE) and (sl, sr) == ("dst", "src"))))
            trunc = [x for x in (l, r) if isinstance(x, ast.Call) and isinstance(x.func, ast.Name) and x.func.id in ("int", "round", "floor", "trunc")
                     or (isinstance(x, ast.BinOp) and isinstance(x.op, ast.FloorDiv))]
            if trunc:
                out.append(ctx.viol(R, fi, rets[0], f"FileSync.update compares truncated modification times ({canon(trunc[0])[:50]}): a source that is newer by less than the truncation step "
                                    "(within the same second) is not copied, the destination keeps its stale file"))
            elif "lstat" in (sl, sr):
                out.append(ctx.viol(R, fi, rets[0], "FileSync.update compares os.lstat() times, i.e. the age of a symbolic link itself, while the copy (follow_symlinks=True) transfers the link target's "
                                    "content: a fresh link to old data overwrites a newer destination file"))
            elif strict_newer:
                out.append(ctx.ok(R, fi, rets[0], "overwrite iff mtime(source) is strictly greater than mtime(destination)"))
            elif sl and sr:
                out.append(ctx.viol(R, fi, rets[0], f"FileSync.update returns {canon(rets[0].value)}: not 'source strictly newer' (equal or older sources overwrite the destination)"))
            else:
                out.append(ctx.inc(R, fi, rets[0], "comparison operands are not the two modification times"))
        else:
            out.append(ctx.inc(R, fi, rets[0], "FileSync.update does not return a comparison"))
    fi = ctx.fn("signac.sync:DocSync.update")
    ok = False
    for n in body_nodes(fi):
        if isinstance(n, ast.For) and "src" in canon(n.iter):
            for st in n.body:
                if isinstance(st, ast.Assign) and any(isinstance(t, ast.Subscript) and canon(t.value) == "dst" for t in st.targets) and "src" in canon(st.value):
                    ok = True
        if isinstance(n, ast.Call) and canon(n.func) == "dst.update" and n.args and canon(n.args[0]).startswith("src"):
            ok = True
    if ok:
        out.append(ctx.ok(R, fi, fi.node, "DocSync.update stores every source key into the destination"))
    else:
        out.append(ctx.viol(R, fi, fi.node, "DocSync.update does not copy the source keys into the destination"))
    m = ctx.prog.cls("signac.sync:DocSync")
    ns = ctx.fold(m.attrs.get("NO_SYNC"), None, m.module) if "NO_SYNC" in m.attrs else UNKNOWN
    cp = ctx.fold(m.attrs.get("COPY"), None, m.module) if "COPY" in m.attrs else UNKNOWN
    if ns is False and isinstance(cp, str) and cp:
        out.append(ctx.ok(R, None, None, "DocSync.NO_SYNC is False and DocSync.COPY is a distinct sentinel", construct="DocSync|sentinels"))
    else:
        out.append(ctx.viol(R, None, None, f"DocSync sentinels changed: NO_SYNC={ns!r} COPY={cp!r}", construct="DocSync|sentinels"))
    from .c15 import c15_a
    for r in c15_a(ctx):
        if "always-stores" in r.construct or "no-forwarding" in r.construct:
            r.rule = R
            out.append(r)
    ms = ctx.prog.funcs.get("signac.__main__:main_sync")
    if ms is not None:
        # the strategy variable: the local handed over as doc_sync=<name>
        dsv = {k.value.id for c in body_nodes(ms) if isinstance(c, ast.Call) for k in c.keywords if k.arg == "doc_sync" and isinstance(k.value, ast.Name)} or {"doc_sync"}
        for n in body_nodes(ms):
            if isinstance(n, ast.Assign) and any(isinstance(t, ast.Name) and t.id in dsv for t in n.targets):
                facts = common.facts_at(ctx, ms, n, "n")
                v = n.value
                isbykey = isinstance(v, ast.Call) and canon(v.func) in ("DocSync.ByKey", "sync.DocSync.ByKey")
                for flag, want in (("args.all_keys", "True"), ("args.no_keys", "False")):
                    if (flag, True) in facts:
                        k = f"{ms.qual}|{flag}"
                        lam = v.args[0] if isbykey and v.args else None
                        if isbykey and isinstance(lam, ast.Lambda) and canon(lam.body) == want:
                            out.append(ctx.ok(R, ms, n, f"command line {flag.replace('args.', '--').replace('_', '-')} -> key-by-key merge with a strategy that answers {want} for every key", construct=k))
                        elif not isbykey:
                            out.append(ctx.viol(R, ms, n, f"command line {flag.replace('args.', '--').replace('_', '-')} maps to {canon(v)[:40]} instead of DocSync.ByKey(<constant strategy>): nested "
                                                "sub-documents are replaced wholesale (destination-only nested keys are lost) instead of being merged key by key", construct=k))
                        else:
                            out.append(ctx.inc(R, ms, n, f"{flag}: strategy {canon(v)[:50]}", construct=k))
    if ms is not None:
        # a key pattern taken from the command line selects keys only if it is non-empty: re.match('', key) succeeds for every key
        for c in body_nodes(ms):
            if not (isinstance(c, ast.Call) and canon(c.func) in ("DocSync.ByKey", "sync.DocSync.ByKey") and c.args):
                continue
            a0 = c.args[0]
            if "args.key" not in canon(a0).replace(" ", ""):
                continue
            facts = common.expand_facts(ctx, ms, common.facts_at(ctx, ms, c, "n"))
            kk = f"{ms.qual}|--key-non-empty"
            if ("args.key", True) in facts or any(pol and t.replace(" ", "") in ("len(args.key)>0", "args.key!=''") for (t, pol) in facts):
                out.append(ctx.ok(R, ms, c, "a key strategy is built from --key only when the pattern is non-empty", construct=kk))
            else:
                out.append(ctx.viol(R, ms, c, "a key strategy is built from --key also when the pattern is the empty string (e.g. --key \"$PATTERN\" with an unset variable): re.match('', key) "
                                    "matches every key, so all conflicting document keys are overwritten and the command reports success, where an absent selection raises "
                                    "DocumentSyncConflict and rolls the documents back", construct=kk))
    for q in ("signac.sync:sync_jobs", "signac.sync:sync_projects"):
        fi = ctx.fn(q)
        # the merge application: a call of the doc_sync parameter itself; on every path to it both sentinels have been excluded
        dsp = "doc_sync" if "doc_sync" in fi.params else None
        apps = [c for c in body_nodes(fi) if isinstance(c, ast.Call) and isinstance(c.func, ast.Name) and c.func.id == dsp] if dsp else []
        if not apps:
            out.append(ctx.inc(R, fi, fi.node, "no application of the doc_sync strategy found", construct=q + "|doc-sync-gate"))
        for c in apps:
            facts = common.expand_facts(ctx, fi, common.facts_at(ctx, fi, c, "n"))
            excluded = set()
            for (t, pol) in facts:
                tt = t.replace(" ", "")
                for nm in ("NO_SYNC", "COPY"):
                    if not pol and (tt.startswith(f"{dsp}in(") and f"DocSync.{nm}" in tt or tt in (f"{dsp}==DocSync.{nm}", f"{dsp}isDocSync.{nm}")):
                        excluded.add(nm)
            if excluded == {"NO_SYNC", "COPY"}:
                out.append(ctx.ok(R, fi, c, "documents are merged only if doc_sync is neither NO_SYNC nor COPY", construct=q + "|doc-sync-gate"))
            else:
                miss = sorted({"NO_SYNC", "COPY"} - excluded)
                out.append(ctx.viol(R, fi, c, f"the document strategy is applied on a path where doc_sync may be DocSync.{' / DocSync.'.join(miss)}: the sentinel (False / 'copy') is called "
                                    "instead of meaning 'leave the documents alone' / 'copy the file'", construct=q + "|doc-sync-gate"))
    return out


@rule("C14-f")
def c14_f(ctx: Ctx):
    """doc_sync=None selects the default key-by-key merge; DocSync.NO_SYNC is False and must stay 'do not synchronise'."""
    from .lints import sentinel_discipline
    return sentinel_discipline(ctx, "C14-f", [("signac.sync:sync_jobs", "doc_sync", "DocSync.NO_SYNC is the value False: a truthiness test turns 'do not synchronise documents' into the default ByKey merge, which overwrites / raises on document keys"),
     ("signac.sync:sync_projects", "doc_sync", "DocSync.NO_SYNC is the value False: a truthiness test turns 'do not synchronise documents' into the default ByKey merge")])


@rule("C14-g")
def c14_g(ctx: Ctx):
    """An existing destination job is never merged into by cloning: Project.clone reports it as DestinationExistsError so that the conflict rules of sync_jobs apply (from C04-b)."""
    from .c04 import c04_b
    res = [r for r in c04_b(ctx) if "Project.clone" in r.function]
    for r in res:
        r.rule = "C14-g"
    return res


@rule("C14-h")
def c14_h(ctx: Ctx):
    """FileSync.Ask remembers answers per relative file name: a 'yes' for result.txt says nothing about archive/result.txt."""
    from .lints import keyed_by_parameter
    why = "the answer given for one file is silently applied to every file with the same base name in other directories, which are then overwritten (or kept) without asking"
    return keyed_by_parameter(ctx, "C14-h", [("signac.sync:FileSync.Ask.__call__", "self.yes", "fn", why), ("signac.sync:FileSync.Ask.__call__", "self.no", "fn", why)])


@rule("C14-i")
def c14_i(ctx: Ctx):
    """A file the strategy said to overwrite is overwritten: the proxy's copy() has no skip condition of its own (from C13-k)."""
    from .c13 import c13_k
    res = [r for r in c13_k(ctx) if "always-transfers" in r.construct]
    for r in res:
        r.rule = "C14-i"
    return res


@rule("C14-j")
def c14_j(ctx: Ctx):
    """Project.clone never copies *into* an existing job directory (no dirs_exist_ok, neither spelled at the call nor handed in through **kwargs): project-level sync
    relies on the DestinationExistsError of the clone to consult the strategy for conflicting files."""
    R = "C14-j"
    f = ctx.fn("signac.project:Project.clone")
    k = f.qual + "|no-copy-into-existing"
    words = [n for n in body_nodes(f) if (isinstance(n, ast.Constant) and n.value == "dirs_exist_ok") or (isinstance(n, ast.keyword) and n.arg == "dirs_exist_ok")]
    stars = [c for c in body_nodes(f) if isinstance(c, ast.Call) and common.callee_is(ctx, f, c, ("copytree",)) and any(kw.arg is None for kw in c.keywords)]
    if words:
        return [ctx.viol(R, f, words[0], "Project.clone can pass dirs_exist_ok to the tree copy: a destination job that exists is copied over without DestinationExistsError, so the sync "
                         "strategy is never asked about its conflicting files", construct=k)]
    if stars:
        return [ctx.inc(R, f, stars[0], "the tree copy receives **kwargs of unknown content", construct=k)]
    return [ctx.ok(R, f, f.node, "the tree copy of Project.clone fails on an existing destination", construct=k)]

@rule("C14-k")
def c14_k(ctx: Ctx):
    """signac sync: the file strategy comes from FileSync, the --key pattern is applied anchored."""
    from . import cli
    return cli.sync_strategy_origin(ctx, "C14-k")


@rule("C14-l")
def c14_l(ctx: Ctx):
    """Job.sync / Project.sync are pass-through wrappers: the options they hand to sync_jobs / sync_projects under the same name (strategy, doc_sync, exclude, ...) are the
    caller's values - a wrapper that re-binds one of them first (e.g. turns every string doc_sync, including DocSync.COPY == 'copy', into a key pattern) changes
    what the option means only on this path."""
    R = "C14-l"
    out = []
    for q, api in (("signac.job:Job.sync", "sync_jobs"), ("signac.project:Project.sync", "sync_projects")):
        f = ctx.prog.funcs.get(q)
        k = q + "|pass-through"
        if f is None:
            out.append(ctx.inc(R, None, None, f"{q} not found", construct=k))
            continue
        calls = [c for c in body_nodes(f) if isinstance(c, ast.Call) and (dotted(c.func) or "").split(".")[-1] == api]
        if not calls:
            out.append(ctx.inc(R, f, f.node, f"no {api}(...) call", construct=k))
            continue
        same = {kw.arg for c in calls for kw in c.keywords if kw.arg and isinstance(kw.value, ast.Name) and kw.value.id == kw.arg and kw.arg in f.params}
        rebound = [n for n in body_nodes(f) if isinstance(n, ast.Name) and isinstance(n.ctx, ast.Store) and n.id in same]
        if rebound:
            out.append(ctx.viol(R, f, rebound[0], f"the wrapper re-binds its parameter `{rebound[0].id}` before handing it to {api}(): the option means something else through "
                                f"{f.name} than through {api} itself", construct=k))
        else:
            out.append(ctx.ok(R, f, calls[0], f"{len(same)} option(s) are handed to {api}() as received", construct=k))
    return out

RULES = [c14_a, c14_b, c14_c, c14_d, c14_e, c14_f, c14_g, c14_h, c14_i, c14_j, c14_k, c14_l]
