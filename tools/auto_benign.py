#!/venv/bin/python
"""Whole-repository behaviour-preserving transformations; every check must still exit 0 on the transformed copy.

  auto_benign.py unparse          re-emit every module with ast.unparse (positions, comments, quoting, parentheses change)
  auto_benign.py rename-locals    rename every plain local variable `v` of every function to `v_` (parameters, globals,
                                  nonlocals, names captured by nested functions/comprehension-free closures are left alone)
  auto_benign.py swap-branches    `if c: A else: B` -> `if not c: B else: A` for every plain if/else
  auto_benign.py hoist-returns    `return <expr>` -> `tmp = <expr>; return tmp` for call / comparison / boolean / arithmetic results
  auto_benign.py swap-compare     write `a == b` with constant/None left operand the other way round where the operator is
                                  symmetric (==, !=, is, is not)

The transformed copy lives under $TMPDIR and is removed afterwards.  Prints one line per property and exits 1 if a check is
not silent."""
import ast
import os
import shutil
import subprocess
import symtable
import sys
import tempfile

VERIF = os.path.dirname(os.path.dirname(os.path.abspath(__file__)))


def _scope_locals(src):
    """(function lineno, name) -> set of renamable locals."""
    res = {}

    def visit(tab):
        for ch in tab.get_children():
            if ch.get_type() == "function":
                captured = set()

                def free_in(t):
                    for c in t.get_children():
                        for s in c.get_symbols():
                            if s.is_free():
                                captured.add(s.get_name())
                        free_in(c)
                free_in(ch)
                names = set()
                for s in ch.get_symbols():
                    if s.is_local() and not s.is_parameter() and not s.is_global() and not s.is_nonlocal() and not s.is_free() \
                            and s.get_name() not in captured and not s.is_imported() and s.is_assigned() and not s.is_namespace():
                        names.add(s.get_name())
                res[(ch.get_lineno(), ch.get_name())] = names
            visit(ch)
    visit(symtable.symtable(src, "<m>", "exec"))
    return res


class Renamer(ast.NodeTransformer):
    def __init__(self, table):
        self.table = table
        self.stack = []

    def _fn(self, node):
        names = self.table.get((node.lineno, node.name), set())
        # comprehension scopes and class bodies inside keep their own names; nested functions are handled by their own entry
        self.stack.append(names)
        node.body = [self.visit(s) for s in node.body]
        self.stack.pop()
        # decorators / defaults belong to the enclosing scope
        node.decorator_list = [self.visit(d) for d in node.decorator_list]
        return node

    visit_FunctionDef = _fn
    visit_AsyncFunctionDef = _fn

    def visit_Lambda(self, node):
        return node  # lambdas may capture; captured names were excluded already, leave the body alone

    def visit_Name(self, node):
        if self.stack and node.id in self.stack[-1]:
            return ast.copy_location(ast.Name(id=node.id + "_", ctx=node.ctx), node)
        return node

    def visit_ExceptHandler(self, node):
        if self.stack and node.name and node.name in self.stack[-1]:
            node.name = node.name + "_"
        self.generic_visit(node)
        return node

    def visit_ClassDef(self, node):
        self.stack.append(set())
        self.generic_visit(node)
        self.stack.pop()
        return node


class Swapper(ast.NodeTransformer):
    def visit_Compare(self, node):
        self.generic_visit(node)
        if len(node.ops) == 1 and isinstance(node.ops[0], (ast.Eq, ast.NotEq)) and isinstance(node.comparators[0], ast.Constant) \
                and not isinstance(node.left, ast.Constant) and isinstance(node.comparators[0].value, (str, int)) and not isinstance(node.comparators[0].value, bool):
            return ast.copy_location(ast.Compare(left=node.comparators[0], ops=node.ops, comparators=[node.left]), node)
        return node


class BranchSwapper(ast.NodeTransformer):
    """if c: A else: B  ->  if not c: B else: A   (only for a plain else, not for elif chains)"""
    def visit_If(self, node):
        self.generic_visit(node)
        if node.orelse and not (len(node.orelse) == 1 and isinstance(node.orelse[0], ast.If)):
            t = node.test
            nt = t.operand if isinstance(t, ast.UnaryOp) and isinstance(t.op, ast.Not) else ast.UnaryOp(op=ast.Not(), operand=t)
            return ast.copy_location(ast.If(test=nt, body=node.orelse, orelse=node.body), node)
        return node


class Hoister(ast.NodeTransformer):
    """`return <call or comparison>` -> `result_ = <expr>; return result_`  and  `if <call-containing test>:` -> `cond_ = <test>; if cond_:` (first statement level only,
    never inside loops' tests; evaluation order is unchanged)."""
    def __init__(self):
        self.n = 0

    def _body(self, stmts):
        out = []
        for s in stmts:
            s = self.visit(s)
            if isinstance(s, ast.Return) and isinstance(s.value, (ast.Call, ast.Compare, ast.BoolOp, ast.BinOp)):
                self.n += 1
                nm = f"result_{self.n}_"
                out.append(ast.copy_location(ast.Assign(targets=[ast.Name(id=nm, ctx=ast.Store())], value=s.value), s))
                out.append(ast.copy_location(ast.Return(value=ast.Name(id=nm, ctx=ast.Load())), s))
            else:
                out.append(s)
        return out

    def generic_visit(self, node):
        super().generic_visit(node)
        for f in ("body", "orelse", "finalbody"):
            v = getattr(node, f, None)
            if isinstance(v, list) and v and isinstance(v[0], ast.stmt) and not isinstance(node, (ast.Module, ast.ClassDef)):
                setattr(node, f, self._body(v))
        return node


def transform(mode, root):
    n = 0
    for r, d, fs in os.walk(root):
        for f in fs:
            if not f.endswith(".py"):
                continue
            p = os.path.join(r, f)
            src = open(p).read()
            tree = ast.parse(src)
            if mode == "rename-locals":
                tree = Renamer(_scope_locals(src)).visit(tree)
            elif mode == "swap-compare":
                tree = Swapper().visit(tree)
            elif mode == "swap-branches":
                tree = BranchSwapper().visit(tree)
            elif mode == "hoist-returns":
                tree = Hoister().visit(tree)
            ast.fix_missing_locations(tree)
            out = ast.unparse(tree) + "\n"
            compile(out, p, "exec")
            open(p, "w").write(out)
            n += 1
    return n


def main():
    mode = sys.argv[1]
    keep = "--keep" in sys.argv
    tmp = tempfile.mkdtemp(prefix="sigstat-auto-")
    try:
        shutil.copytree("/repo/signac", os.path.join(tmp, "signac"), ignore=shutil.ignore_patterns("__pycache__"))
        n = transform(mode, os.path.join(tmp, "signac"))
        print(f"{mode}: {n} modules transformed in {tmp}")
        bad = 0
        for i in range(1, 21):
            p = f"C{i:02d}"
            r = subprocess.run([os.path.join(VERIF, "check"), p, "--repo", tmp, "--evidence-dir", os.path.join(tmp, "ev"), "--no-selftest"], capture_output=True, text=True, cwd=VERIF)
            lines = [l for l in r.stdout.splitlines() if l.startswith(("VIOLATION rule", "ANALYSIS-ERROR rule"))]
            print(p, "exit", r.returncode, f"({len(lines)} report(s))")
            for l in lines[:6]:
                print("    ", l[:260])
            bad += r.returncode != 0
        print("NOT SILENT:", bad)
        return 1 if bad else 0
    finally:
        if not keep:
            shutil.rmtree(tmp, ignore_errors=True)


sys.exit(main())
