#!/venv/bin/python
"""Self-test of sigstat/inline.py: for synthetic modules, the code with helpers expanded must compute the same results
(return values, raised exception types, side-effect log) as the original. Only the checker's own transformation is executed here."""
import ast, itertools, os, sys
sys.path.insert(0, os.path.dirname(os.path.dirname(os.path.abspath(__file__))))
from sigstat.inline import inline_new_helpers

CASES = []
def case(src, entry, inputs):
    CASES.append((src, entry, inputs))

case('''
LOG = []
def h(a, b):
    if a > b:
        return a
    LOG.append(("h", a, b))
    return b
def f(x, y):
    m = h(x, y)
    return m * 2
''', "f", [(1, 2), (3, 1), (2, 2)])

case('''
LOG = []
def h(a):
    try:
        LOG.append(1 // a)
    except ZeroDivisionError:
        LOG.append("z")
        return False
    LOG.append("ok")
    return True
def f(x):
    if x is not None and not h(x):
        LOG.append("failed")
        return "F"
    return "T"
''', "f", [(0,), (1,), (None,), (5,)])

case('''
LOG = []
def h(job, k):
    try:
        job(k)
    except Exception as e:
        LOG.append(("e1", type(e).__name__))
        try:
            job(k + 1)
        except Exception as e2:
            LOG.append(("e2", type(e2).__name__))
            return False
    return True
def mk(n):
    def job(k):
        if k < n:
            raise ValueError(k)
    return job
def f(n, k):
    ok = h(mk(n), k)
    if not ok:
        LOG.append("corrupt")
    return ok
''', "f", [(0, 0), (1, 0), (2, 0), (5, 5)])

case('''
LOG = []
def walk(items, stop):
    for it in items:
        if it == stop:
            return it
        LOG.append(it)
    return None
def f(items, stop):
    r = walk(items, stop)
    LOG.append(("r", r))
    return r
''', "f", [([1, 2, 3], 2), ([1, 2, 3], 9), ([], 1)])

case('''
LOG = []
def gen(items):
    for i in items:
        if i < 0:
            return
        if i % 2:
            yield i
        else:
            yield from (i, i)
def f(items):
    out = list(gen(items))
    LOG.append(len(out))
    return out
''', "f", [([1, 2, 3],), ([2, -1, 5],), ([],)])

case('''
LOG = []
class K:
    def __init__(self):
        self.v = 3
    def _h(self, a, scale=2):
        if a is None:
            return
        self.v += a * scale
        LOG.append(self.v)
    def _e(self, a):
        return self.v + a
    @staticmethod
    def _s(a, b):
        if a:
            return b
        raise KeyError(b)
    def f(self, a):
        self._h(a)
        self._h(a, scale=3)
        x = self._e(a or 0) + self._e(1)
        return K._s(a, x)
def f(a):
    try:
        return K().f(a)
    except KeyError as e:
        return ("KeyError", e.args)
''', "f", [(None,), (1,), (0,), (4,)])

case('''
LOG = []
def check(a, b):
    if not a or not b:
        return
    if a != b:
        d = a - b
        if d:
            raise ValueError(d)
def f(a, b):
    LOG.append("pre")
    check(a, b)
    LOG.append("post")
    return 1
''', "f", [(set(), {1}), ({1}, {1}), ({1, 2}, {1}), ({1}, set())])

case('''
LOG = []
def build(base, keys):
    ke = {k: True for k in keys}
    if base is None:
        return ke
    return {"and": [ke, base]}
def f(base, key):
    flt = build(base, (key,))
    ke = "outer"
    return flt, ke
''', "f", [(None, "a"), ({"x": 1}, "b")])

case('''
LOG = []
def outer(n):
    def rec(v):
        LOG.append(v)
        if v > 2:
            return "big"
        return "small"
    r = []
    for i in range(n):
        x = rec(i)
        r.append(x)
    return r
''', "outer", [(0,), (5,)])

case('''
LOG = []
import os
def save(tmp, ok):
    try:
        if not ok:
            raise OSError(5, "x")
        LOG.append("written")
    except OSError as error:
        LOG.append("cleanup")
        raise
    else:
        LOG.append("replace")
def f(ok):
    if ok is None:
        return None
    save("t", ok)
    return "done"
def g(ok):
    try:
        return f(ok)
    except OSError as e:
        return "OSError"
''', "g", [(None,), (True,), (False,)])

case('''
LOG = []
def first(xs):
    with open(os.devnull) as fh:
        if xs:
            return xs[0]
        return None
import os
def f(xs):
    v = first(xs)
    return v
''', "f", [([],), ([3, 4],)])


case('''
LOG = []
from contextlib import contextmanager
@contextmanager
def staged(name, fail):
    LOG.append(("open", name))
    try:
        with open(__import__("os").devnull, "w") as fh:
            yield (fh, name)
            LOG.append("published")
    except ValueError:
        LOG.append("cleanup")
        raise
    finally:
        LOG.append("closed")
def f(name, fail):
    try:
        with staged(name, fail) as (fh, nm):
            LOG.append(("body", nm))
            if fail:
                raise ValueError("x")
        LOG.append("after")
        return "ok"
    except ValueError:
        return "failed"
''', "f", [("a", False), ("b", True)])

class _H:
    pass

case('''
LOG = []
class K:
    def __init__(self):
        self.items = []
    def _rekey(self, new):
        self.id = new
        self.items.append(new)
def f(n):
    ks = [K() for _ in range(n)]
    for handle in ks:
        handle._rekey(n)
    return [(k.id, k.items) for k in ks]
''', "f", [(0,), (2,)])


def run(tree, entry, args):
    ns = {}
    exec(compile(tree, "<case>", "exec"), ns)
    try:
        import copy
        r = ("ret", ns[entry](*copy.deepcopy(args)))
    except Exception as e:  # noqa
        r = ("exc", type(e).__name__, e.args)
    return r, ns["LOG"]


def main():
    bad = 0
    for k, (src, entry, inputs) in enumerate(CASES):
        t0 = ast.parse(src)
        known = {"m:" + entry} | {"m:" + n.name for n in t0.body if isinstance(n, ast.FunctionDef) and n.name in (entry, "mk", "g", "f", "outer")} | {"m:K.f", "m:K.__init__", "m:K", "m:LOG", "m:mk.<locals>.job", "m:_H"}
        t1, log = inline_new_helpers("m", ast.parse(src), known)
        ast.fix_missing_locations(t1)
        expanded = [l for l in log if "<-" in l]
        for args in inputs:
            a = run(t0, entry, args)
            b = run(t1, entry, args)
            if a != b:
                bad += 1
                print(f"case {k} args {args}: original {a} != expanded {b}")
                print(ast.unparse(t1))
        print(f"case {k}: {len(expanded)} expansion(s), {len(inputs)} inputs compared; not expanded: {[l for l in log if 'not expanded' in l]}")
    print("INLINE-SELFTEST", "FAIL" if bad else "OK")
    sys.exit(1 if bad else 0)

main()
