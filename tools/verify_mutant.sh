#!/bin/bash
# usage: verify_mutant.sh <dir with patch.diff demo.py> [patchfile] ; prints one summary line
# Confirms: patch applies to /repo HEAD, unedited suite passes with it, demo exits 0 without and !=0 with the change.
d=$1; patch=${2:-$d/patch.diff}
name=$(echo $d | sed 's#.*/\(C[0-9]*\)/\(m[0-9]*\)$#\1-\2#; s#.*/##')
wt=$(mktemp -d /tmp/mv-XXXXXX); rmdir $wt
git -C /repo worktree add -q --detach $wt HEAD || { echo "$name WORKTREE-FAIL"; exit 1; }
cd $wt
PYTHONPATH=$wt timeout 300 /venv/bin/python $d/demo.py >/dev/null 2>&1; clean=$?
if git apply --check $patch 2>/dev/null; then git apply $patch; ap=ok; else if patch -p1 -s --dry-run < $patch >/dev/null 2>&1; then patch -p1 -s < $patch; ap=fuzzy; else ap=FAIL; fi; fi
if [ $ap != FAIL ]; then
  PYTHONPATH=$wt timeout 300 /venv/bin/python $d/demo.py >/dev/null 2>&1; mut=$?
  suite=$(PYTHONPATH=$wt timeout 900 /venv/bin/python -m pytest -q -p no:cacheprovider --timeout=900 --deselect tests/test_shell.py -x 2>&1 | tail -1)
else mut=NA; suite=NA; fi
cd /; git -C /repo worktree remove --force $wt
echo "$name apply=$ap demo_clean=$clean demo_mutant=$mut suite=[$suite]"
