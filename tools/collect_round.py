#!/venv/bin/python
"""verify round-12 candidates with tools/verify_mutant.sh (fresh worktree: demo both ways + suite) and store the confirmed ones in /verif/seeded"""
import os, sys, subprocess, json, shutil
from concurrent.futures import ThreadPoolExecutor
ROUND=12
ORIGIN=("written by an independent sub-agent (round 12: asked for STRUCTURAL REFACTORING commits - rename of a private function, move to another module, method <-> function, "
        "changed private signature, inlining of an existing helper, closure -> functools.partial, loop -> generator helper / built-in, consolidation of near-duplicates - that are almost "
        "behaviour-preserving: one detail inside or next to the moved code changes and breaks the property) that saw only the property text and a scratch worktree of /repo")
head=subprocess.run(['git','-C','/repo','rev-parse','--short','HEAD'],capture_output=True,text=True).stdout.strip()
def one(args):
    p,k=args
    d=f"/tmp/m12/{p}/m{k}"
    if not os.path.isfile(d+"/patch.diff") or not os.path.isfile(d+"/demo.py"): return p,k,None,"missing files"
    r=subprocess.run(['/verif/tools/verify_mutant.sh',d],capture_output=True,text=True)
    return p,k,r.stdout.strip().splitlines()[-1] if r.stdout.strip() else r.stderr[-300:],None
jobs=[(f"C{i:02d}",k) for i in range(1,21) for k in (1,2,3)]
if len(sys.argv)>1: jobs=[j for j in jobs if j[0] in sys.argv[1:]]
with ThreadPoolExecutor(6) as ex:
    for p,k,line,err in ex.map(one,jobs):
        if err: print(p,k,"SKIP",err); continue
        ok=("apply=ok" in line or "apply=fuzzy" in line) and "demo_clean=0" in line and "demo_mutant=0" not in line and "demo_mutant=NA" not in line and "310 passed" in line
        print(p,k,"OK" if ok else "REJECT",line)
        if ok:
            dst=f"/verif/seeded/{p}-r{ROUND}m{k}"
            os.makedirs(dst,exist_ok=True)
            for fn in ("patch.diff","demo.py","notes.md"):
                if os.path.isfile(f"/tmp/m12/{p}/m{k}/{fn}"): shutil.copy(f"/tmp/m12/{p}/m{k}/{fn}",dst)
            files=sorted({l[6:].strip() for l in open(dst+"/patch.diff") if l.startswith("+++ b/")})
            json.dump({"id":f"{p}-r{ROUND}m{k}","property":p,"round":ROUND,"files_changed":files,"origin":ORIGIN,
                       "needs_to_manifest":"see notes.md (written by the sub-agent)",
                       "confirmed_by":f"tools/verify_mutant.sh : fresh worktree of /repo at {head}, demo.py exit 0 without the patch, exit 1 with it, baseline suite with the patch: 310 passed [{line}]"},
                      open(dst+"/meta.json","w"),indent=1)
