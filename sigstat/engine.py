"""sigstat.engine - analysis context shared by all rules + driver helpers."""
from __future__ import annotations

import ast
import importlib
import os
import sys
import time
import traceback
from typing import Dict, List, Optional, Callable, Iterable, Set, Tuple

from .core import (Program, FuncInfo, Folder, AnchorMissing, UNKNOWN, single_assign_env, stmt_key, canon, dotted,
                   call_name, walk_no_nested, body_nodes, resolve_import_name)
from .cfg import CFG, own_exprs
from .calls import Calls, Effects
from .report import Result, OK, VIOLATION, INCONCLUSIVE, INFO


class Ctx:
    def __init__(self, repo: str, tier: str = "quick"):
        self.repo = os.path.abspath(repo)
        self.tier = tier
        self.prog = Program(self.repo, with_main=True)
        if self.prog.parse_errors:
            raise AnchorMissing("source files do not parse: " + "; ".join(self.prog.parse_errors))
        self.calls = Calls(self.prog)
        self.effects = Effects(self.calls)
        self.folder = self.calls.folder
        self._cfg: Dict[str, CFG] = {}
        self._facts: Dict[str, dict] = {}
        self._parents: Dict[str, Dict[int, ast.AST]] = {}
        self._env: Dict[str, dict] = {}
        self._ds: Dict[str, FuncInfo] = {}

    # -- per function caches ----------------------------------------------
    def fn(self, qual: str) -> FuncInfo:
        return self.prog.fn(qual)

    def desugared(self, fi: FuncInfo) -> FuncInfo:
        """The same function with comprehension assignments written as accumulating loops (for rules phrased over loops)."""
        key = fi.qual + "~loops"
        if key not in self._ds:
            from .core import desugar_comprehension_assignments
            node = desugar_comprehension_assignments(fi.node)
            if ast.dump(node) == ast.dump(fi.node):
                self._ds[key] = fi
            else:
                self._ds[key] = FuncInfo(fi.name, key, fi.module, node, fi.cls, fi.parent, list(fi.decorators))
        return self._ds[key]

    def env(self, fi: FuncInfo):
        if fi.qual not in self._env:
            self._env[fi.qual] = single_assign_env(fi)
        return self._env[fi.qual]

    def cfg(self, fi: FuncInfo) -> CFG:
        if fi.qual not in self._cfg:
            self._cfg[fi.qual] = CFG(fi.node, env=None, exc_oracle=self._exc_oracle(fi))
        return self._cfg[fi.qual]

    def _exc_oracle(self, fi: FuncInfo):
        """class knowledge for the CFG's typed re-raise edges: (name, names of all base classes incl. itself) of an exception class expression"""
        from .exc import ExcFacts
        from .core import dotted
        if not hasattr(self, "_excf"):
            self._excf = ExcFacts(self)
        ex = self._excf
        ctx = self

        class Oracle:
            def __call__(self, type_expr):
                nm = dotted(type_expr)
                if not nm:
                    return None
                q = ex.norm(fi.module, nm)
                if not q:
                    return None
                return q, ex.supers(q)

            def related(self, a, b):
                """some class of the program derives from both"""
                for cq in ctx.prog.classes:
                    sup = ex.supers(cq)
                    if a in sup and b in sup:
                        return True
                return False
        return Oracle()

    def facts(self, fi: FuncInfo, kinds="nx"):
        key = fi.qual + "|" + kinds
        if key not in self._facts:
            self._facts[key] = self.cfg(fi).must_facts(kinds)
        return self._facts[key]

    def parents(self, fi: FuncInfo) -> Dict[int, ast.AST]:
        if fi.qual not in self._parents:
            pm = {}
            for n in ast.walk(fi.node):
                for c in ast.iter_child_nodes(n):
                    pm[id(c)] = n
            self._parents[fi.qual] = pm
        return self._parents[fi.qual]

    def stmt_of(self, fi: FuncInfo, node: ast.AST) -> ast.AST:
        """The statement (CFG node AST) whose own expressions contain `node`."""
        cfg = self.cfg(fi)
        pm = self.parents(fi)
        cur = node
        while cur is not None:
            if id(cur) in cfg.ast_nodes:
                # `node` must lie in the header expressions of a compound statement, not in its body
                return cur
            cur = pm.get(id(cur))
        raise AnchorMissing(f"no statement found for node at line {getattr(node, 'lineno', '?')} in {fi.qual}")

    def node_ids(self, fi: FuncInfo, node: ast.AST) -> List[int]:
        return self.cfg(fi).node_ids_for(self.stmt_of(fi, node))

    def fold(self, node, fi: Optional[FuncInfo] = None, module=None):
        return self.folder.fold(node, fi, module, env=self.env(fi) if fi else None)

    def canon(self, node, fi: Optional[FuncInfo] = None):
        return canon(node, self.env(fi) if fi else None)

    # -- call finding ------------------------------------------------------
    def calls_in(self, fi: FuncInfo, ext: Optional[Iterable[str]] = None, attr: Optional[Iterable[str]] = None,
                 internal: Optional[Iterable[str]] = None) -> List[ast.Call]:
        """Call nodes in fi (no nested defs) whose resolved external name is in `ext`, or whose
        attribute/function name is in `attr`, or which resolve to an internal function qual in `internal`."""
        ext = set(ext or ())
        attr = set(attr or ())
        internal = set(internal or ())
        out = []
        for (n, tg, e) in self.calls.callees(fi):
            if not isinstance(n, ast.Call):
                continue
            if e and e in ext:
                out.append(n)
            elif internal and any(t.qual in internal for t in tg):
                out.append(n)
            elif attr:
                nm = n.func.attr if isinstance(n.func, ast.Attribute) else (n.func.id if isinstance(n.func, ast.Name) else None)
                if nm in attr:
                    out.append(n)
        return out

    # -- results -----------------------------------------------------------
    def _mk(self, status, rule, fi, node, detail, construct=None, nontrivial=True, witness=None):
        if fi is not None:
            line = getattr(node, "lineno", fi.node.lineno) if node is not None else fi.node.lineno
            site = f"{fi.module.rel}:{line}"
            fq = fi.qual
            if construct is None:
                construct = fq + "|" + (stmt_key(node) if node is not None else "")
        else:
            site = "-"
            fq = "-"
            construct = construct or ""
        return Result(rule, status, site, fq, " ".join(str(detail).split()), construct, nontrivial, witness)

    def ok(self, rule, fi, node, detail, **kw):
        return self._mk(OK, rule, fi, node, detail, **kw)

    def viol(self, rule, fi, node, detail, **kw):
        return self._mk(VIOLATION, rule, fi, node, detail, **kw)

    def inc(self, rule, fi, node, detail, **kw):
        return self._mk(INCONCLUSIVE, rule, fi, node, detail, **kw)

    def info(self, rule, fi, node, detail, **kw):
        return self._mk(INFO, rule, fi, node, detail, **kw)


def run_rules(ctx: Ctx, rules: List[Callable]) -> List[Result]:
    out: List[Result] = []
    for rule in rules:
        name = getattr(rule, "rule_id", rule.__name__)
        try:
            res = rule(ctx)
            if not res:
                out.append(Result(name, INCONCLUSIVE, "-", "-", "rule produced no instance (vacuous)", name + "|vacuous"))
            else:
                out.extend(res)
        except AnchorMissing as e:
            out.append(Result(name, INCONCLUSIVE, "-", "-", f"anchor missing: {e}", name + "|anchor"))
        except Exception as e:  # a crash of the analysis is never a violation
            tb = traceback.format_exc(limit=4).replace("\n", " | ")
            out.append(Result(name, INCONCLUSIVE, "-", "-", f"analysis crashed: {type(e).__name__}: {e} :: {tb}", name + "|crash"))
    return out


def rule(rule_id: str):
    def deco(f):
        f.rule_id = rule_id
        return f
    return deco
