"""C04 - re-keying, moving and cloning carry all data and never clobber another job."""
import ast

from ..engine import rule, Ctx
from ..core import UNKNOWN, dotted, kwarg, body_nodes, inline, stmt_key, canon, walk_no_nested, resolve_import_name
from ..exc import ExcFacts
from . import common
from .c03 import lazy_fields, id_write_sites, _resets_after, _is_tilde, _own

PROP = "C04"
FLOOR = 14
EXPLANATION = (
    "Decided (structural necessary conditions): (a) in _StatePointDict._save every path from the handler of the failed "
    "directory rename to a raise first renames the parked state point file back; (b) the four sites that create a job "
    "directory by rename/copy (_save, Job.move, Project.clone, import_export._copy_to_job_workspace) map the errno set "
    "required for their primitive to DestinationExistsError and re-raise every other error, copytree is not given "
    "dirs_exist_ok, and update_statepoint(overwrite=...) defaults to False; (c) the id update in _save iterates the whole "
    "shared handle list and unpickled handles register themselves in it; (d) update_statepoint assigns the new state point "
    "only after the loop that raises KeyError for a differing existing key (unless overwrite), and that test does not "
    "conflate a missing key with a None value; (e) every write of <job>._id outside __init__ is accompanied by a write "
    "of the id-derived cached state point; (f) _save skips the migration only when old and new id are equal."
    ' (k) Job.move makes sure the destination workspace directory exists before renaming the job directory into it.'
    ' The roll-back must-pass rule uses typed re-raise edges (a bare raise inside `except OSError` passes by `except DestinationExistsError`); an ENOENT-only fall-through of the re-key handler is accepted (the reference code tolerates it through its enclosing handler). (l) `signac move` is Job.move and nothing else (C04-l).'
)
UNDECIDED = "Byte-identical payloads, both jobs unchanged after DestinationExistsError and independence of deep copies are not decided."

SAVE = "signac.job:_StatePointDict._save"
MOVE = "signac.job:Job.move"
CLONE = "signac.project:Project.clone"
IMPORT_COPY = "signac.import_export:_copy_to_job_workspace"
UPD = "signac.job:Job.update_statepoint"


@rule("C04-a")
def c04_a(ctx: Ctx):
    """Rollback of the parked state point file before any raise out of the failed directory rename."""
    R = "C04-a"
    fi = ctx.fn(SAVE)
    cfg = ctx.cfg(fi)
    out = []
    env = ctx.env(fi)
    # the try whose body renames the job directory (os.replace whose source is not the state point file and target not '~')
    tries = []
    pm = ctx.parents(fi)
    helper_of = {}
    for c in body_nodes(fi):
        rc = common.rename_call(ctx, fi, c)
        if rc is not None and not _is_tilde(ctx, fi, rc[1]) and not _is_tilde(ctx, fi, rc[0]) and canon(rc[0]) != "self.filename":
            helper_of[id(c)] = rc[2]
            cur = pm.get(id(c))
            while cur is not None:
                if isinstance(cur, ast.Try) and common.in_body_of(ctx, fi, c, cur, ("body",)):
                    tries.append((cur, c))
                    break
                cur = pm.get(id(cur))
    if not tries:
        return [ctx.inc(R, fi, fi.node, "no try around the job directory rename found in _save")]
    rollback = set()
    for n in cfg.stmt_nodes():
        for sub in _own(n.ast):
            for c in walk_no_nested(sub):
                if isinstance(c, ast.Call) and common.ext_name(ctx, fi, c) in ("os.replace", "os.rename") and len(c.args) >= 2 \
                        and _is_tilde(ctx, fi, c.args[0]) and canon(c.args[1]) in ("self.filename", "self._filename"):
                    rollback.add(n.id)
    exf = ExcFacts(ctx)
    for tr, call in tries:
        if not tr.handlers:
            out.append(ctx.viol(R, fi, tr, "the directory rename has no handler: a failure leaves the state point parked as '~'"))
            continue
        g = helper_of.get(id(call))
        if g is not None:
            # the rename is done by a helper: whatever the helper raises of its own must reach the roll-back too
            caught = [t for h in tr.handlers for t in exf.handler_type_names(fi, h)]
            missed = sorted(e for e in exf.raised(g) if not exf.catches(caught, e))
            kh = f"{fi.qual}|rollback-covers-helper"
            if missed:
                out.append(ctx.viol(R, fi, tr, f"the directory rename is done by {g.name}(), which can raise {', '.join(m.split(':')[-1] for m in missed)}; the handler that restores the state point "
                                    f"file catches only {[t.split(':')[-1] for t in caught]}: for that error the '~' backup is never renamed back, and a retry on the same handle takes the "
                                    "'job not initialised' branch and switches the id in memory only", construct=kh))
            else:
                out.append(ctx.ok(R, fi, tr, f"every error {g.name}() raises is caught by the roll-back handler", construct=kh))
        for h in tr.handlers:
            for hid in cfg.node_ids_for(h):
                w = cfg.must_pass_after(hid, rollback, exits={cfg.rexit, cfg.exit}, kinds="nx")
                if w is None and rollback:
                    out.append(ctx.ok(R, fi, h, "every path from the failed directory rename to a raise first restores the state point file from its '~' backup"))
                else:
                    out.append(ctx.viol(R, fi, h, "the failed directory rename can raise (or continue) without restoring the state point file from its '~' backup: "
                                        "a refused re-key leaves the source job without its state point file",
                                        witness=cfg.describe_path(w) if w else None))
    return out


def _errno_set_for_raise(ctx, fi, raise_node, errvar):
    """errno constants the raise is conditional on (from must-facts)."""
    facts = common.facts_at(ctx, fi, raise_node, "nx")
    got = set()
    for (text, pol) in facts:
        if not pol:
            continue
        try:
            t = ast.parse(text, mode="eval").body
        except SyntaxError:
            continue
        if isinstance(t, ast.Compare) and len(t.ops) == 1 and canon(t.left).endswith(".errno"):
            c = t.comparators[0]
            if isinstance(t.ops[0], ast.In) and isinstance(c, (ast.Tuple, ast.List, ast.Set)):
                got |= {(dotted(e) or "").split(".")[-1] for e in c.elts}
            elif isinstance(t.ops[0], ast.Eq):
                got.add((dotted(c) or "").split(".")[-1])
    return got


def _enoent_only(ctx, fi, h, ex):
    from .c11 import _only_enoent_silent
    return _only_enoent_silent(ctx, fi, h, ex)


@rule("C04-b")
def c04_b(ctx: Ctx):
    """Destination-exists mapping at the four directory-creating sites; no dirs_exist_ok; overwrite defaults to False."""
    R = "C04-b"
    out = []
    ex = ExcFacts(ctx)
    # (function, predicate on call, required errno set, description)
    sites = [
        (SAVE, lambda fi, c: common.rename_call(ctx, fi, c) is not None and not _is_tilde(ctx, fi, common.rename_call(ctx, fi, c)[1])
            and not _is_tilde(ctx, fi, common.rename_call(ctx, fi, c)[0]) and canon(common.rename_call(ctx, fi, c)[0]) != "self.filename", {"EEXIST", "ENOTEMPTY"}, "rename of the job directory"),
        (MOVE, lambda fi, c: common.rename_call(ctx, fi, c) is not None, {"EEXIST", "ENOTEMPTY"}, "rename of the job directory"),
        (CLONE, lambda fi, c: common.callee_is(ctx, fi, c, ("copytree",)), {"EEXIST"}, "copytree into the new job directory"),
        (IMPORT_COPY, lambda fi, c: common.callee_is(ctx, fi, c, ("copytree",)), {"EEXIST"}, "copytree into the new job directory"),
    ]
    for q, pred, required, desc in sites:
        fi = ctx.fn(q)
        pm = ctx.parents(fi)
        calls = [n for n in body_nodes(fi) if isinstance(n, ast.Call) and pred(fi, n)]
        if not calls:
            out.append(ctx.inc(R, fi, fi.node, f"{desc}: primitive call not found"))
            continue
        q0, fi0 = q, fi
        for c in calls:
            q, fi, pm = q0, fi0, ctx.parents(fi0)
            rc = common.rename_call(ctx, fi, c) if q in (SAVE, MOVE) else None
            if rc is not None and rc[2] is not None:
                # the rename and its error mapping live in a helper: analyse the mapping there
                g = rc[2]
                inner = [x for x in body_nodes(g) if isinstance(x, ast.Call) and common.ext_name(ctx, g, x) in ("os.replace", "os.rename")]
                pg = ctx.parents(g)
                def _in_try(x):
                    cur0 = pg.get(id(x))
                    while cur0 is not None:
                        if isinstance(cur0, ast.Try):
                            return True
                        cur0 = pg.get(id(cur0))
                    return False
                if inner and _in_try(inner[0]):
                    fi, c, pm = g, inner[0], pg
            cur = pm.get(id(c))
            tr = None
            while cur is not None:
                if isinstance(cur, ast.Try) and common.in_body_of(ctx, fi, c, cur, ("body",)):
                    tr = cur
                    break
                cur = pm.get(id(cur))
            if tr is None:
                out.append(ctx.viol(R, fi, c, f"{desc} is not inside a try: an existing destination surfaces as a raw OSError, not DestinationExistsError"))
                continue
            hs = [h for h in tr.handlers if ex.catches(ex.handler_type_names(fi, h), "FileExistsError")]
            if not hs:
                out.append(ctx.viol(R, fi, tr, f"{desc}: no handler catches OSError/FileExistsError"))
                continue
            h = hs[0]
            raises = [x for st in h.body for x in walk_no_nested(st) if isinstance(x, ast.Raise) and x.exc is not None
                      and (dotted(x.exc.func if isinstance(x.exc, ast.Call) else x.exc) or "").endswith("DestinationExistsError")]
            if not raises:
                out.append(ctx.viol(R, fi, h, f"{desc}: the handler never raises DestinationExistsError"))
                continue
            got = set()
            for r in raises:
                got |= _errno_set_for_raise(ctx, fi, r, h.name)
            miss = required - got
            c1 = f"{q}|errno-map"
            if miss:
                out.append(ctx.viol(R, fi, raises[0], f"{desc}: errno {sorted(miss)} is not mapped to DestinationExistsError (mapped: {sorted(got)}); an existing "
                                    "destination is reported as a generic OSError", construct=c1))
            else:
                out.append(ctx.ok(R, fi, raises[0], f"{desc}: {sorted(got)} -> DestinationExistsError (required {sorted(required)})", construct=c1))
            w = common.reraises_on_all_paths(ctx, fi, h)
            c2 = f"{q}|reraise"
            if w is None:
                out.append(ctx.ok(R, fi, h, f"{desc}: every other error is re-raised", construct=c2))
            elif q == SAVE and _enoent_only(ctx, fi, h, ex):
                # the re-key tolerates ENOENT of either rename ("job not initialised": the enclosing handler of the reference code lets exactly that pass)
                out.append(ctx.ok(R, fi, h, f"{desc}: every error other than ENOENT is re-raised", construct=c2))
            else:
                out.append(ctx.viol(R, fi, h, f"{desc}: the handler can fall through without raising: an I/O error is swallowed and the operation reports success",
                                    construct=c2, witness=ctx.cfg(fi).describe_path(w)))
            # dirs_exist_ok
            v = kwarg(c, "dirs_exist_ok")
            if v is not None and ctx.fold(v, fi) is not False:
                out.append(ctx.viol(R, fi, c, "copytree(dirs_exist_ok=...) merges into an existing job directory instead of failing"))
    # defaults
    for q in (CLONE, "signac.import_export:_CopyFromDirectoryExecutor.__call__"):
        fi = ctx.fn(q)
        for n in body_nodes(fi):
            if isinstance(n, ast.Assign) and any(isinstance(t, ast.Name) and t.id == "copytree" for t in n.targets):
                from ..core import resolve_import_name
                full = resolve_import_name(fi.module, dotted(n.value)) if dotted(n.value) else None
                c = f"{q}|default-copytree"
                if full == "shutil.copytree":
                    out.append(ctx.ok(R, fi, n, "default copy function is shutil.copytree (fails on an existing destination)", construct=c))
                elif full and full.startswith(("shutil.", "os.")):
                    out.append(ctx.inc(R, fi, n, f"default copy function is {full}", construct=c))
                elif isinstance(n.value, ast.Call) and (dotted(n.value.func) or "").endswith("partial") and n.value.args \
                        and resolve_import_name(fi.module, dotted(n.value.args[0]) or "") == "shutil.copytree":
                    sl = kwarg(n.value, "symlinks")
                    if sl is not None and ctx.fold(sl, fi) is not False:
                        out.append(ctx.viol(R, fi, n, "the default copy keeps symbolic links as links (symlinks=True): a link that points out of / into the source job dangles in the copy or makes the copy "
                                            "share the source's file, so the clone is neither identical nor independent", construct=c))
                    else:
                        out.append(ctx.inc(R, fi, n, f"default copy function is {canon(n.value)[:60]}", construct=c))
    fi = ctx.fn(UPD)
    d = fi.default_of("overwrite")
    v = ctx.fold(d, fi) if d is not None else UNKNOWN
    c = UPD + "|default:overwrite"
    if v is False:
        out.append(ctx.ok(R, fi, fi.node, "update_statepoint(overwrite=False) by default", construct=c))
    elif v is UNKNOWN:
        out.append(ctx.inc(R, fi, fi.node, "default of overwrite unknown", construct=c))
    else:
        out.append(ctx.viol(R, fi, fi.node, f"update_statepoint(overwrite={v!r}) by default: existing keys are silently altered", construct=c))
    return out


@rule("C04-c")
def c04_c(ctx: Ctx):
    """Every handle copy follows an id change: _save iterates the whole shared list; unpickled handles register themselves."""
    R = "C04-c"
    out = []
    fi = ctx.fn(SAVE)
    pm = ctx.parents(fi)
    sites = [s for s in id_write_sites(ctx) if s[0].qual == SAVE]
    if not sites:
        out.append(ctx.inc(R, fi, fi.node, "_save does not write <job>._id"))
    for f, st, obj in sites:
        cur = pm.get(id(st))
        loop = None
        while cur is not None:
            if isinstance(cur, ast.For):
                loop = cur
                break
            cur = pm.get(id(cur))
        if loop is None:
            out.append(ctx.viol(R, fi, st, "the id is updated on a single handle, not on every copy sharing this state point"))
            continue
        it = canon(loop.iter)
        if it in ("self._jobs", "list(self._jobs)", "tuple(self._jobs)", "iter(self._jobs)", "self._jobs[:]", "self._jobs.copy()"):
            out.append(ctx.ok(R, fi, loop, "the id update iterates the whole shared handle list self._jobs"))
        elif "self._jobs" in it:
            out.append(ctx.viol(R, fi, loop, f"the id update iterates {it}, not all of self._jobs: some handle copies keep the old id"))
        else:
            out.append(ctx.inc(R, fi, loop, f"cannot relate loop iterable {it} to self._jobs"))
    g = ctx.fn("signac.job:Job.__setstate__")
    ok = any(isinstance(n, ast.Call) and isinstance(n.func, ast.Attribute) and n.func.attr == "append" and canon(n.func.value).endswith("._jobs")
             and n.args and isinstance(n.args[0], ast.Name) and n.args[0].id == "self" for n in body_nodes(g))
    if ok:
        out.append(ctx.ok(R, g, g.node, "an unpickled / copied handle appends itself to the shared handle list"))
    else:
        out.append(ctx.viol(R, g, g.node, "__setstate__ does not register the new handle in statepoint._jobs: copies do not follow id changes"))
    return out


def _presence_test_shape(ctx, fi, test, env):
    """Classify the conflict test of update_statepoint: 'ok' | 'none-conflating' | None."""
    t = inline(test, env)
    txt = canon(t)
    # statepoint.get(key, value) != value
    for n in ast.walk(t):
        if isinstance(n, ast.Call) and isinstance(n.func, ast.Attribute) and n.func.attr == "get":
            if len(n.args) == 1 and not n.keywords:
                return "none-conflating"
            if len(n.args) == 2 and isinstance(n.args[1], ast.Constant) and n.args[1].value is None:
                return "none-conflating"
    if isinstance(t, ast.Compare) and len(t.ops) == 1 and isinstance(t.ops[0], ast.NotEq):
        l = t.left
        if isinstance(l, ast.Call) and isinstance(l.func, ast.Attribute) and l.func.attr == "get" and len(l.args) == 2 \
                and canon(l.args[1]) == canon(t.comparators[0]):
            return "ok"
    if isinstance(t, ast.BoolOp) and isinstance(t.op, ast.And) and len(t.values) == 2:
        a, b = t.values
        if isinstance(a, ast.Compare) and isinstance(a.ops[0], ast.In) and isinstance(b, ast.Compare) and isinstance(b.ops[0], ast.NotEq) \
                and isinstance(b.left, ast.Subscript):
            return "ok"
    return None


def _ancestors(ctx, fi, node):
    par = ctx.parents(fi)
    p = par.get(id(node))
    while p is not None:
        yield p
        p = par.get(id(p))


@rule("C04-d")
def c04_d(ctx: Ctx):
    """update_statepoint assigns only after the conflicting-key pre-check (unless overwrite); the check does not conflate missing with None."""
    R = "C04-d"
    fi = ctx.fn(UPD)
    cfg = ctx.cfg(fi)
    env = ctx.env(fi)
    out = []
    assigns = [n for n in cfg.stmt_nodes() if isinstance(n.ast, ast.Assign) and any(
        isinstance(t, ast.Attribute) and t.attr in ("statepoint", "sp") and dotted(t.value) == "self" for t in n.ast.targets)]
    if not assigns:
        # positive pattern: the live state point (self.statepoint, not a copy obtained by calling it) is written key by key
        live = {"self.statepoint", "self.sp"}
        for n in body_nodes(fi):
            if isinstance(n, ast.Assign) and len(n.targets) == 1 and isinstance(n.targets[0], ast.Name) and canon(n.value) in live:
                live.add(n.targets[0].id)
        for n in cfg.stmt_nodes():
            if n.kind != "stmt":
                continue
            a = n.ast
            tg = a.targets[0] if isinstance(a, ast.Assign) and len(a.targets) == 1 else None
            per_key = isinstance(tg, ast.Subscript) and canon(tg.value) in live
            in_loop = any(isinstance(p, (ast.For, ast.While)) for p in _ancestors(ctx, fi, a))
            bulk = [c for c in walk_no_nested(a) if isinstance(c, ast.Call) and isinstance(c.func, ast.Attribute) and c.func.attr in ("update", "setdefault") and canon(c.func.value) in live]
            if bulk:
                return [ctx.viol(R, fi, a, f"update_statepoint applies `{canon(bulk[0])[:50]}` to the live state point: the collection saves (and re-keys the job) when the call is left even if a "
                                 "later key of the same update was rejected (invalid key / value), so a refused update has already migrated the job to a half-updated state point")]
            if per_key and in_loop:
                return [ctx.viol(R, fi, a, f"update_statepoint writes the live state point key by key ({canon(tg)} = ...): every assignment re-keys (moves) the job on its own, so a "
                                 "conflict or a refused move at a later key leaves the job renamed by the earlier keys - the update is not all-or-nothing")]
        return [ctx.inc(R, fi, fi.node, "update_statepoint does not assign self.statepoint")]
    loops = []
    for n in cfg.stmt_nodes():
        if isinstance(n.ast, ast.For) and "update" in canon(common.inline_at(ctx, fi, n.ast.iter, n.ast)):
            ifs = [x for st in n.ast.body for x in walk_no_nested(st) if isinstance(x, ast.If)
                   and any(isinstance(y, ast.Raise) for s2 in x.body for y in walk_no_nested(s2))]
            for x in ifs:
                r = [y for s2 in x.body for y in walk_no_nested(s2) if isinstance(y, ast.Raise)][0]
                nm = dotted(r.exc.func if isinstance(r.exc, ast.Call) else r.exc) if r.exc is not None else None
                if nm == "KeyError":
                    loops.append((n, x))
    if not loops:
        return [ctx.viol(R, fi, assigns[0].ast, "update_statepoint has no loop raising KeyError for conflicting keys: existing values are silently altered")]
    loop_ids = {n.id for n, _ in loops}
    for a in assigns:
        paths, trunc = cfg.paths_to(a.id, kinds="n")
        bad = None
        for path, facts in paths:
            facts = common.expand_facts(ctx, fi, facts)
            if ("overwrite", True) in facts:
                continue
            if not any(i in loop_ids for i in path):
                bad = path
        if bad:
            out.append(ctx.viol(R, fi, a.ast, "the new state point is assigned on a path that skips the conflicting-key check although overwrite is not set",
                                witness=cfg.describe_path(bad)))
        else:
            out.append(ctx.ok(R, fi, a.ast, "the assignment is preceded by the conflicting-key check on every path with overwrite unset"))
    # nothing is applied before every key has been checked
    muts = []
    for n2 in cfg.stmt_nodes():
        a2 = n2.ast
        if isinstance(a2, ast.Assign):
            for t in a2.targets:
                tt = canon(t)
                if tt.startswith(("self.statepoint", "self.sp", "self._statepoint")) or (isinstance(t, ast.Subscript) and canon(t.value) in ("statepoint", "sp") and False):
                    muts.append(n2)
    raises = [n2 for n2 in cfg.stmt_nodes() if isinstance(n2.ast, ast.Raise) and n2.ast.exc is not None
              and (dotted(n2.ast.exc.func if isinstance(n2.ast.exc, ast.Call) else n2.ast.exc) or "") == "KeyError"]
    late = [r for r in raises if any(r.id in cfg.reachable([m.id], kinds="n") for m in muts)]
    if late:
        out.append(ctx.viol(R, fi, late[0].ast, "the KeyError for a conflicting key can be raised after an earlier key of the same update has already been assigned to the live state point: "
                            "a rejected update_statepoint has re-keyed the job (and intermediate state points can collide with other jobs)"))
    elif muts and raises:
        out.append(ctx.ok(R, fi, muts[0].ast, "the state point is assigned once, after every key has been checked"))
    upd_par = [p for p in fi.params if p not in ("self", "overwrite")]
    up = upd_par[0] if upd_par else "update"
    for n, x in loops:
        it = common.inline_at(ctx, fi, n.ast.iter, n.ast)
        kspace = fi.qual + "|check-key-space"
        if canon(it).replace(" ", "") in (f"{up}.items()", f"{up}", f"{up}.keys()"):
            out.append(ctx.ok(R, fi, n.ast, f"the conflict check ranges over the top-level keys of `{up}`, the keys the merge assigns", construct=kspace))
        elif any(isinstance(c, ast.Call) and any("_nested_dicts_to_dotted_keys" in q or "flatten" in q for q in common.targets_of(ctx, fi, c)) for c in ast.walk(it)):
            out.append(ctx.viol(R, fi, n.ast, f"the conflict check ranges over the flattened (dotted) leaves of `{up}` while the merge replaces whole top-level values: a nested mapping with fewer "
                                "keys, a scalar replacing a mapping or a mapping replacing a scalar passes the check, so existing keys are dropped or altered without KeyError", construct=kspace))
        else:
            out.append(ctx.inc(R, fi, n.ast, f"the conflict check iterates {canon(it)[:50]}", construct=kspace))
    for n, x in loops:
        shape = _presence_test_shape(ctx, fi, x.test, env)
        if shape == "ok":
            out.append(ctx.ok(R, fi, x, "conflict test: existing value (missing => new value) differs from the new value"))
        elif shape == "none-conflating":
            out.append(ctx.viol(R, fi, x, "the conflict test looks the key up with .get(key) (default None): an existing key whose value is None "
                                "(JSON null) is treated as missing and silently overwritten"))
        else:
            out.append(ctx.inc(R, fi, x, "conflict test shape not recognised: " + stmt_key(x.test, 80)))
    return out


@rule("C04-e")
def c04_e(ctx: Ctx):
    """The id-derived cached state point is refreshed wherever <job>._id is written."""
    R = "C04-e"
    out = []
    path_d, id_d = lazy_fields(ctx)
    if "_cached_statepoint" not in id_d:
        return [ctx.inc(R, None, None, f"computed id-derived lazy fields {sorted(id_d)} do not include _cached_statepoint", construct="id-derived-set")]
    sites = id_write_sites(ctx)
    if not sites:
        return [ctx.inc(R, None, None, "no write of <job>._id outside __init__", construct="id-sites")]
    for f, st, obj in sites:
        if obj is None:
            out.append(ctx.inc(R, f, st, "id written on a complex object expression"))
            continue
        out += _resets_after(ctx, R, f, st, obj, id_d, "the id change")
        # the refreshed value must survive the rest of the iteration: nothing that runs afterwards may put the field back to 'unknown' (None) - for a job that
        # is not initialised there is nothing to reload it from
        cfg = ctx.cfg(f)
        fresh = [n for n in cfg.stmt_nodes() if isinstance(n.ast, ast.Assign) and any(isinstance(t, ast.Attribute) and t.attr == "_cached_statepoint" and dotted(t.value) == obj for t in n.ast.targets)
                 and not (isinstance(n.ast.value, ast.Constant) and n.ast.value.value is None)]
        wipes = []
        for n in cfg.stmt_nodes():
            a = n.ast
            if isinstance(a, ast.Assign) and any(isinstance(t, ast.Attribute) and t.attr == "_cached_statepoint" and dotted(t.value) == obj for t in a.targets) \
                    and isinstance(a.value, ast.Constant) and a.value.value is None:
                wipes.append((n, "assignment of None"))
            for sub in _own(a):
                for c in walk_no_nested(sub):
                    if isinstance(c, ast.Call) and isinstance(c.func, ast.Attribute) and dotted(c.func.value) == obj:
                        for tq in common.targets_of(ctx, f, c):
                            g = ctx.prog.funcs.get(tq)
                            if g is not None and any(isinstance(x, ast.Assign) and isinstance(x.value, ast.Constant) and x.value.value is None
                                                     and any(isinstance(t, ast.Attribute) and t.attr == "_cached_statepoint" and dotted(t.value) == "self" for t in x.targets)
                                                     for x in body_nodes(g)):
                                wipes.append((n, f"{tq.split(':')[-1]}() sets it to None"))
        kq = f"{f.qual}|cached-statepoint-survives|{obj}"
        bad = None
        for fr in fresh:
            after = cfg.reachable([fr.id], kinds="n") - {fr.id}
            for wn, why in wipes:
                if wn.id in after and cfg.path(fr.id, {wn.id}, blocked={x.id for x in fresh} - {fr.id}, kinds="n", from_successors=True) is not None:
                    bad = bad or (wn, why)
        if fresh and bad:
            out.append(ctx.viol(R, f, bad[0].ast, f"after {obj}._cached_statepoint received the new state point, {bad[1]} in the same pass: for a job that is not initialised the handle "
                                "(and every shallow copy of it) then has no way to recover its state point - cached_statepoint / repr raise KeyError", construct=kq))
        elif fresh:
            out.append(ctx.ok(R, f, fresh[0].ast, f"the refreshed {obj}._cached_statepoint is not wiped again in the same pass", construct=kq))
        elif wipes and f.qual == SAVE:
            out.append(ctx.viol(R, f, wipes[0][0].ast, f"when the state point (and id) changes, {obj}._cached_statepoint is only put back to 'unknown' ({wipes[0][1]}) and never given the new "
                                "state point: for a job that is not initialised there is nothing to reload it from - the new state point exists only in memory - so cached_statepoint / repr of "
                                "the handle and of its shallow copies raise KeyError(new id)", construct=kq))
    return out


@rule("C04-f")
def c04_f(ctx: Ctx):
    """_save skips the directory migration only when the old and the new id are equal."""
    R = "C04-f"
    fi = ctx.fn(SAVE)
    cfg = ctx.cfg(fi)
    env = ctx.env(fi)
    out = []
    renames = {n.id for n in cfg.stmt_nodes() for sub in _own(n.ast) for c in walk_no_nested(sub)
               if isinstance(c, ast.Call) and common.ext_name(ctx, fi, c) in ("os.replace", "os.rename")}
    if not renames:
        return [ctx.inc(R, fi, fi.node, "no rename in _save")]
    IN = ctx.facts(fi, "n")
    n_ret = 0
    for n in cfg.stmt_nodes():
        if not isinstance(n.ast, ast.Return):
            continue
        if cfg.must_pass_before(n.id, renames, kinds="n") is None:
            continue  # after the migration
        n_ret += 1
        facts = IN[n.id] or frozenset()
        ok = False
        for (text, pol) in facts:
            if not pol:
                continue
            try:
                t = ast.parse(text, mode="eval").body
            except SyntaxError:
                continue
            if isinstance(t, ast.Compare) and len(t.ops) == 1 and isinstance(t.ops[0], ast.Eq):
                a, b = inline(t.left, env), inline(t.comparators[0], env)
                def is_new(e):
                    return isinstance(e, ast.Call) and "signac.job:calc_id" in common.targets_of(ctx, fi, e)
                def is_old(e):
                    return isinstance(e, ast.Attribute) and e.attr in ("_id", "id")
                if (is_new(a) and is_old(b)) or (is_new(b) and is_old(a)):
                    ok = True
        if ok:
            out.append(ctx.ok(R, fi, n.ast, "early return only under old id == calc_id(new state point)"))
        else:
            out.append(ctx.viol(R, fi, n.ast, f"_save returns before migrating the job although the ids are not known to be equal (facts: {sorted(facts)}): "
                                "a state point change that is equal under Python == but different as JSON (1 vs 1.0) keeps the old id"))
    if n_ret == 0:
        out.append(ctx.ok(R, fi, fi.node, "no early return before the migration", nontrivial=False))
    # the new id is computed from the collection itself
    new_ids = [n for n in body_nodes(fi) if isinstance(n, ast.Call) and "signac.job:calc_id" in common.targets_of(ctx, fi, n)]
    for c in new_ids:
        if c.args and isinstance(c.args[0], ast.Name) and c.args[0].id == "self":
            out.append(ctx.ok(R, fi, c, "the new id is calc_id(self)"))
        else:
            out.append(ctx.viol(R, fi, c, f"the new id is computed from {stmt_key(c.args[0], 40) if c.args else 'nothing'}, not from the state point collection itself"))
    return out


@rule("C04-g")
def c04_g(ctx: Ctx):
    """move() re-binds everything that depends on the project (same obligation as the move part of C03-b)."""
    from .c03 import c03_b
    res = [r for r in c03_b(ctx) if r.function.endswith("Job.move") or "|binds|" in r.construct or r.construct.endswith("|scope")]
    for r in res:
        r.rule = "C04-g"
    return res


@rule("C04-h")
def c04_h(ctx: Ctx):
    """clone() / move() copy from the source job into a handle opened in the target project from the source's own state point."""
    R = "C04-h"
    out = []
    for q, recv in ((CLONE, "self"), (MOVE, "project")):
        fi = ctx.fn(q)
        # the destination handle: the local bound to a job opened with open_job (whatever it is called)
        dsts = [n for n in body_nodes(fi) if isinstance(n, ast.Assign) and len(n.targets) == 1 and isinstance(n.targets[0], ast.Name) and isinstance(n.value, ast.Call)
                and (n.targets[0].id == "dst" or "signac.project:Project.open_job" in common.targets_of(ctx, fi, n.value))]
        dname = dsts[0].targets[0].id if dsts else "dst"
        if not dsts:
            out.append(ctx.inc(R, fi, fi.node, "no local is bound to a destination handle (open_job)"))
        for d in dsts:
            v = d.value
            ok = isinstance(v, ast.Call) and "signac.project:Project.open_job" in common.targets_of(ctx, fi, v) and canon(v.func.value) == recv
            arg = common.inline_at(ctx, fi, v.args[0], d) if ok and v.args else None
            src_sp = arg is not None and canon(arg) in ("job.statepoint()", "self.statepoint()", "job.sp()", "self.sp()")
            if ok and src_sp:
                out.append(ctx.ok(R, fi, d, f"the destination handle is {recv}.open_job(<a plain copy of the source's state point>)"))
            elif ok:
                out.append(ctx.viol(R, fi, d, f"the destination handle is opened from {canon(v.args[0]) if v.args else '?'}, not from a copy of the source job's state point"))
            else:
                out.append(ctx.viol(R, fi, d, f"the destination handle is {canon(v)[:60]}, not a job opened in the target project"))
        prim = [c for c in body_nodes(fi) if isinstance(c, ast.Call) and (common.callee_is(ctx, fi, c, ("copytree",)) or common.ext_name(ctx, fi, c) in ("os.replace", "os.rename"))]
        for c in prim:
            a = [canon(x) for x in c.args[:2]]
            want = ["job.path", dname + ".path"] if q == CLONE else ["self.path", dname + ".path"]
            if a == want:
                out.append(ctx.ok(R, fi, c, f"{canon(c.func)}({want[0]}, {want[1]}): from the source job's directory to the destination handle's directory"))
            elif a == list(reversed(want)):
                out.append(ctx.viol(R, fi, c, f"{canon(c)}: source and destination are swapped"))
            else:
                out.append(ctx.inc(R, fi, c, f"arguments {a} are not the two job directories"))
        rets = [n for n in body_nodes(fi) if isinstance(n, ast.Return) and n.value is not None]
        if q == CLONE:
            if rets and all(canon(r.value) == dname for r in rets):
                out.append(ctx.ok(R, fi, rets[0], "clone returns the destination handle"))
            else:
                out.append(ctx.viol(R, fi, fi.node, "clone does not return the destination handle"))
    return out


@rule("C04-i")
def c04_i(ctx: Ctx):
    """Whole-module cross-checks: no exchanged positional arguments in resolved internal calls; diagnostics (logging / warnings) do no work."""
    from .lints import swapped_arguments, pure_logging
    return swapped_arguments(ctx, "C04-i", ['signac.job', 'signac.project']) + pure_logging(ctx, "C04-i", ['signac.job'])


@rule("C04-j")
def c04_j(ctx: Ctx):
    """clone() copies the whole job directory: no ignore= filter (neither at the call nor baked into the default copy function)."""
    R = "C04-j"
    f = ctx.fn(CLONE)
    ign = [c for c in body_nodes(f) if isinstance(c, ast.Call) and kwarg(c, "ignore") is not None and ctx.fold(kwarg(c, "ignore"), f) is not None]
    pats = [c for c in body_nodes(f) if isinstance(c, ast.Call) and common.ext_name(ctx, f, c) == "shutil.ignore_patterns"]
    k = CLONE + "|copies-everything"
    if ign or pats:
        c = (ign or pats)[0]
        return [ctx.viol(R, f, c, f"Project.clone filters what it copies ({canon(c)[:60]}): payload files whose names match the pattern are silently left out of the clone (and of every job a "
                         "project sync clones; a second sync then copies them, so repeating the sync changes the destination)", construct=k)]
    return [ctx.ok(R, f, f.node, "Project.clone passes no ignore filter to the copy function", construct=k)]


@rule("C04-k")
def c04_k(ctx: Ctx):
    """Job.move makes sure the destination workspace directory exists before it renames the job directory into it (signac tolerates a missing
    workspace everywhere else; without the directory the rename fails with ENOENT, which move() reports as 'job not initialized')."""
    R = "C04-k"
    fi = ctx.fn(MOVE)
    cfg = ctx.cfg(fi)
    out = []
    k = MOVE + "|destination-workspace-created"
    renames = [c for c in body_nodes(fi) if isinstance(c, ast.Call) and common.rename_call(ctx, fi, c) is not None]
    if not renames:
        return [ctx.inc(R, fi, fi.node, "no rename in Job.move", construct=k)]
    mk = set()
    for n in cfg.stmt_nodes():
        if n.kind != "stmt":
            continue
        for c in walk_no_nested(n.ast):
            if not isinstance(c, ast.Call):
                continue
            e = common.ext_name(ctx, fi, c)
            hit = e in ("os.makedirs", "os.mkdir")
            if not hit:
                for tq in common.targets_of(ctx, fi, c):
                    g = ctx.prog.funcs.get(tq)
                    if g is not None and not g.module.is_dep:
                        effs, _ = ctx.effects.transitive([g])
                        kinds = {x.kind for x in effs}
                        if "mkdir" in kinds and not (kinds & {"rename", "delete", "open-write", "write", "docmut"}):
                            hit = True
            if hit and c.args and "workspace" in canon(common.inline_at(ctx, fi, c.args[0], c)):
                mk.add(n.id)
    for c in renames:
        bad = None
        for nid in ctx.node_ids(fi, c):
            bad = bad or cfg.must_pass_before(nid, mk, kinds="n")
        if mk and bad is None:
            out.append(ctx.ok(R, fi, c, "the destination project's workspace directory is created (if missing) before the job directory is renamed into it", construct=k))
        else:
            out.append(ctx.viol(R, fi, c, "Job.move renames the job directory into the destination workspace without making sure that directory exists: a destination project whose (empty) "
                                "workspace directory was removed after the handle was created makes the move fail with ENOENT, which the neighbouring handler reports as 'job is not "
                                "initialized' - the initialised job is neither moved nor correctly diagnosed", witness=cfg.describe_path(bad) if bad else None, construct=k))
    return out


@rule("C04-l")
def c04_l(ctx: Ctx):
    """signac move is Job.move and nothing else (no copy-and-delete fall-back)."""
    from . import cli
    return cli.move_delegates(ctx, "C04-l")


RULES = [c04_a, c04_b, c04_c, c04_d, c04_e, c04_f, c04_g, c04_h, c04_i, c04_j, c04_k, c04_l]
