#!/venv/bin/python
"""Regenerate the machine-derived parts of DESIGN.md (between <!-- BEGIN:x --> / <!-- END:x --> markers):
rules per property (from rule docstrings + today's instance counts) and the seeded-change kill matrix."""
import os, sys, json, importlib, re, glob
VERIF = os.path.dirname(os.path.dirname(os.path.abspath(__file__)))
sys.path.insert(0, VERIF)
from sigstat.engine import Ctx, run_rules
from sigstat.report import OK, VIOLATION, INCONCLUSIVE

def rules_section():
    ctx = Ctx('/repo')
    out = []
    props = [json.loads(l) for l in open(os.path.join(VERIF, 'properties.jsonl'))]
    for p in props:
        pid = p['id']
        mod = importlib.import_module(f'sigstat.rules.{pid.lower()}')
        res = run_rules(ctx, mod.RULES)
        out.append(f"### {pid} — {p['title']}\n")
        out.append(f"*Decided:* {mod.EXPLANATION}\n")
        out.append(f"*Not decided:* {getattr(mod, 'UNDECIDED', '')}\n")
        out.append("| rule | what it checks | instances today (OK / finding) |\n|---|---|---|")
        for r in mod.RULES:
            rid = r.rule_id
            doc = (r.__doc__ or '').strip().split('\n\n')[0].replace('\n', ' ')
            ok = sum(1 for x in res if x.rule == rid and x.status == OK)
            v = sum(1 for x in res if x.rule == rid and x.status == VIOLATION)
            out.append(f"| {rid} | {doc} | {ok} / {v} |")
        out.append(f"\nInstance floor (run fails with exit 2 below it): {mod.FLOOR}.\n")
    return '\n'.join(out)

def matrix_section():
    exp = json.load(open(os.path.join(VERIF, 'seeded', 'expected.json')))
    out = ["| seeded change | files | needs, to manifest | detected by (rule of first report) |", "|---|---|---|---|"]
    for mid in sorted(exp):
        d = os.path.join(VERIF, 'seeded', mid)
        meta = json.load(open(os.path.join(d, 'meta.json'))) if os.path.isfile(os.path.join(d, 'meta.json')) else {}
        files = ', '.join(f.replace('signac/', '') for f in meta.get('files_changed', [])) or re.findall(r'^\+\+\+ b/signac/(\S+)', open(os.path.join(d, 'patch.diff')).read(), re.M)[0]
        needs = meta.get('summary') or meta.get('origin', '')[:110]
        notes = os.path.join(d, 'notes.md')
        if os.path.isfile(notes):
            txt = ' '.join(open(notes).read().split())
            needs = txt[:170] + ('…' if len(txt) > 170 else '')
        out.append(f"| {mid} | {files} | {needs} | {', '.join(exp[mid]) or '**not detected**'} |")
    ben = sorted(glob.glob(os.path.join(VERIF, 'seeded', 'benign', '*.json')))
    out.append(f"\n{len(exp)} seeded changes, {sum(1 for v in exp.values() if v)} detected. {len(ben)} benign variants, all silent for all 20 checks:\n")
    for b in ben:
        v = json.load(open(b))
        out.append(f"* `{v['id']}` ({', '.join(v['props'])}): {v['why_benign']}")
    return '\n'.join(out)

def main():
    p = os.path.join(VERIF, 'DESIGN.md')
    s = open(p).read()
    for name, fn in (('rules', rules_section), ('matrix', matrix_section)):
        b, e = f'<!-- BEGIN:{name} -->', f'<!-- END:{name} -->'
        if b in s and e in s:
            s = s[:s.index(b) + len(b)] + '\n' + fn() + '\n' + s[s.index(e):]
    open(p, 'w').write(s)
    print('DESIGN.md tables regenerated')
main()
