"""C03 - the workspace equals a simple model after any history of API operations."""
import ast
import os
import re

from ..engine import rule, Ctx
from ..core import UNKNOWN, dotted, kwarg, body_nodes, inline, stmt_key, canon, walk_no_nested  # noqa
from . import common

PROP = "C03"
FLOOR = 12
EXPLANATION = (
    "Decided (structural necessary conditions): (a) Project._job_dirs yields a directory name only under an exact match "
    "of the job-id pattern (fullmatch, or match with an end-anchored pattern) whose width is JOB_ID_LENGTH=32 lowercase hex; "
    "(b) the lazily initialised, path-derived per-handle fields of Job (computed from the `if self.X is None` getters: "
    "_path, _document, _stores) are reset on every path after a write of <job>._id outside __init__, after a successful "
    "rmtree in remove() (together with _directory_known=False), and move() adopts the complete state of the destination "
    "handle (or re-binds project, lazy fields and the state point object); (c) every function that creates a '<file>~' "
    "temporary consumes it (rename back / remove) on every path to a return or an explicit raise; (d) Job.clear never "
    "deletes the state point file."
    ' A listing filter written as a length-and-alphabet test is decided by the alphabet it accepts (lower-case hex only).'
    ' (h) The job listing does not single out symbolic links (membership follows them); (i) move() creates the destination workspace directory before the rename.'
    ' (j) schema-import consistency check compared as values (from C16-n); (k) clear() / remove() / reset() delete paths as listed, never what a link resolves to (C03-k). The lazy-field reset is judged at the id write sites when the reset helper was written out.'
)
UNDECIDED = ("Equality of the workspace with a model after arbitrary operation histories, check() after every step, several "
             "handles and pickling are behavioural and not decided.")

JOBDIRS = "signac.project:Project._job_dirs"
JOB = "signac.job:Job"


def _regex_facts(pattern: str):
    import re._parser as sre_parse  # stdlib regex AST
    p = sre_parse.parse(pattern)
    lo, hi = p.getwidth()
    items = list(p)
    end_anchored = bool(items) and items[-1][0] == sre_parse.AT and items[-1][1] in (sre_parse.AT_END, sre_parse.AT_END_STRING)
    return lo, hi, end_anchored


def _regex_alphabet(pattern: str):
    """(explicit characters, [categories]) of a pattern that is one character class repeated a fixed number of times (optionally end-anchored), else None."""
    import re._parser as sp
    try:
        items = list(sp.parse(pattern))
    except Exception:
        return None
    items = [it for it in items if it[0] != sp.AT]
    if len(items) != 1 or items[0][0] not in (sp.MAX_REPEAT, sp.MIN_REPEAT):
        return None
    lo, hi, sub = items[0][1]
    sub = list(sub)
    if len(sub) != 1:
        return None
    op, av = sub[0]
    chars, cats = set(), []
    if op == sp.LITERAL:
        chars.add(chr(av))
    elif op == sp.IN:
        for (o2, a2) in av:
            if o2 == sp.LITERAL:
                chars.add(chr(a2))
            elif o2 == sp.RANGE:
                chars |= {chr(c) for c in range(a2[0], a2[1] + 1)}
            elif o2 == sp.CATEGORY:
                cats.append(str(a2).split("_", 1)[-1].lower())
            elif o2 == sp.NEGATE:
                return None
            else:
                return None
    elif op == sp.CATEGORY:
        cats.append(str(av))
    else:
        return None
    return chars, cats


@rule("C03-a")
def c03_a(ctx: Ctx):
    """Only exactly-id-named directories are jobs: pattern + re API at the listing filter constitute an exact match."""
    R = "C03-a"
    fi = ctx.fn(JOBDIRS)
    out = []
    idlen = ctx.fold(ast.Name(id="JOB_ID_LENGTH", ctx=ast.Load()), fi)
    matches = []
    for n in body_nodes(fi):
        if isinstance(n, ast.Call) and isinstance(n.func, ast.Attribute) and n.func.attr in ("match", "fullmatch", "search", "finditer", "findall"):
            base = n.func.value
            if dotted(base) == "re":
                pat = ctx.fold(n.args[0], fi) if n.args else UNKNOWN
                if isinstance(pat, tuple) and pat and pat[0] == "re.compile":
                    pat = pat[1]
            else:
                pat = ctx.fold(base, fi)
                pat = pat[1] if isinstance(pat, tuple) and pat and pat[0] == "re.compile" else UNKNOWN
            flags = None
            raw = ctx.fold(n.args[0], fi) if (dotted(base) == "re" and n.args) else ctx.fold(base, fi)
            if isinstance(raw, tuple) and len(raw) > 2:
                flags = raw[2]
            if dotted(base) == "re":
                fl = n.args[2] if len(n.args) > 2 else kwarg(n, "flags")
                if fl is not None:
                    flags = canon(fl)
            if flags:
                if any(x in flags for x in ("IGNORECASE", "re.I", "(?i)")):
                    out.append(ctx.viol(R, fi, n, f"the id pattern is applied case-insensitively ({flags}): directories named like an upper-case id are listed as jobs although "
                                        "no state point hashes to such a name", construct=JOBDIRS + "|flags"))
                else:
                    out.append(ctx.inc(R, fi, n, f"regular expression flags {flags} on the id pattern", construct=JOBDIRS + "|flags"))
            matches.append((n, n.func.attr, pat))
    yields = [n for n in body_nodes(fi) if isinstance(n, (ast.Yield, ast.YieldFrom))]
    if not yields:
        return [ctx.inc(R, fi, fi.node, "_job_dirs does not yield")]
    if not matches:
        # a length-and-alphabet test: decide it by the alphabet it accepts (ids are 32 lower-case hex digits)
        import string as _string
        STD = {"string.hexdigits": _string.hexdigits, "string.digits": _string.digits, "string.ascii_lowercase": _string.ascii_lowercase,
               "string.ascii_letters": _string.ascii_letters, "string.ascii_uppercase": _string.ascii_uppercase}

        def alphabet(e, depth=0):
            e = common.inline_at(ctx, fi, e, e) if depth == 0 else e
            if isinstance(e, ast.Name) and e.id in fi.module.consts and depth < 3:
                return alphabet(fi.module.consts[e.id], depth + 1)
            if isinstance(e, ast.Call) and isinstance(e.func, ast.Name) and e.func.id in ("set", "frozenset") and len(e.args) == 1:
                return alphabet(e.args[0], depth + 1)
            if isinstance(e, ast.BinOp) and isinstance(e.op, ast.Add):
                a, b = alphabet(e.left, depth + 1), alphabet(e.right, depth + 1)
                return None if a is None or b is None else a | b
            d = dotted(e)
            if d in STD:
                return set(STD[d])
            v = ctx.fold(e, fi)
            if isinstance(v, str):
                return set(v)
            if isinstance(v, (set, frozenset, tuple, list)) and all(isinstance(x, str) and len(x) == 1 for x in v):
                return set(v)
            return None
        alpha = None
        site = None
        for n in body_nodes(fi):
            for pat in ("S.issuperset(D)", "set(D) <= S", "set(D).issubset(S)"):
                b = common.pmatch(pat, n) if isinstance(n, ast.expr) else None
                if b is not None:
                    alpha, site = alphabet(b["S"]), n
        lens = [n for n in body_nodes(fi) if isinstance(n, ast.Compare) and common.pmatch("len(D) == N", n) is not None]
        if site is not None and alpha is not None:
            want = set("0123456789abcdef")
            ln = ctx.fold(common.pmatch("len(D) == N", lens[0])["N"], fi) if lens else None
            if alpha - want:
                return [ctx.viol(R, fi, site, f"directory names are accepted by an alphabet test that admits {''.join(sorted(alpha - want))!r} besides the lower-case hex digits: a 32-character "
                                 "name with upper-case digits (no state point hashes to such a name) is listed, counted and reported by check() as a job")]
            if alpha == want and ln == idlen:
                return [ctx.ok(R, fi, site, f"directory names are filtered by length == {idlen} and the lower-case hex alphabet")]
        return [ctx.inc(R, fi, fi.node, "no regular-expression filter found in _job_dirs (unknown filter shape)")]
    for n, api, pat in matches:
        if not isinstance(pat, str):
            out.append(ctx.inc(R, fi, n, "pattern is not a compile-time constant"))
            continue
        try:
            lo, hi, end = _regex_facts(pat)
        except Exception as e:
            out.append(ctx.inc(R, fi, n, f"cannot parse pattern {pat!r}: {e}"))
            continue
        exact = api == "fullmatch" or (api == "match" and end)
        if exact:
            out.append(ctx.ok(R, fi, n, f"directory names are filtered with {api}() on {pat!r}: whole-name match"))
        else:
            out.append(ctx.viol(R, fi, n, f"directory names are filtered with {api}() on the unanchored pattern {pat!r}: names that merely "
                                f"{'start with' if api == 'match' else 'contain'} an id (e.g. '<id>_backup') are listed, counted and iterated as jobs"))
        if isinstance(idlen, int):
            if lo == hi == idlen:
                out.append(ctx.ok(R, fi, n, f"pattern width is exactly JOB_ID_LENGTH={idlen}", construct=JOBDIRS + "|width"))
            else:
                out.append(ctx.viol(R, fi, n, f"pattern matches {lo}..{hi} characters but ids have JOB_ID_LENGTH={idlen}", construct=JOBDIRS + "|width"))
        alpha = _regex_alphabet(pat)
        want = set("0123456789abcdef")
        if alpha is None:
            out.append(ctx.inc(R, fi, n, f"pattern {pat!r} is not a single repeated character class", construct=JOBDIRS + "|class"))
        elif alpha[0] == want and not alpha[1]:
            out.append(ctx.ok(R, fi, n, "pattern class is lowercase hex", construct=JOBDIRS + "|class"))
        else:
            extra = "".join(sorted(alpha[0] - want))[:20] + (" + " + ", ".join(alpha[1]) if alpha[1] else "")
            out.append(ctx.viol(R, fi, n, f"the id pattern {pat!r} also accepts {extra!r} (\\d and \\w match every Unicode digit / word character in a str pattern): a 32-character directory "
                                "name using such characters is listed, counted and reported by check() as a job although no state point hashes to it", construct=JOBDIRS + "|class"))
        # the yield is guarded by the match
        mt = " ".join(ast.unparse(n).split())
        for y in yields:
            facts = common.facts_at(ctx, fi, y, "n")
            if (mt, True) in facts:
                out.append(ctx.ok(R, fi, y, "a name is yielded only when the match succeeded"))
            else:
                out.append(ctx.viol(R, fi, y, f"a directory name is yielded on a path where {mt} is not known to hold"))
    if idlen != 32:
        out.append(ctx.viol(R, fi, fi.node, f"JOB_ID_LENGTH folds to {idlen!r}; MD5 hex digests have 32 characters", construct=JOBDIRS + "|idlen"))
    return out


def lazy_fields(ctx):
    """(path_derived, id_derived): attributes of Job assigned under `if self.X is None` in a getter."""
    ci = ctx.prog.cls(JOB)
    path_d, id_d = set(), set()
    for pname, accs in ci.properties.items():
        g = accs.get("get")
        if not g:
            continue
        for n in body_nodes(g):
            if isinstance(n, ast.If):
                t = n.test
                if isinstance(t, ast.Compare) and len(t.ops) == 1 and isinstance(t.ops[0], ast.Is) \
                        and isinstance(t.comparators[0], ast.Constant) and t.comparators[0].value is None \
                        and isinstance(t.left, ast.Attribute) and isinstance(t.left.value, ast.Name) and t.left.value.id == "self":
                    X = t.left.attr
                    assigns = [s for st in n.body for s in walk_no_nested(st) if isinstance(s, ast.Assign)
                               and any(isinstance(tt, ast.Attribute) and tt.attr == X for tt in s.targets)]
                    if not assigns:
                        continue
                    text = " ".join(ast.unparse(st) for st in n.body)
                    if X == "_path" or "self.path" in text or "self._path" in text or "self.fn(" in text:
                        path_d.add(X)
                    elif "self._id" in text or "self.id" in text:
                        id_d.add(X)
    return path_d, id_d


def method_resets(ctx, mq):
    """Attributes of self that a method unconditionally assigns (top level or inside `with`)."""
    f = ctx.prog.funcs.get(mq)
    if not f:
        return set()
    out = set()

    def scan(stmts):
        for st in stmts:
            if isinstance(st, ast.Assign):
                for t in st.targets:
                    if isinstance(t, ast.Attribute) and isinstance(t.value, ast.Name) and t.value.id == "self":
                        out.add(t.attr)
            elif isinstance(st, ast.With):
                scan(st.body)
    scan(f.node.body)
    return out


def _resets_after(ctx, R, fi, start_stmt, obj, fields, what):
    """Every normal path from start_stmt to the end of its loop iteration / function passes resets of all `fields` on obj."""
    cfg = ctx.cfg(fi)
    out = []
    pm = ctx.parents(fi)
    # loop header (if the statement is in a for loop)
    exits = {cfg.exit}
    cur = pm.get(id(start_stmt))
    while cur is not None:
        if isinstance(cur, (ast.For, ast.While)):
            exits |= set(cfg.node_ids_for(cur))
            break
        cur = pm.get(id(cur))
    for fld in sorted(fields):
        reset_ids = set()
        for n in cfg.stmt_nodes():
            a = n.ast
            if isinstance(a, ast.Assign):
                for t in a.targets:
                    if isinstance(t, ast.Attribute) and t.attr == fld and dotted(t.value) == obj:
                        reset_ids.add(n.id)
            for sub in _own(a):
                for c in walk_no_nested(sub):
                    if isinstance(c, ast.Call) and isinstance(c.func, ast.Attribute) and dotted(c.func.value) == obj:
                        for tq in common.targets_of(ctx, fi, c):
                            if fld in method_resets(ctx, tq):
                                reset_ids.add(n.id)
        bad = None
        for sid in cfg.node_ids_for(start_stmt):
            if sid in reset_ids:
                continue
            w = cfg.must_pass_after(sid, reset_ids, exits=exits, kinds="n")
            if w is not None:
                bad = w
        c = f"{fi.qual}|{what}|{fld}"
        if bad is None:
            out.append(ctx.ok(R, fi, start_stmt, f"after {what}, {obj}.{fld} is reset on every path", construct=c))
        else:
            out.append(ctx.viol(R, fi, start_stmt, f"after {what}, {obj}.{fld} is not reset on some path: the handle keeps using the old location / value",
                                construct=c, witness=cfg.describe_path(bad)))
    return out


def _own(st):
    from ..cfg import own_exprs
    return own_exprs(st)


def id_write_sites(ctx):
    """(function, statement, object expression) for every `<obj>._id = ...` outside Job.__init__."""
    out = []
    for f in ctx.prog.functions_of_module("signac.job") + ctx.prog.functions_of_module("signac.project"):
        if f.qual == "signac.job:Job.__init__":
            continue
        for n in body_nodes(f):
            if isinstance(n, ast.Assign):
                for t in n.targets:
                    if isinstance(t, ast.Attribute) and t.attr == "_id":
                        out.append((f, n, dotted(t.value)))
    return out


@rule("C03-b")
def c03_b(ctx: Ctx):
    """Path-derived lazy fields are reset when the id changes, on remove, and on move."""
    R = "C03-b"
    out = []
    path_d, id_d = lazy_fields(ctx)
    if not {"_path", "_document", "_stores"} <= path_d:
        out.append(ctx.inc(R, None, None, f"computed path-derived lazy fields {sorted(path_d)} do not include _path/_document/_stores",
                           construct="lazy-field-set"))
        return out
    sites = id_write_sites(ctx)
    if not sites:
        out.append(ctx.inc(R, None, None, "no write of <job>._id outside __init__ found", construct="id-sites"))
    for f, st, obj in sites:
        if obj is None:
            out.append(ctx.inc(R, f, st, "id written on an object expression that is not a simple name"))
            continue
        out += _resets_after(ctx, R, f, st, obj, path_d, "the id change")
    # the reset helper called for every handle copy on an id change must leave the shared state point object attached
    ILP = "signac.job:Job._initialize_lazy_properties"
    if ILP not in ctx.prog.funcs:
        # the reset helper was written out at its users: what each id write site resets itself was judged above; the re-key loop must not reset the shared fields
        sv = ctx.fn("signac.job:_StatePointDict._save")
        shared = sorted({t.attr for n in body_nodes(sv) if isinstance(n, ast.Assign) for t in n.targets if isinstance(t, ast.Attribute)
                         and t.attr in ("_statepoint_requires_init", "_statepoint", "_project")})
        kx = ILP + "|scope"
        if shared:
            out.append(ctx.viol(R, sv, sv.node, f"the re-key also resets {shared} on every handle copy: each copy builds a private state point object and stops following later re-keys", construct=kx))
        else:
            out.append(ctx.ok(R, sv, sv.node, "no reset helper: the re-key resets only lazily created per-handle fields itself", construct=kx))
        rs, bad_fields, ilp = set(), [], None
    else:
        rs = method_resets(ctx, ILP)
        bad_fields = sorted(rs & {"_statepoint_requires_init", "_statepoint", "_project", "_id"})
        ilp = ctx.fn(ILP)
    if ilp is None:
        pass
    elif bad_fields:
        out.append(ctx.viol(R, ilp, ilp.node, f"_initialize_lazy_properties also resets {bad_fields}; _StatePointDict._save calls it on every handle copy after a re-key, so each copy builds a private "
                            "state point object and stops following later re-keys made through the other copies", construct=ilp.qual + "|scope"))
    else:
        out.append(ctx.ok(R, ilp, ilp.node, f"_initialize_lazy_properties resets only the lazily created per-handle fields {sorted(rs)}", construct=ilp.qual + "|scope"))
    # remove()
    rem = ctx.fn("signac.job:Job.remove")
    rm = [e for e in ctx.effects.direct(rem) if e.prim == "shutil.rmtree"]
    if not rm:
        # the tree removal may live in a helper: take the call statement whose closure removes a tree
        from ..calls import Effect
        for (cn, tg, ext) in ctx.calls.callees(rem):
            if isinstance(cn, ast.Call) and tg:
                eff, _ = ctx.effects.transitive(tg)
                if any(x.prim == "shutil.rmtree" for x in eff):
                    rm = [Effect("delete", "shutil.rmtree", rem, cn, cn.args[0] if cn.args else None)]
                    break
    if not rm:
        out.append(ctx.inc(R, rem, rem.node, "remove() does not call shutil.rmtree"))
    else:
        cfg = ctx.cfg(rem)
        st = ctx.stmt_of(rem, rm[0].node)
        for sid in cfg.node_ids_for(st):
            starts = [b for (b, k, _) in cfg.succ[sid] if k == "n"]
            for fld in ("_document", "_stores"):
                bad = None
                for s in starts:
                    paths, trunc = cfg.paths_to(cfg.exit, start=s, kinds="n")
                    if cfg.exit == s:
                        paths = [([s], [])]
                    for path, facts in paths:
                        assigned = any(isinstance(cfg.nodes[i].ast, ast.Assign) and any(
                            isinstance(t, ast.Attribute) and t.attr == fld and dotted(t.value) == "self" for t in cfg.nodes[i].ast.targets)
                            for i in path)
                        already = (f"self.{fld} is None", True) in facts
                        if not assigned and not already:
                            bad = path
                c = f"{rem.qual}|remove|{fld}"
                if bad:
                    out.append(ctx.viol(R, rem, st, f"after a successful rmtree, self.{fld} is not dropped on some path: the stale handle keeps writing into the removed directory",
                                        construct=c, witness=cfg.describe_path(bad)))
                else:
                    out.append(ctx.ok(R, rem, st, f"after a successful rmtree self.{fld} is dropped (or was never created)", construct=c))
        # _directory_known = False on every path to exit
        dk = set()
        for n in cfg.stmt_nodes():
            if isinstance(n.ast, ast.Assign) and any(isinstance(t, ast.Attribute) and t.attr == "_directory_known" for t in n.ast.targets):
                if ctx.fold(n.ast.value, rem) is False:
                    dk.add(n.id)
        w = cfg.path(cfg.entry, {cfg.exit}, blocked=dk, kinds="nx")
        c = f"{rem.qual}|remove|_directory_known"
        if w is None and dk:
            out.append(ctx.ok(R, rem, rem.node, "remove() sets _directory_known=False on every normal path", construct=c))
        else:
            out.append(ctx.viol(R, rem, rem.node, "remove() can return with _directory_known still True: a later init(validate_statepoint=False) skips re-creating the directory",
                                construct=c, witness=cfg.describe_path(w) if w else None))
    # move()
    mv = ctx.fn("signac.job:Job.move")
    cfg = ctx.cfg(mv)
    rp = [e for e in ctx.effects.direct(mv) if e.kind == "rename"]
    rpc = [e.node for e in rp] or [c for c in body_nodes(mv) if common.rename_call(ctx, mv, c) is not None]
    if not rpc:
        out.append(ctx.inc(R, mv, mv.node, "move() has no rename"))
    else:
        st = ctx.stmt_of(mv, rpc[0])
        adopt = set()
        adopted_names = set()
        env = ctx.env(mv)
        for n in cfg.stmt_nodes():
            for sub in _own(n.ast):
                for c in walk_no_nested(sub):
                    if isinstance(c, ast.Call) and canon(c.func) == "self.__dict__.update" and len(c.args) == 1:
                        a = c.args[0]
                        if isinstance(a, ast.Attribute) and a.attr == "__dict__" and isinstance(a.value, ast.Name):
                            src = env.get(a.value.id)
                            if isinstance(src, ast.Call) and "signac.project:Project.open_job" in common.targets_of(ctx, mv, src):
                                adopt.add(n.id)
                                adopted_names.add(a.value.id)
        c = f"{mv.qual}|move|adopt"
        if adopt:
            bad = None
            for sid in cfg.node_ids_for(st):
                w = cfg.must_pass_after(sid, adopt, exits={cfg.exit}, kinds="n")
                bad = bad or w
            if bad is None:
                out.append(ctx.ok(R, mv, st, "after the rename, move() adopts the complete state of a freshly opened destination handle", construct=c))
                # the destination handle must still be pristine when it is adopted: any method call / lazy property on it creates per-handle
                # objects (a state point collection whose handle list contains only the discarded handle) that the moved handle would inherit
                touched = []
                for n2 in body_nodes(mv):
                    if isinstance(n2, ast.Attribute) and isinstance(n2.value, ast.Name) and n2.value.id in adopted_names and n2.attr not in ("path", "id", "_id", "__dict__", "_path"):
                        touched.append(n2)
                k4 = f"{mv.qual}|move|dst-pristine"
                if touched:
                    out.append(ctx.viol(R, mv, touched[0], f"move() uses dst.{touched[0].attr} before adopting dst.__dict__: the destination handle is no longer pristine (e.g. its state point collection "
                                        "lists only the discarded handle), so a later state point edit migrates the directory without updating the moved handle's id and path", construct=k4))
                else:
                    out.append(ctx.ok(R, mv, st, "the destination handle is adopted untouched (only its path is read)", construct=k4))
                # the adopted state is complete only if Job.__init__ binds every per-handle field as an instance attribute
                ji = ctx.fn("signac.job:Job.__init__")
                jcfg = ctx.cfg(ji)
                need = ["_project", "_id", "_cached_statepoint", "_statepoint_requires_init", "_directory_known"] + sorted(path_d)
                for fld in need:
                    ids = set()
                    for n in jcfg.stmt_nodes():
                        a = n.ast
                        if isinstance(a, ast.Assign) and any(isinstance(t, ast.Attribute) and t.attr == fld and dotted(t.value) == "self" for t in a.targets):
                            ids.add(n.id)
                        for sub in _own(a):
                            for cc in walk_no_nested(sub):
                                if isinstance(cc, ast.Call) and isinstance(cc.func, ast.Attribute) and dotted(cc.func.value) == "self":
                                    for tq in common.targets_of(ctx, ji, cc):
                                        if fld in method_resets(ctx, tq):
                                            ids.add(n.id)
                    w2 = jcfg.path(jcfg.entry, {jcfg.exit}, blocked=ids, kinds="n")
                    c3 = f"{ji.qual}|binds|{fld}"
                    if w2 is None and ids:
                        out.append(ctx.ok(R, ji, ji.node, f"Job.__init__ binds self.{fld} on every path, so a fresh handle's __dict__ carries it", construct=c3))
                    else:
                        out.append(ctx.viol(R, ji, ji.node, f"Job.__init__ does not bind self.{fld} as an instance attribute on every path: move() adopts `dst.__dict__`, which then lacks {fld}, "
                                            "and the moved handle keeps its stale value (e.g. a state point object whose file name points into the source project)", construct=c3,
                                            witness=jcfg.describe_path(w2) if w2 else None))
            else:
                out.append(ctx.viol(R, mv, st, "move() can return after the rename without adopting the destination handle's state", construct=c,
                                    witness=cfg.describe_path(bad)))
        else:
            # alternative idiom: explicit re-binding; everything derived from the project must be refreshed
            need = {"_project"} | path_d
            res = _resets_after(ctx, R, mv, st, "self", need, "the move")
            out += res
            sp_refresh = set()
            for n in cfg.stmt_nodes():
                a = n.ast
                if isinstance(a, ast.Assign):
                    for t in a.targets:
                        tt = canon(t)
                        if tt in ("self._statepoint_requires_init", "self._statepoint", "self._statepoint.filename", "self.statepoint.filename"):
                            sp_refresh.add(n.id)
            bad = None
            for sid in cfg.node_ids_for(st):
                w = cfg.must_pass_after(sid, sp_refresh, exits={cfg.exit}, kinds="n")
                bad = bad or w
            c2 = f"{mv.qual}|move|statepoint-object"
            if bad is None and sp_refresh:
                out.append(ctx.ok(R, mv, st, "move() re-creates / re-points the state point object", construct=c2))
            else:
                out.append(ctx.viol(R, mv, st, "move() re-binds the handle field by field but keeps the old state point object, whose file name still points into the "
                                    "source project: a later state point edit through this handle renames nothing in the destination", construct=c2,
                                    witness=cfg.describe_path(bad) if bad else None))
    return out


def _is_tilde(ctx, fi, e):
    """The expression is `<path expression> + <non-empty constant suffix>`: a temporary / backup next to a file ('~', '.tmp', ...)."""
    e2 = inline(e, ctx.env(fi))
    return isinstance(e2, ast.BinOp) and isinstance(e2.op, ast.Add) and isinstance(e2.right, ast.Constant) and isinstance(e2.right.value, str) \
        and e2.right.value != "" and not isinstance(e2.left, ast.Constant) and os.sep not in e2.right.value


@rule("C03-c")
def c03_c(ctx: Ctx):
    """No '~' temporary is left behind: each creation is followed by a consuming rename/remove on all paths to return or explicit raise."""
    R = "C03-c"
    out = []
    sites = ["signac.job:_StatePointDict._save", "signac.project:Project.update_cache", "signac.sync:_FileModifyProxy.create_backup"]
    for q in sites:
        fi = ctx.fn(q)
        cfg = ctx.cfg(fi)
        create, consume = set(), set()
        for n in cfg.stmt_nodes():
            for sub in _own(n.ast):
                for c in walk_no_nested(sub):
                    if not isinstance(c, ast.Call):
                        continue
                    tg, ext = ctx.calls.resolve_call(fi, c)
                    name = ext or (tg[0].qual if tg else "")
                    short = name.split(".")[-1].split(":")[-1]
                    args = list(c.args)
                    tild = [i for i, a in enumerate(args) if _is_tilde(ctx, fi, a)]
                    if not tild:
                        continue
                    if short in ("replace", "rename", "move"):
                        (consume if 0 in tild else create).add(n.id)
                    elif short in ("remove", "unlink", "_remove"):
                        consume.add(n.id)
                    elif short in ("copy", "copy2", "copyfile", "_copy", "_copy2", "_copy_p"):
                        (create if 1 in tild else consume).add(n.id)
                    elif short in ("open",):
                        mode = ctx.effects.open_mode(fi, c, ext) if ext in ("gzip.open", "builtins.open", "open") else UNKNOWN
                        if isinstance(mode, str) and any(ch in mode for ch in "wax+"):
                            create.add(n.id)
        if not create:
            out.append(ctx.inc(R, fi, fi.node, "no creation of a '~' temporary found (anchor changed)"))
            continue
        for cid in sorted(create):
            starts = [b for (b, k, _) in cfg.succ[cid] if k == "n"]
            bad = None
            for s in starts:
                if s in consume:
                    continue
                w = cfg.path(s, {cfg.exit, cfg.rexit}, blocked=consume, kinds="nx")
                if w is not None:
                    bad = [cid] + w
            st = cfg.nodes[cid].ast
            if bad is None:
                out.append(ctx.ok(R, fi, st, "every path from the creation of the '~' file to a return / explicit raise passes a rename-back or remove of it"))
            else:
                out.append(ctx.viol(R, fi, st, "a path leaves the function with the '~' temporary still on disk", witness=cfg.describe_path(bad)))
    return out


@rule("C03-d")
def c03_d(ctx: Ctx):
    """Job.clear never deletes the state point file."""
    R = "C03-d"
    fi = ctx.fn("signac.job:Job.clear")
    out = []
    sp = ctx.fold(ast.parse("self.FN_STATE_POINT", mode="eval").body, fi)
    dels = [e for e in ctx.effects.direct(fi) if e.kind == "delete"]
    if not dels:
        return [ctx.inc(R, fi, fi.node, "clear() has no delete primitive")]
    for e in dels:
        facts = common.facts_at(ctx, fi, e.node, "n")
        ok = False
        for (text, pol) in facts:
            if pol:
                continue
            try:
                t = ast.parse(text, mode="eval").body
            except SyntaxError:
                continue
            if isinstance(t, ast.Compare) and len(t.ops) == 1 and isinstance(t.ops[0], ast.In):
                cont = ctx.fold(t.comparators[0], fi)
                if cont is not UNKNOWN and isinstance(sp, str) and sp in cont:
                    ok = True
            if isinstance(t, ast.Compare) and len(t.ops) == 1 and isinstance(t.ops[0], ast.Eq):
                if ctx.fold(t.comparators[0], fi) == sp:
                    ok = True
        if ok:
            out.append(ctx.ok(R, fi, e.node, f"{e.prim} is reached only for names other than the state point file"))
        else:
            out.append(ctx.viol(R, fi, e.node, f"{e.prim} in clear() is not guarded against the state point file name: clear() can delete the job's state point"))
    return out


@rule("C03-e")
def c03_e(ctx: Ctx):
    """Cache maintenance cannot resurrect removed jobs: listing never from the cache, update_cache decides on the reconciled cache (C08-a, C08-b)."""
    from .c08 import c08_a, c08_b
    res = c08_a(ctx) + c08_b(ctx)
    for r in res:
        r.rule = "C03-e"
    return res


@rule("C03-f")
def c03_f(ctx: Ctx):
    """No job / project function remembers answers across calls: what a fresh handle sees must come from the disk (and the per-project state point cache, which C08 covers)."""
    from .lints import no_memoisation_modules
    return no_memoisation_modules(ctx, "C03-f", ("signac.job", "signac.project", "signac._utility"),
                                  "the workspace changes between calls (jobs are removed, re-keyed, moved), so a remembered answer describes a workspace that no longer exists")


@rule("C03-g")
def c03_g(ctx: Ctx):
    """reset() recreates the job: clear() followed by a validating init() (no early exit on a stale 'directory known' flag); paths are absolute."""
    R = "C03-g"
    out = []
    f = ctx.fn("signac.job:Job.reset")
    inits = [c for c in body_nodes(f) if isinstance(c, ast.Call) and "signac.job:Job.init" in common.targets_of(ctx, f, c)]
    clears = [c for c in body_nodes(f) if isinstance(c, ast.Call) and "signac.job:Job.clear" in common.targets_of(ctx, f, c)]
    if not inits or not clears:
        out.append(ctx.viol(R, f, f.node, "reset() is not clear() followed by init()"))
    for c in inits:
        v = kwarg(c, "validate_statepoint") or (c.args[1] if len(c.args) > 1 else None)
        fv = True if v is None else ctx.fold(v, f)
        if fv is True:
            out.append(ctx.ok(R, f, c, "reset() re-initialises with validation: a job removed through another handle is recreated"))
        else:
            out.append(ctx.viol(R, f, c, f"reset() calls init(validate_statepoint={canon(v)}): the fast path returns at once when the handle believes its directory exists, so a job that was "
                                "removed through another handle is not recreated and the workspace lacks it"))
    from .c05 import c05_a
    out += [r for r in c05_a(ctx) if "abs-path" in r.construct]
    for r in out:
        r.rule = R
    return out


@rule("C03-h")
def c03_h(ctx: Ctx):
    """The listing and the membership test mean the same set of jobs: a job directory that is a symbolic link (job relocated to scratch storage,
    job linked in from another project) is found by full id (os.path.exists follows links), so the listing must not leave it out."""
    R = "C03-h"
    fi = ctx.fn(JOBDIRS)
    out = []
    k = JOBDIRS + "|links-listed"
    hits = []
    for n in body_nodes(fi):
        if not isinstance(n, ast.Call):
            continue
        e = common.ext_name(ctx, fi, n)
        attr = n.func.attr if isinstance(n.func, ast.Attribute) else None
        fs = kwarg(n, "follow_symlinks")
        if attr in ("is_dir", "is_file", "isdir") and fs is not None and ctx.fold(fs, fi) is False:
            hits.append((n, f"{canon(n)[:50]} is false for a symbolic link"))
        elif e in ("os.path.islink",) or attr == "is_symlink":
            hits.append((n, f"{canon(n)[:50]} singles out symbolic links"))
        elif e in ("os.lstat",) or attr == "lstat":
            hits.append((n, f"{canon(n)[:50]} examines the link itself, not the directory it points to"))
    ys = [n for n in body_nodes(fi) if isinstance(n, (ast.Yield, ast.YieldFrom))]
    flagged = False
    for (n, why) in hits:
        # the test must actually decide what is yielded
        for y in ys:
            facts = common.expand_facts(ctx, fi, common.facts_at(ctx, fi, y, "n"))
            txt = canon(n).replace(" ", "")
            if any(txt in t.replace(" ", "") for (t, _p) in facts) or isinstance(y.value if isinstance(y, ast.Yield) else None, (ast.GeneratorExp,)) :
                out.append(ctx.viol(R, fi, n, f"the job listing filters on {why}: a job directory that is a symbolic link is still opened by its full id and reported by `in`, but it is missing "
                                    "from len(), iteration, find_jobs, prefix resolution and update_cache", construct=k))
                flagged = True
                break
    if not flagged:
        out.append(ctx.ok(R, fi, fi.node, "the listing does not treat symbolic links differently from directories (as the membership test, which follows links)", construct=k))
    return out


@rule("C03-i")
def c03_i(ctx: Ctx):
    """move() into a project whose workspace directory is missing creates it first (same obligation as C04-k)."""
    from .c04 import c04_k
    res = c04_k(ctx)
    for r in res:
        r.rule = "C03-i"
    return res


@rule("C03-j")
def c03_j(ctx: Ctx):
    """A schema import files a directory only under the state point its own state point file holds (from C16-n)."""
    from .c16 import c16_n
    res = c16_n(ctx)
    for r in res:
        r.rule = "C03-j"
    return res


@rule("C03-k")
def c03_k(ctx: Ctx):
    """What clear() / remove() / reset() delete is named by paths inside the job directory as listed; a path is never resolved (realpath / readlink) before it is
    deleted - a link inside a job directory may point to another job, and deleting its target removes that other job's data."""
    R = "C03-k"
    out = []
    n = 0
    for q in ("signac.job:Job.clear", "signac.job:Job.remove", "signac.job:Job.reset"):
        f = ctx.prog.funcs.get(q)
        if f is None:
            continue
        for e in ctx.effects.direct(f):
            if e.kind != "delete" or e.target is None:
                continue
            n += 1
            t = common.inline_at(ctx, f, e.target, e.node)
            res = [c for c in ast.walk(t) if isinstance(c, ast.Call) and (dotted(c.func) or "").split(".")[-1] in ("realpath", "readlink", "resolve")]
            k = f"{q}|deletes-as-listed"
            if res:
                out.append(ctx.viol(R, f, e.node, f"{e.prim}({canon(t)[:60]}) deletes what a link points to: a link in the job directory that leads to another job's directory wipes that "
                                    "other job, so ids, len and iteration diverge from what the operations say", construct=k))
            else:
                out.append(ctx.ok(R, f, e.node, f"{e.prim} is applied to the path as listed", construct=k))
    if not n:
        out.append(ctx.inc(R, None, None, "no deleting primitive in Job.clear / remove / reset"))
    return out

RULES = [c03_a, c03_b, c03_c, c03_d, c03_e, c03_f, c03_g, c03_h, c03_i, c03_j, c03_k]
