#!/venv/bin/python
"""evalbn.py <diff>... : apply each diff to a scratch copy of /repo/signac; run all 20 checks; print non-silent ones."""
import sys, os, subprocess, tempfile, shutil
from concurrent.futures import ThreadPoolExecutor
PROPS=[f"C{i:02d}" for i in range(1,21)]
def one(diff):
    tmp=tempfile.mkdtemp(prefix='bn-')
    try:
        shutil.copytree('/repo/signac', os.path.join(tmp,'signac'))
        r=subprocess.run(['patch','-p1','-s','-i',diff],cwd=tmp,capture_output=True,text=True)
        if r.returncode!=0: return diff,[('APPLY','fail '+r.stdout[:100])]
        bad=[]
        for p in PROPS:
            r=subprocess.run(['/verif/check',p,'--repo',tmp,'--evidence-dir',os.path.join(tmp,'ev'),'--no-selftest'],capture_output=True,text=True,cwd='/verif')
            if r.returncode!=0:
                lines=[l for l in r.stdout.splitlines() if l.startswith(('VIOLATION rule','ANALYSIS-ERROR'))]
                bad.append((p,r.returncode,lines[:4]))
        return diff,bad
    finally:
        shutil.rmtree(tmp,ignore_errors=True)
with ThreadPoolExecutor(15) as ex:
    for diff,bad in ex.map(one,[os.path.abspath(a) for a in sys.argv[1:]]):
        print(diff, 'SILENT' if not bad else 'NOT-SILENT')
        for b in bad:
            if b[0]=='APPLY': print('   ',b); continue
            p,rc,lines=b
            for l in lines: print(f'    {p} rc={rc} {l[:260]}')
