#!/venv/bin/python
"""Self-test of sigstat/restore.py on a synthetic two-module package.

For each refactoring of the reference package the restored program must (1) contain the reference function again under its
reference name, home and signature, and (2) compute the same results as the refactored source (both are executed on the same
inputs). For each *near miss* (the same refactoring with one detail of the body changed) the reference *text* must never come
back: either the function stays missing, or (rename / move of a clearly recognisable function) the current, edited body is put
under the reference name so that the rules judge the edit. Only the checker's own transformation is executed here."""
import ast, copy, os, sys, types
sys.path.insert(0, os.path.dirname(os.path.dirname(os.path.abspath(__file__))))
from sigstat import inline, restore
from sigstat.inline import enumerate_defs

BASE = {
    "pkg.a": '''
from .b import norm
LOG = []
class Box:
    def __init__(self, items, limit):
        self.items = list(items)
        self.limit = limit
        self.cache = {}
    def _check(self):
        if len(self.items) > self.limit:
            raise ValueError("too many")
        LOG.append("checked")
    def _refresh(self):
        start = len(self.cache)
        seen = set(self.cache)
        for it in self.items:
            if it not in seen:
                self.cache[it] = norm(it)
        LOG.append(("refreshed", len(self.cache) - start))
    def total(self, scale=1, offset=0):
        self._check()
        self._refresh()
        return _sum(self.cache.values(), scale, offset)
def _sum(values, scale, offset):
    acc = offset
    for v in values:
        acc += v * scale
    return acc
def run(items, limit, scale, offset):
    return Box(items, limit).total(scale, offset)
''',
    "pkg.b": '''
def norm(x):
    return abs(int(x))
''',
}


def src_replace(mod, old, new, base=None):
    d = dict(base or BASE)
    assert old in d[mod], old
    d[mod] = d[mod].replace(old, new)
    return d


CASES = []   # (name, sources, reference function that must be back, should_restore)

# 1. rename (with a renamed local)
s = src_replace("pkg.a", "def _sum(values, scale, offset):\n    acc = offset\n    for v in values:\n        acc += v * scale\n    return acc",
                "def _weighted(values, scale, offset):\n    total = offset\n    for v in values:\n        total += v * scale\n    return total")
s = src_replace("pkg.a", "return _sum(self.cache.values(), scale, offset)", "return _weighted(self.cache.values(), scale, offset)", s)
CASES.append(("rename", s, "pkg.a:_sum", True))
s2 = src_replace("pkg.a", "total += v * scale", "total += v + scale", s)
CASES.append(("rename, body edited", s2, "pkg.a:_sum", "successor:v + scale"))

# 2. move to the other module
s = src_replace("pkg.a", "def _sum(values, scale, offset):\n    acc = offset\n    for v in values:\n        acc += v * scale\n    return acc\n", "")
s = src_replace("pkg.a", "from .b import norm", "from .b import norm, _sum", s)
s["pkg.b"] = s["pkg.b"] + "def _sum(values, scale, offset):\n    acc = offset\n    for v in values:\n        acc += v * scale\n    return acc\n"
CASES.append(("move", s, "pkg.a:_sum", True))

# 3. method -> function taking the attributes
s = src_replace("pkg.a", "    def _check(self):\n        if len(self.items) > self.limit:\n            raise ValueError(\"too many\")\n        LOG.append(\"checked\")\n", "")
s = src_replace("pkg.a", "def _sum(values", "def _check_size(items, limit):\n    if len(items) > limit:\n        raise ValueError(\"too many\")\n    LOG.append(\"checked\")\ndef _sum(values", s)
s = src_replace("pkg.a", "self._check()", "_check_size(self.items, self.limit)", s)
CASES.append(("method->function", s, "pkg.a:Box._check", True))
s2 = src_replace("pkg.a", "if len(items) > limit:", "if len(items) >= limit:", s)
CASES.append(("method->function, comparison edited", s2, "pkg.a:Box._check", "successor:>= self.limit"))

# 4. signature: re-ordered, keyword-only
s = src_replace("pkg.a", "def _sum(values, scale, offset):", "def _sum(values, *, offset, scale):")
s = src_replace("pkg.a", "_sum(self.cache.values(), scale, offset)", "_sum(self.cache.values(), offset=offset, scale=scale)", s)
CASES.append(("signature", s, "pkg.a:_sum", True))

# 5. inlined into the caller (locals renamed), helper deleted
s = src_replace("pkg.a", "    def _refresh(self):\n        start = len(self.cache)\n        seen = set(self.cache)\n        for it in self.items:\n            if it not in seen:\n                self.cache[it] = norm(it)\n        LOG.append((\"refreshed\", len(self.cache) - start))\n", "")
s = src_replace("pkg.a", "        self._refresh()\n", "        before = len(self.cache)\n        known = set(self.cache)\n        for item in self.items:\n            if item not in known:\n                self.cache[item] = norm(item)\n        LOG.append((\"refreshed\", len(self.cache) - before))\n", s)
CASES.append(("inlined", s, "pkg.a:Box._refresh", True))
s2 = src_replace("pkg.a", "            if item not in known:\n", "            if item in known:\n", s)
CASES.append(("inlined, test edited", s2, "pkg.a:Box._refresh", False))


def parse_pkg(srcs):
    return {m: ast.parse(t) for m, t in srcs.items()}


def inventory(srcs):
    known, sources = set(), {}
    for mod, tree in parse_pkg(srcs).items():
        for d in enumerate_defs(mod, tree):
            known.add(d.qual)
            sources[d.qual] = {"class": d.cls.name if d.cls is not None else None, "src": ast.unparse(d.node)}
        known |= set(inline.module_globals(mod, tree))
    return known, sources


def execute(trees, inputs):
    """run pkg.a.run on the inputs; -> list of (result | exception type, log)"""
    mods = {}
    pkg = types.ModuleType("pkg")
    pkg.__path__ = []
    saved = {k: sys.modules.get(k) for k in ("pkg", "pkg.a", "pkg.b")}
    sys.modules["pkg"] = pkg
    try:
        for name in ("pkg.b", "pkg.a"):
            m = types.ModuleType(name)
            m.__package__ = "pkg"
            sys.modules[name] = m
            tree = copy.deepcopy(trees[name])
            ast.fix_missing_locations(tree)
            exec(compile(tree, name, "exec"), m.__dict__)
            mods[name] = m
        out = []
        for args in inputs:
            mods["pkg.a"].LOG.clear()
            try:
                r = mods["pkg.a"].run(*args)
            except Exception as e:  # noqa
                r = type(e).__name__
            out.append((r, list(mods["pkg.a"].LOG)))
        return out
    finally:
        for k, v in saved.items():
            if v is None:
                sys.modules.pop(k, None)
            else:
                sys.modules[k] = v


INPUTS = [([1, -2, 3], 5, 2, 1), ([1, 2, 3], 2, 1, 0), ([], 0, 3, 4), (["7", 7], 3, 1, 0), ([1, 2], 2, 1, 0)]


def main():
    known, sources = inventory(BASE)
    restore._SOURCES = sources
    inline.load_templates = lambda: {}
    inline.load_bodies = lambda: {}
    bad = 0
    for name, srcs, qual, should in CASES:
        trees = parse_pkg(srcs)
        want = execute(trees, INPUTS)
        out, log = inline.inline_package({m: (t, False) for m, t in parse_pkg(srcs).items()}, known)
        have = {d.qual for m, t in out.items() for d in enumerate_defs(m, t)}
        got = execute(out, INPUTS)
        if isinstance(should, str) and should.startswith("successor"):
            # the edited function is analysed under the reference name - with its own (edited) body, never with the reference text
            node = [d.node for m, t in out.items() for d in enumerate_defs(m, t) if d.qual == qual]
            ok = bool(node) and ast.unparse(node[0]) != sources[qual]["src"] and should.split(":", 1)[1] in ast.unparse(node[0]) and got == want
        else:
            ok = (qual in have) == should and got == want
        extra = sorted(q for q in have if q not in known)
        if should and extra:
            ok = False
        print(f"{'ok  ' if ok else 'FAIL'} {name}: reference function {'restored' if qual in have else 'not restored'} (expected: {'restored' if should is True else ('its edited body under the reference name' if isinstance(should, str) else 'not restored')}); "
              f"behaviour {'same' if got == want else 'DIFFERS'}; functions unknown to the reference afterwards: {extra}")
        if not ok:
            bad += 1
            for l in log:
                print("    ", l)
    print("RESTORE-SELFTEST", "OK" if not bad else f"FAILED ({bad})")
    return 1 if bad else 0


sys.exit(main())
