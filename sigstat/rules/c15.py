"""C15 - sync options are honoured: dry-run writes nothing, deep, exclude, selection, parallel."""
import ast

from ..engine import rule, Ctx
from ..core import UNKNOWN, dotted, kwarg, body_nodes, inline, stmt_key, canon, walk_no_nested, names_in
from . import common
from .c03 import _own

PROP = "C15"
FLOOR = 40
EXPLANATION = (
    "Decided (structural necessary conditions): (a) every mutating file-system primitive in _FileModifyProxy and every "
    "mutating operation on self.doc in _DocProxy carries the must-fact `self.dry_run` false (or is a call of a proxy method "
    "whose own effects are all gated); (b) no _DocProxy method returns a mutable alias into self.doc: mapping values are "
    "wrapped in a proxy carrying dry_run, other returns carry the fact `not isinstance(value, Mapping)`; (c) outside the "
    "proxy classes sync.py has no mutating call that is not guarded by a dry_run fact, Project.clone is given the proxy's "
    "copytree, and document sync functions are handed the proxy obtained from create_doc_backup, never the raw destination "
    "document; (d) every option sync_projects shares with sync_jobs reaches the sync_jobs call or the forwarded proxy, no "
    "option of sync_jobs / _sync_job_workspaces is accepted but unused, and `deep` selects the content comparator (whose "
    "phase3 override is registered in dircmp's methodmap and compares with shallow=False) and is passed down the recursion; "
    "exclude is tested before each copy and the clone branch is examined for it; (e) all resolved internal calls are "
    "arity / keyword compatible; (f) parallel and sequential branches apply the same function to the same job list, and "
    "that list is the whole source only under `selection is None`."
    ' (g) The lazy accessors Job.document / Job.stores initialise without validation, so evaluating dst.document in a dry run cannot write a state point file.'
    ' (i) Every path of Job.init to a write has validate_statepoint true or has seen os.path.isdir(self.path) fail (propositional reasoning over the branch facts).'
    ' The deep comparator class is found wherever it lives in the package. (j) command line front end of sync: empty selection by identity, selection not computed in the destination, exclude / deep / dry_run / recursive / parallel reach Project.sync unchanged (C15-j).'
    ' A selection is not re-bound after it was computed from -f / -j (C15-j).'
)
UNDECIDED = "That parallel and sequential runs leave identical destination trees, and what a dry run prints, are not decided."

FP = "signac.sync:_FileModifyProxy"
DP = "signac.sync:_DocProxy"
SJ = "signac.sync:sync_jobs"
SP = "signac.sync:sync_projects"
SJW = "signac.sync:_sync_job_workspaces"
DOC_MUT = {"clear", "update", "pop", "popitem", "setdefault", "reset", "__setitem__", "__delitem__"}


def _gated(facts):
    return ("self.dry_run", False) in facts


def _fp_method_gated(ctx, mq, seen=None):
    """All mutating effects of a proxy method (transitively through own methods) are gated by `not self.dry_run`."""
    seen = seen or set()
    if mq in seen:
        return True
    seen.add(mq)
    fi = ctx.prog.funcs.get(mq)
    if fi is None:
        return False
    for e in ctx.effects.direct(fi):
        if e.kind in common.MUTATING_KINDS and not _gated(common.facts_at(ctx, fi, e.node, "nx")):
            return False
    for (n, tg, ext) in ctx.calls.callees(fi):
        for t in tg:
            if t.cls is not None and t.cls.qual == FP and t.qual != mq:
                if not _gated(common.facts_at(ctx, fi, n, "nx")) and not _fp_method_gated(ctx, t.qual, seen):
                    return False
    return True


@rule("C15-a")
def c15_a(ctx: Ctx):
    """Every mutation in the two proxies is gated by dry_run."""
    R = "C15-a"
    out = []
    fp = ctx.prog.cls(FP)
    n_eff = 0
    for name, fi in sorted(fp.methods.items()):
        for e in ctx.effects.direct(fi):
            if e.kind not in common.MUTATING_KINDS:
                continue
            n_eff += 1
            facts = common.facts_at(ctx, fi, e.node, "nx")
            if _gated(facts):
                out.append(ctx.ok(R, fi, e.node, f"{e.prim} is reached only with self.dry_run false"))
            else:
                out.append(ctx.viol(R, fi, e.node, f"{e.prim} in _FileModifyProxy.{name} is not guarded by `not self.dry_run`: a dry run modifies the file system"))
    if n_eff < 6:
        out.append(ctx.inc(R, None, None, f"only {n_eff} mutating primitives found in _FileModifyProxy (expected >= 6)", construct=FP + "|count"))
    dp = ctx.prog.cls(DP)
    n_doc = 0
    for name, fi in sorted(dp.methods.items()):
        if name == "__init__":
            continue
        for n in body_nodes(fi):
            mut = None
            if isinstance(n, (ast.Assign, ast.AugAssign, ast.Delete)):
                tg = n.targets if not isinstance(n, ast.AugAssign) else [n.target]
                for t in tg:
                    if isinstance(t, (ast.Subscript, ast.Attribute)) and canon(t.value) == "self.doc":
                        mut = stmt_key(n, 50)
            elif isinstance(n, ast.Call) and isinstance(n.func, ast.Attribute) and canon(n.func.value) == "self.doc" and n.func.attr in DOC_MUT:
                mut = stmt_key(n, 50)
            if mut:
                n_doc += 1
                facts = common.facts_at(ctx, fi, n, "nx")
                if _gated(facts):
                    out.append(ctx.ok(R, fi, n, f"{mut} is reached only with self.dry_run false"))
                else:
                    out.append(ctx.viol(R, fi, n, f"{mut} in _DocProxy.{name} is not guarded by `not self.dry_run`: a dry run modifies the document"))
    if n_doc < 2:
        out.append(ctx.inc(R, None, None, f"only {n_doc} document mutations found in _DocProxy (expected >= 2)", construct=DP + "|count"))
    fwd = [m for m in dp.methods if m in ("__getattr__", "__getattribute__")]
    if fwd:
        f0 = dp.methods[fwd[0]]
        out.append(ctx.viol(R, f0, f0.node, f"_DocProxy defines {fwd[0]}: attributes it does not implement itself are forwarded to the wrapped document, which hands out the unguarded mutators "
                            "(setdefault, pop, reset, clear ...) of the real document - a custom doc_sync function then writes in a dry run", construct=DP + "|no-forwarding"))
    else:
        out.append(ctx.ok(R, None, None, "_DocProxy forwards nothing dynamically: only the methods it defines can reach the document", construct=DP + "|no-forwarding"))
    si = dp.methods.get("__setitem__")
    if si is not None:
        scfg = ctx.cfg(si)
        stores = {n.id for n in scfg.stmt_nodes() if isinstance(n.ast, ast.Assign) and any(isinstance(t, ast.Subscript) and canon(t.value) == "self.doc" for t in n.ast.targets)}
        paths, trunc = scfg.paths_to(scfg.exit, kinds="n")
        skipped = None
        for path, facts in paths:
            if not (set(path) & stores) and not any(pol and t.replace(" ", "") == "self.dry_run" for (t, pol) in facts):
                skipped = skipped or (path, facts)
        k = DP + ".__setitem__|always-stores"
        if trunc or not stores:
            out.append(ctx.inc(R, si, si.node, "_DocProxy.__setitem__: store / paths not determined", construct=k))
        elif skipped:
            out.append(ctx.viol(R, si, si.node, f"_DocProxy.__setitem__ can return without storing although this is not a dry run (facts on that path: {sorted(set(skipped[1]))}): e.g. values that "
                                "compare equal but differ in type (1 / True / 1.0) are not written, so DocSync.update does not make the destination agree with the source",
                                construct=k, witness=scfg.describe_path(skipped[0])))
        else:
            out.append(ctx.ok(R, si, si.node, "outside a dry run _DocProxy.__setitem__ always stores the value", construct=k))
    return out


@rule("C15-b")
def c15_b(ctx: Ctx):
    """_DocProxy never hands out a mutable alias of the gated document."""
    R = "C15-b"
    out = []
    dp = ctx.prog.cls(DP)
    n = 0
    for name, fi in sorted(dp.methods.items()):
        if name in ("__init__", "__str__", "__repr__", "__len__", "__contains__", "__eq__", "__iter__", "keys"):
            continue
        env = ctx.env(fi)
        for r in body_nodes(fi):
            if not isinstance(r, ast.Return) or r.value is None:
                continue
            v = inline(r.value, env)
            txt = canon(v)
            aliasing = txt.startswith("self.doc[") or txt.startswith("self.doc.get(") or txt.startswith("self.doc.setdefault(") \
                or txt.startswith("self.doc.pop(") or txt == "self.doc" or txt.startswith("self.doc.values(") or txt.startswith("self.doc.items(")
            wrapped = isinstance(v, ast.Call) and canon(v.func) in ("type(self)", "_DocProxy", "self.__class__")
            if wrapped:
                n += 1
                dr = kwarg(v, "dry_run") or (v.args[1] if len(v.args) > 1 else None)
                if dr is not None and canon(dr) == "self.dry_run":
                    out.append(ctx.ok(R, fi, r, "mapping values are returned behind a proxy that carries self.dry_run"))
                else:
                    out.append(ctx.viol(R, fi, r, "nested document is wrapped in a proxy that does not carry self.dry_run: writes into it are real during a dry run"))
                continue
            if not aliasing:
                continue
            n += 1
            facts = common.facts_at(ctx, fi, r, "nx")
            safe = False
            weak = None
            for (t, pol) in facts:
                tt = t.replace(" ", "")
                if tt.startswith("isinstance(") and not pol:
                    types = tt[tt.index(",") + 1:-1].strip("()").split(",")
                    if any(x.split(".")[-1] in ("Mapping", "MutableMapping", "Collection", "Container") for x in types):
                        safe = True
                    else:
                        weak = tt
            if safe:
                out.append(ctx.ok(R, fi, r, "the raw value is returned only when it is not a Mapping"))
            elif weak:
                out.append(ctx.viol(R, fi, r, f"the raw value is returned whenever `{weak}` is false; job and project documents hold nested values as synced "
                                    "collections (Mapping, not dict), so nested sub-documents escape the proxy and are really written during a dry run"))
            else:
                out.append(ctx.viol(R, fi, r, f"_DocProxy.{name} returns {txt}, a mutable alias into the real document: DocSync.ByKey writes into nested "
                                    "sub-documents through it during a dry run"))
    if n == 0:
        out.append(ctx.inc(R, None, None, "no value-returning accessor found in _DocProxy", construct=DP + "|accessors"))
    return out


def _dry_guard(facts):
    for (t, pol) in facts:
        if not pol and t in ("dry_run", "proxy.dry_run", "self.dry_run"):
            return True
    return False


@rule("C15-c")
def c15_c(ctx: Ctx):
    """Outside the proxies nothing in sync.py mutates without a dry_run guard; mutations are routed through the proxy."""
    R = "C15-c"
    out = []
    for fi in ctx.prog.functions_of_module("signac.sync"):
        c = fi.cls or (fi.parent.cls if fi.parent else None)
        if c is not None and c.qual in (FP, DP):
            continue
        for e in ctx.effects.direct(fi):
            if e.kind in common.MUTATING_KINDS:
                facts = common.facts_at(ctx, fi, e.node, "nx")
                if _dry_guard(facts):
                    out.append(ctx.ok(R, fi, e.node, f"{e.prim} guarded by dry_run"))
                else:
                    out.append(ctx.viol(R, fi, e.node, f"{e.prim} in {fi.qual.split(':')[-1]} bypasses the modification proxy and is not guarded by dry_run"))
        for (n, tg, ext) in ctx.calls.callees(fi):
            if not isinstance(n, ast.Call):
                continue
            for t in tg:
                if t.qual in ("signac.job:Job.init", "signac.job:Job.reset", "signac.job:Job.clear", "signac.job:Job.remove",
                              "signac.job:Job.update_statepoint", "signac.job:Job.move"):
                    facts = common.facts_at(ctx, fi, n, "nx")
                    if _dry_guard(facts):
                        out.append(ctx.ok(R, fi, n, f"{t.name}() on the destination is guarded by `not dry_run`"))
                    else:
                        out.append(ctx.viol(R, fi, n, f"{stmt_key(n, 40)} is executed during a dry run: it creates / changes a job directory"))
                if t.qual == "signac.project:Project.clone":
                    ct = kwarg(n, "copytree") or (n.args[1] if len(n.args) > 1 else None)
                    if ct is not None and isinstance(ct, ast.Attribute) and ct.attr == "copytree" and ctx.calls.type_of(ct.value, fi) == FP:
                        out.append(ctx.ok(R, fi, n, "Project.clone is given the proxy's copytree"))
                    elif isinstance(ct, ast.Name) and ctx.calls.resolve_name_to_func(fi.module, ct.id, fi) is not None:
                        w = ctx.calls.resolve_name_to_func(fi.module, ct.id, fi)
                        inner_ct = [c for c in body_nodes(w) if isinstance(c, ast.Call) and isinstance(c.func, ast.Attribute) and c.func.attr == "copytree"
                                    and ctx.calls.type_of(c.func.value, w) == FP]
                        direct = [e for e in ctx.effects.direct(w) if e.kind in common.MUTATING_KINDS]
                        if inner_ct and not direct:
                            out.append(ctx.ok(R, fi, n, f"Project.clone is given {ct.id}, a wrapper that copies only through the proxy's copytree"))
                        else:
                            out.append(ctx.viol(R, fi, n, f"Project.clone is given {ct.id}, which does not copy through the proxy (direct effects: {[e.prim for e in direct]}): cloning also happens in a dry run"))
                    else:
                        out.append(ctx.viol(R, fi, n, "Project.clone is called without the proxy's copytree: cloning uses shutil.copytree directly, also in a dry run"))
        # document sync functions get the proxy, not the raw destination document
        env = ctx.env(fi)
        for n in body_nodes(fi):
            if isinstance(n, ast.Call) and isinstance(n.func, ast.Name) and n.func.id == "doc_sync" and len(n.args) >= 2:
                b = n.args[1]
                ok = False
                if isinstance(b, ast.Name):
                    for w in body_nodes(fi):
                        if isinstance(w, ast.With):
                            for it in w.items:
                                if isinstance(it.optional_vars, ast.Name) and it.optional_vars.id == b.id and isinstance(it.context_expr, ast.Call) \
                                        and isinstance(it.context_expr.func, ast.Attribute) and it.context_expr.func.attr == "create_doc_backup":
                                    ok = True
                if ok:
                    out.append(ctx.ok(R, fi, n, "the document sync function writes through the proxy obtained from create_doc_backup"))
                else:
                    out.append(ctx.viol(R, fi, n, f"doc_sync is handed {stmt_key(b, 40)} instead of the backup proxy: document changes are neither gated by dry_run nor rolled back"))
    # Project.clone itself must not write: in a dry run its only mutation is the (gated) copytree callable it is handed
    cl = ctx.fn("signac.project:Project.clone")
    eff, clo = ctx.effects.transitive([cl])
    bad = [e for e in eff if e.kind in common.MUTATING_KINDS and e.fi.qual != cl.qual]
    direct = [e for e in ctx.effects.direct(cl) if e.kind in common.MUTATING_KINDS]
    k = cl.qual + "|effect-free"
    if bad or direct:
        e = (bad or direct)[0]
        chain = common.call_chain(ctx, cl, e.fi.qual) or [cl.qual, e.fi.qual]
        out.append(ctx.viol(R, e.fi, e.node, f"Project.clone can {e.prim} on its own (via {' -> '.join(c.split(':')[-1] for c in chain)}): sync_projects clones through it with the proxy's no-op "
                            "copytree during a dry run, so this write happens in the destination although dry_run is set", construct=k, witness=chain))
    else:
        out.append(ctx.ok(R, cl, cl.node, f"apart from the copytree callable it is given, Project.clone performs no write ({len(clo)} functions in its closure)", construct=k))
    if not out:
        out.append(ctx.inc(R, None, None, "no instance", construct="c15c"))
    return out


@rule("C15-d")
def c15_d(ctx: Ctx):
    """Options are forwarded and used: sync_projects -> sync_jobs / proxy; sync_jobs -> _sync_job_workspaces; deep selects the comparator; exclude precedes copies."""
    R = "C15-d"
    out = []
    sp, sj, sjw = ctx.fn(SP), ctx.fn(SJ), ctx.fn(SJW)
    inner = sp.nested.get("_clone_or_sync")
    if inner is None:
        return [ctx.inc(R, sp, sp.node, "sync_projects has no nested _clone_or_sync")]
    sj_calls = [n for n in body_nodes(inner) if isinstance(n, ast.Call) and SJ in common.targets_of(ctx, inner, n)]
    proxy_ctor = [n for n in body_nodes(sp) if isinstance(n, ast.Call) and (FP + ".__init__") in common.targets_of(ctx, sp, n)]
    if len(sj_calls) != 1 or len(proxy_ctor) != 1:
        return [ctx.inc(R, sp, sp.node, f"expected one sync_jobs call and one proxy constructor, found {len(sj_calls)} / {len(proxy_ctor)}")]
    call, ctor = sj_calls[0], proxy_ctor[0]
    forwarded_proxy = any(k.arg == "dry_run" and isinstance(k.value, ast.Name) and ctx.calls.var_env(inner).get(k.value.id) == FP for k in call.keywords)
    shared = [p for p in sp.params if p in sj.params and p not in ("src", "dst")]
    for p in shared:
        in_call = any(k.arg == p and p in names_in(k.value) for k in call.keywords)
        in_ctor = forwarded_proxy and any(p in names_in(k.value) for k in ctor.keywords)
        k = f"{SP}|forward:{p}"
        if in_call or in_ctor:
            out.append(ctx.ok(R, sp, call if in_call else ctor, f"option '{p}' is forwarded to {'sync_jobs' if in_call else 'the proxy handed to sync_jobs'}", construct=k))
        else:
            out.append(ctx.viol(R, sp, call, f"sync_projects accepts '{p}' but does not forward it to the per-job synchronisation: the option is silently ignored at project level", construct=k))
    # options of sync_jobs must be used; those shared with _sync_job_workspaces must be passed on
    jw_calls = [n for n in body_nodes(sj) if isinstance(n, ast.Call) and SJW in common.targets_of(ctx, sj, n)]
    used = {x.id for x in body_nodes(sj) if isinstance(x, ast.Name) and isinstance(x.ctx, ast.Load)}
    for p in sj.params:
        k = f"{SJ}|use:{p}"
        if p not in used:
            out.append(ctx.viol(R, sj, sj.node, f"sync_jobs accepts '{p}' but never reads it", construct=k))
        elif p in sjw.params and p not in ("src", "dst"):
            dn = common.derived_names(sj, p)
            okc = jw_calls and all(common.arg_for_param(sjw, c, p) is not None and (dn & names_in(common.arg_for_param(sjw, c, p))) for c in jw_calls)
            if okc:
                out.append(ctx.ok(R, sj, jw_calls[0], f"option '{p}' is passed to the file walk", construct=k))
            else:
                out.append(ctx.viol(R, sj, sj.node, f"sync_jobs does not pass '{p}' to _sync_job_workspaces", construct=k))
    # recursion passes every option down
    rec = [n for n in body_nodes(sjw) if isinstance(n, ast.Call) and SJW in common.targets_of(ctx, sjw, n)]
    for c in rec:
        for p in sjw.params:
            if p == "subdir":
                continue
            k = f"{SJW}|rec:{p}"
            av = common.arg_for_param(sjw, c, p)
            if av is not None and p in names_in(av):
                out.append(ctx.ok(R, sjw, c, f"recursion passes '{p}' down", construct=k))
            else:
                out.append(ctx.viol(R, sjw, c, f"the recursive call of _sync_job_workspaces drops '{p}': sub-directories are synchronised with the default", construct=k))
    # deep selects the comparator
    deep_ok = False
    for n in body_nodes(sjw):
        if isinstance(n, ast.Call) and (dotted(n.func) or "").endswith("_dircmp_deep"):
            facts = common.facts_at(ctx, sjw, n, "n")
            if ("deep", True) in facts:
                deep_ok = True
                out.append(ctx.ok(R, sjw, n, "under deep the content comparator _dircmp_deep is used", construct=SJW + "|deep-comparator"))
    if not deep_ok:
        out.append(ctx.viol(R, sjw, sjw.node, "`deep` does not select the content comparator", construct=SJW + "|deep-comparator"))
    ci = ctx.prog.classes.get("signac.sync:_dircmp_deep")
    if ci is None:
        # moved to another module of the package (and imported from there): the class of that name wherever it lives
        cands = [c for q, c in ctx.prog.classes.items() if q.endswith(":_dircmp_deep") and not c.module.is_dep]
        ci = cands[0] if len(cands) == 1 else None
    k = "signac.sync:_dircmp_deep|methodmap"
    if ci is None:
        out.append(ctx.inc(R, None, None, "class _dircmp_deep not found", construct=k))
    else:
        ph = ci.methods.get("phase3")
        shallow_false = False
        if ph:
            for n in body_nodes(ph):
                if isinstance(n, ast.Call) and (dotted(n.func) or "").endswith("cmpfiles"):
                    v = kwarg(n, "shallow") or (n.args[3] if len(n.args) > 3 else None)
                    shallow_false = v is not None and ctx.fold(v, ph) is False
        reg = set()
        for st in ci.node.body:
            if isinstance(st, ast.Assign):
                for t in st.targets:
                    if isinstance(t, ast.Subscript) and canon(t.value) == "methodmap" and isinstance(st.value, ast.Name) and st.value.id == "phase3":
                        v = ctx.fold(t.slice, None, ci.module)
                        if isinstance(v, str):
                            reg.add(v)
        base_is_copy = "methodmap" in ci.attrs and canon(ci.attrs["methodmap"]) in ("dict(dircmp.methodmap)", "dircmp.methodmap.copy()", "{**dircmp.methodmap}")
        if ph and shallow_false and {"diff_files", "same_files"} <= reg and base_is_copy:
            out.append(ctx.ok(R, None, None, "_dircmp_deep.phase3 compares with shallow=False and is registered for same_files / diff_files in a copy of dircmp.methodmap", construct=k))
        elif ph and not shallow_false:
            out.append(ctx.viol(R, ph, ph.node, "_dircmp_deep.phase3 does not compare with shallow=False: deep=True still compares by size and mtime", construct=k))
        else:
            out.append(ctx.viol(R, None, None, f"signac/sync.py:{ci.node.lineno}: _dircmp_deep overrides phase3 but does not register it in methodmap for same_files/diff_files "
                                f"(registered: {sorted(reg)}); filecmp.dircmp dispatches through methodmap, so the shallow phase3 of the base class is used and deep=True has no effect",
                                construct=k))
    # every attribute of the comparator that phase3 computes and the file walk reads must be remapped to the deep phase3
    if ci is not None:
        # the comparator: the local(s) bound to dircmp(...) / _dircmp_deep(...)
        cmpv = {t.id for n in body_nodes(sjw) if isinstance(n, ast.Assign) and isinstance(n.value, ast.Call) and (dotted(n.value.func) or "").split(".")[-1] in ("dircmp", "_dircmp_deep")
                for t in n.targets if isinstance(t, ast.Name)}
        read = {n.attr for n in body_nodes(sjw) if isinstance(n, ast.Attribute) and isinstance(n.value, ast.Name) and n.value.id in cmpv}
        phase3_attrs = {"same_files", "diff_files", "funny_files"}
        reg2 = set()
        for st in ci.node.body:
            if isinstance(st, ast.Assign):
                for t in st.targets:
                    if isinstance(t, ast.Subscript) and canon(t.value) == "methodmap":
                        v = ctx.fold(t.slice, None, ci.module)
                        if isinstance(v, str):
                            reg2.add(v)
        unmapped = sorted((read & phase3_attrs) - reg2)
        k3 = SJW + "|phase3-attrs"
        if unmapped:
            out.append(ctx.viol(R, sjw, sjw.node, f"the file walk reads diff.{unmapped[0]}, which filecmp computes in phase3 but which _dircmp_deep does not remap: the first access runs the base class's "
                                "shallow comparison and fills diff_files as well, so deep=True silently compares by size and mtime", construct=k3))
        else:
            out.append(ctx.ok(R, sjw, sjw.node, f"phase3 results read by the file walk ({sorted(read & phase3_attrs)}) are all remapped to the content comparison", construct=k3))
    # exclude is tested before every copy in the file walk
    loops = [n for n in body_nodes(sjw) if isinstance(n, ast.For) and canon(n.iter).endswith((".left_only", ".diff_files"))]
    if len(loops) < 2:
        out.append(ctx.inc(R, sjw, sjw.node, "left_only / diff_files loops not found"))
    for lp in loops:
        copies = [c for st in lp.body for c in walk_no_nested(st) if isinstance(c, ast.Call) and isinstance(c.func, ast.Name) and c.func.id in ("copy", "copytree")]
        for c in copies:
            facts = common.facts_at(ctx, sjw, c, "n")
            ex = [t for (t, pol) in facts if not pol and "exclude" in t]
            k2 = f"{SJW}|exclude-before:{canon(lp.iter).split('.')[-1]}:{c.func.id}"
            if ex:
                verdict, msg = common.exclude_predicate_verdict(ctx, sjw, ex[0], canon(lp.target))
                if verdict == "ok":
                    out.append(ctx.ok(R, sjw, c, "copy is reached only for names that match no exclude pattern; " + msg, construct=k2))
                elif verdict == "viol":
                    out.append(ctx.viol(R, sjw, c, msg, construct=k2))
                else:
                    out.append(ctx.inc(R, sjw, c, msg + ": " + ex[0][:60], construct=k2))
            else:
                out.append(ctx.viol(R, sjw, c, "a file is copied without testing the exclude patterns", construct=k2))
    # the exclude list belongs to the caller (and is shared by the jobs of a parallel project sync): sync_jobs works on its own copy
    from .lints import param_not_mutated
    out += param_not_mutated(ctx, R, [(SJ, "exclude", "a list re-used for a later call (or shared by the jobs of a parallel project sync) keeps the reserved state point / document names of "
                                       "the earlier call: with doc_sync=COPY the job document is then silently not copied, and any clone-side filter built from the list drops the state point file")])
    # clone branch and exclude (known gap)
    clone_calls = [n for n in body_nodes(inner) if isinstance(n, ast.Call) and "signac.project:Project.clone" in common.targets_of(ctx, inner, n)]
    for c in clone_calls:
        argnames = {x for a in list(c.args) + [k.value for k in c.keywords] for x in names_in(a)}
        for an in list(argnames):
            w = ctx.calls.resolve_name_to_func(inner.module, an, inner)
            if w is not None and w.parent is not None:
                argnames |= {x.id for x in body_nodes(w) if isinstance(x, ast.Name)}
        # a clone-side filter must never drop the state point file / job document
        igs = []
        for an in {x for a in list(c.args) + [k.value for k in c.keywords] for x in names_in(a)}:
            w = ctx.calls.resolve_name_to_func(inner.module, an, inner)
            if w is not None and w.parent is not None:
                for cc in body_nodes(w):
                    if isinstance(cc, ast.Call) and kwarg(cc, "ignore") is not None:
                        igs.append((w, cc, kwarg(cc, "ignore")))
        for w, cc, ig in igs:
            cb = ctx.calls.resolve_name_to_func(w.module, ig.id, w) if isinstance(ig, ast.Name) else None
            txt = " ".join(canon(n) for n in body_nodes(cb)) if cb is not None else canon(ig)
            kx = SP + "|clone-ignore-reserved"
            if "FN_STATE_POINT" in txt or "signac_statepoint" in txt:
                out.append(ctx.ok(R, w, cc, "the clone-side exclude filter never selects the state point file", construct=kx))
            else:
                out.append(ctx.viol(R, w, cc, "newly cloned jobs are copied with an ignore= filter built from the user's exclude patterns that does not protect the reserved names: a pattern "
                                    "that also matches signac_statepoint.json ('.*\\.json', 'signac_.*', the CLI's bare --exclude) leaves the cloned job without state point file", construct=kx))
        if "exclude" in argnames:
            out.append(ctx.ok(R, inner, c, "the clone branch takes exclude into account", construct=SP + "|clone-exclude"))
        else:
            out.append(ctx.viol(R, inner, c, "jobs that do not exist in the destination are cloned with all their files: `exclude` has no influence on the clone branch",
                                construct=SP + "|clone-exclude"))
    return out


@rule("C15-e")
def c15_e(ctx: Ctx):
    """Every resolved internal call is arity / keyword compatible with its callee."""
    R = "C15-e"
    out = []
    n_checked = 0
    for fi in ctx.prog.funcs.values():
        if fi.module.is_dep:
            continue
        for (n, tg, ext) in ctx.calls.callees(fi):
            if not isinstance(n, ast.Call) or len(tg) != 1:
                continue
            t = tg[0]
            if t.module.is_dep:
                continue
            if any(isinstance(a, ast.Starred) for a in n.args) or any(k.arg is None for k in n.keywords):
                continue
            a = t.node.args
            pos = [x.arg for x in a.posonlyargs + a.args]
            bound = 0
            if t.cls is not None and pos and pos[0] in ("self", "cls") and "staticmethod" not in t.decorators:
                # bound call (method on instance / class, constructor)
                is_unbound = isinstance(n.func, ast.Attribute) and isinstance(n.func.value, ast.Name) and \
                    ctx.prog.resolve_class_name(fi.module, n.func.value.id) and "classmethod" not in t.decorators and t.name != "__init__"
                if not is_unbound:
                    bound = 1
            n_checked += 1
            npos = len(n.args) + bound
            kws = [k.arg for k in n.keywords]
            problem = None
            if npos > len(pos) and a.vararg is None:
                problem = f"{npos - bound} positional argument(s) given, {len(pos) - bound} accepted"
            allnames = set(pos) | {x.arg for x in a.kwonlyargs}
            for k in kws:
                if k not in allnames and a.kwarg is None:
                    problem = f"unexpected keyword '{k}'"
            ndefault = len(a.defaults)
            required = pos[bound:len(pos) - ndefault] if ndefault else pos[bound:]
            given = set(pos[bound:npos]) | set(kws)
            missing = [r for r in required if r not in given]
            if missing and problem is None:
                problem = f"missing argument(s) {missing}"
            if problem:
                out.append(ctx.viol(R, fi, n, f"call {stmt_key(n, 60)} is incompatible with {t.qual}: {problem} (TypeError when this line executes)"))
    out.append(ctx.ok(R, None, None, f"{n_checked} resolved internal call sites are arity / keyword compatible", construct="arity") if not out
               else ctx.info(R, None, None, f"{n_checked} call sites checked", construct="arity"))
    if n_checked < 150:
        out.append(ctx.inc(R, None, None, f"only {n_checked} internal call sites resolved (expected >= 150)", construct="arity-count"))
    return out


@rule("C15-f")
def c15_f(ctx: Ctx):
    """Selection filtering and parallel == sequential structure."""
    R = "C15-f"
    sp = ctx.fn(SP)
    out = []
    # the job list: the local that _clone_or_sync is mapped over (parallel branch) / iterated with (sequential branch)
    par0 = [n for n in body_nodes(sp) if isinstance(n, ast.Call) and isinstance(n.func, ast.Attribute) and n.func.attr in ("imap", "map", "imap_unordered")
            and len(n.args) >= 2 and canon(n.args[0]) == "_clone_or_sync"]
    JV = par0[0].args[1].id if par0 and isinstance(par0[0].args[1], ast.Name) else None
    if JV is None:
        # fall back to the sequential branch: the iterable of the loop that calls _clone_or_sync(...)
        pm0 = ctx.parents(sp)
        for c0 in [n for n in body_nodes(sp) if isinstance(n, ast.Call) and ((isinstance(n.func, ast.Name) and n.func.id == "_clone_or_sync")
                                                                          or any(isinstance(a, ast.Name) and a.id == "_clone_or_sync" for a in n.args))]:
            cur = pm0.get(id(c0))
            while cur is not None and not isinstance(cur, ast.For):
                cur = pm0.get(id(cur))
            if cur is not None:
                nm = [x.id for x in ast.walk(cur.iter) if isinstance(x, ast.Name)]
                if nm:
                    JV = nm[-1]
                    break
    JV = JV or "jobs_to_sync"
    assigns = [n for n in body_nodes(sp) if isinstance(n, ast.Assign) and any(isinstance(t, ast.Name) and t.id == JV for t in n.targets)]
    if not assigns:
        return [ctx.inc(R, sp, sp.node, "the list of jobs to synchronise was not found")]
    for a in assigns:
        v = a.value
        facts = common.facts_at(ctx, sp, a, "n")
        filt = None
        if isinstance(v, ast.ListComp):
            conds = [canon(c) for g in v.generators for c in g.ifs]
            filt = conds
        if filt is None:
            # unfiltered: whole source
            if ("selection is None", True) in facts:
                out.append(ctx.ok(R, sp, a, "all source jobs are taken only when selection is None"))
            else:
                out.append(ctx.viol(R, sp, a, f"all source jobs are synchronised on a path where selection is not known to be None (facts: {sorted(facts)}): "
                                    "an empty selection is treated like no selection"))
        else:
            sel = [c for c in filt if "selection" in c]
            if not sel:
                out.append(ctx.viol(R, sp, a, "the job list is built by a comprehension that does not test the selection"))
            elif all(common.pmatch("J.id in selection", ast.parse(c, mode="eval").body) or common.pmatch("str(J) in selection", ast.parse(c, mode="eval").body)
                     or common.pmatch("J.id in selection or J in selection", ast.parse(c, mode="eval").body) for c in sel):
                out.append(ctx.ok(R, sp, a, "jobs are filtered by membership of their id in the selection"))
            else:
                out.append(ctx.viol(R, sp, a, f"selection filter `{sel[0]}` lets jobs through that are not selected (e.g. when the selection is empty)"))
    from .lints import sentinel_discipline, single_consumption
    out += single_consumption(ctx, R, [
        ("signac.project:Project.sync", "selection", "a selection given as a generator / filter object is exhausted by the first pass; sync_projects then sees an empty selection and synchronises nothing"),
        (SP, "selection", "a selection given as a generator is exhausted by the first pass"),
    ])
    out += sentinel_discipline(ctx, R, [(SP, "selection", "an empty selection (no job chosen, a cursor that matches nothing) is a selection: treated as 'not given' every source job is cloned / synchronised")])
    # parallel == sequential also requires that every task is bound to its own job (no closure that picks up a later element)
    from .lints import late_binding_in_loops
    out += late_binding_in_loops(ctx, R, ("signac.sync",))
    # parallel vs sequential
    inner = sp.nested.get("_clone_or_sync")
    par = [n for n in body_nodes(sp) if isinstance(n, ast.Call) and isinstance(n.func, ast.Attribute) and n.func.attr in ("imap", "map", "imap_unordered")]
    seq = [n for n in body_nodes(sp) if isinstance(n, ast.Call) and isinstance(n.func, ast.Name) and n.func.id == "_clone_or_sync"]
    fire_forget = [n for n in body_nodes(sp) if isinstance(n, ast.Expr) and isinstance(n.value, ast.Call) and isinstance(n.value.func, ast.Attribute)
                   and n.value.func.attr in ("apply_async", "map_async", "starmap_async", "submit")]
    if fire_forget:
        out.append(ctx.viol(R, sp, fire_forget[0], f"the parallel branch starts jobs with {canon(fire_forget[0].value.func)}(...) and never collects the results: an exception raised while "
                            "synchronising a job (FileSyncConflict, DocumentSyncConflict, an I/O error) is discarded, the sync returns normally although that job was not synchronised - "
                            "parallel and sequential runs differ", construct=SP + "|parallel-propagates-errors"))
    elif inner is not None and par and not seq and [n for n in body_nodes(sp) if isinstance(n, ast.Call) and isinstance(n.func, ast.Name) and n.func.id == "map" and len(n.args) == 2]:
        # the sequential branch is the built-in map over the same function and list (one consuming loop for both branches)
        smap = [n for n in body_nodes(sp) if isinstance(n, ast.Call) and isinstance(n.func, ast.Name) and n.func.id == "map" and len(n.args) == 2]
        pp = [n for n in par if n.args and canon(n.args[0]) == "_clone_or_sync"]
        okp = pp and all(len(n.args) >= 2 and canon(n.args[1]) == JV for n in pp)
        oks = all(canon(n.args[0]) == "_clone_or_sync" and canon(n.args[1]) == JV for n in smap)
        if okp and oks:
            out.append(ctx.ok(R, sp, pp[0], "parallel (pool.imap) and sequential (map) branches apply _clone_or_sync to the same jobs_to_sync"))
        else:
            out.append(ctx.viol(R, sp, (pp or smap)[0], "parallel and sequential branches do not apply the same function to the same job list"))
    elif inner is None or not par or not seq:
        out.append(ctx.inc(R, sp, sp.node, "parallel / sequential application of _clone_or_sync not found"))
    else:
        p = par[0]
        ok_par = len(p.args) >= 2 and canon(p.args[0]) == "_clone_or_sync" and canon(p.args[1]) == JV
        pm = ctx.parents(sp)
        cur = pm.get(id(seq[0]))
        loop = None
        while cur is not None:
            if isinstance(cur, ast.For):
                loop = cur
                break
            cur = pm.get(id(cur))
        ok_seq = loop is not None and JV in names_in(loop.iter) and "[" not in canon(loop.iter)
        if ok_par and ok_seq:
            out.append(ctx.ok(R, sp, p, "parallel and sequential branches apply _clone_or_sync to the same jobs_to_sync"))
        else:
            out.append(ctx.viol(R, sp, p, "parallel and sequential branches do not apply the same function to the same job list"))
    return out


@rule("C15-h")
def c15_h(ctx: Ctx):
    """Whole-package cross-checks for the synchronisation: no exchanged positional arguments in resolved internal calls; diagnostics do no work."""
    from .lints import swapped_arguments, pure_logging
    return swapped_arguments(ctx, "C15-h", ["signac.sync", "signac.project", "signac.job"]) + pure_logging(ctx, "C15-h", ["signac.sync", "signac.project", "signac.job"])


@rule("C15-g")
def c15_g(ctx: Ctx):
    """Reading dst.document / dst.stores during a (dry-run) sync cannot write: the lazy accessors initialise without validation."""
    return common.lazy_accessor_init(ctx, "C15-g")


@rule("C15-i")
def c15_i(ctx: Ctx):
    """Reading job.document / job.stores in a dry run cannot write even when the job directory exists without a state point file: init(validate_statepoint=False)
    - what the lazy accessors call - returns as soon as the directory exists; every path of Job.init to a write either has validate_statepoint true or has
    seen os.path.isdir(self.path) fail."""
    R = "C15-i"
    f = ctx.fn("signac.job:Job.init")
    cfg = ctx.cfg(f)
    out = []
    k = f.qual + "|no-write-without-validation-when-directory-exists"
    vp = "validate_statepoint"
    if vp not in f.params:
        return [ctx.inc(R, f, f.node, "Job.init has no validate_statepoint parameter", construct=k)]
    writes = set()
    for n in cfg.stmt_nodes():
        if n.kind != "stmt":
            continue
        for c in walk_no_nested(n.ast):
            if isinstance(c, ast.Call):
                e = common.ext_name(ctx, f, c) or ""
                tq = common.targets_of(ctx, f, c)
                if e in ("os.makedirs", "os.mkdir") or any(t.endswith(":_mkdir_p") or t.endswith("_StatePointDict.save") for t in tq) or \
                        (isinstance(c.func, ast.Attribute) and c.func.attr == "save" and "statepoint" in canon(c.func.value)):
                    writes.add(n.id)
    if not writes:
        return [ctx.inc(R, f, f.node, "no directory creation / state point save found in Job.init", construct=k)]
    bad = None
    total = 0
    for w in sorted(writes):
        paths, trunc = cfg.paths_to(w, kinds="nx")
        if trunc:
            return [ctx.inc(R, f, cfg.nodes[w].ast, "path enumeration truncated", construct=k)]
        for path, facts in paths:
            total += 1
            facts = common.expand_facts(ctx, f, facts)
            if common.entails(facts, vp, True):
                continue
            if any(common.entails(facts, probe, False) for probe in ("os.path.isdir(self.path)", "os.path.exists(self.path)", "os.path.lexists(self.path)")):
                continue
            bad = (w, path)
    if bad:
        out.append(ctx.viol(R, f, cfg.nodes[bad[0]].ast, "Job.init can reach the directory creation / state point save with validate_statepoint=False without having tested that the job "
                            "directory is absent: the lazy accessors (job.document, job.stores - evaluated by every sync, also a dry run) then write signac_statepoint.json into a job "
                            "directory that exists without one", witness=cfg.describe_path(bad[1]), construct=k))
    else:
        out.append(ctx.ok(R, f, f.node, f"all {total} paths to a write in Job.init have validate_statepoint true or saw os.path.isdir(self.path) fail", construct=k))
    return out


@rule("C15-j")
def c15_j(ctx: Ctx):
    """Command line front end of sync: an empty selection selects nothing, the selection is not computed in the destination, option values arrive unchanged."""
    from . import cli
    return cli.selection_discipline(ctx, "C15-j", {"main_sync"}) + cli.selection_from_source(ctx, "C15-j") + cli.option_forwarding(ctx, "C15-j", ["main_sync"])


RULES = [c15_a, c15_b, c15_c, c15_d, c15_e, c15_f, c15_g, c15_h, c15_i, c15_j]
