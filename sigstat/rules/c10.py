"""C10 - documents and the cache file are replaced atomically."""
import ast
import re

from ..engine import rule, Ctx
from ..core import UNKNOWN, dotted, kwarg, body_nodes, inline, stmt_key, canon, walk_no_nested, resolve_import_name
from . import common
from .c03 import _own, _is_tilde

PROP = "C10"
FLOOR = 9
EXPLANATION = (
    "Decided (the guarantee is a code shape): (a) every job / project document collection (Job.document, Project.document, "
    "migration v1->v2) is constructed with write_concern folding to the constant True; (b) in the installed synced_collections "
    "dependency JSONCollection._save_to_resource, under the _write_concern condition, writes to a file different from the "
    "target and os.replace(tmp, self._filename) follows the write on every normal path, and the buffer modules reach files "
    "only through _save_to_resource (no own write-mode open); (c) Project.update_cache writes the cache to a temporary that "
    "is different from the cache file, renames it onto the cache file only after the `with` block has completed, and on "
    "failure re-raises; (d) no other code in signac opens-for-writing or copies onto a path that is recognisably a job "
    "document, project document or the cache file."
    ' The rename that publishes the cache is never executed inside a `with` that still holds a file object writing the temporary (rename after close).'
    ' (g) a rename onto the cache / document file installs only a temporary that the same function has written (C10-g).'
    ' (h) migration steps place files by rename only, never by copying (C10-h).'
)
UNDECIDED = "Torn-prefix behaviour of the file system, durability without fsync and reader scheduling are not decided (no execution)."
ASSUMPTIONS = ["os.replace is atomic on the platform; the synced_collections source found on sys.path is the one imported at run time."]

DOC_SITES = ["signac.job:Job.document", "signac.project:Project.document", "signac.migration.v1_to_v2:_migrate_v1_to_v2"]
UPD = "signac.project:Project.update_cache"


def doc_ctor_calls(ctx, fi):
    out = []
    for n in body_nodes(fi):
        if isinstance(n, ast.Call):
            d = dotted(n.func)
            full = resolve_import_name(fi.module, d) if d else None
            fnkw = kwarg(n, "filename")
            if fnkw is not None and not (full and full.startswith("synced_collections.")) and not (d or "").endswith("_StatePointDict") \
                    and fi.module.name in ("signac.job", "signac.project") and isinstance(n.func, (ast.Call, ast.Name, ast.Attribute)):
                t = canon(fnkw)
                if "FN_DOCUMENT" in t or t.endswith(".filename") or t.endswith("._filename") or "fn_doc" in t:
                    out.append((n, "synced_collections.<dynamic>." + (canon(n.func)[:30])))
                    continue
            if full and full.startswith("synced_collections.") and full.split(".")[-1] in (
                    "BufferedJSONAttrDict", "JSONAttrDict", "JSONDict", "BufferedJSONDict", "MemoryBufferedJSONAttrDict", "MemoryBufferedJSONDict"):
                out.append((n, full))
    return out


@rule("C10-a")
def c10_a(ctx: Ctx):
    """Every document collection is constructed with write_concern=True (constant)."""
    R = "C10-a"
    out = []
    sites = [ctx.fn(q) for q in DOC_SITES]
    for f in ctx.prog.funcs.values():
        if f.module.is_dep or f in sites or f.module.name == "signac.__main__":
            continue
        if doc_ctor_calls(ctx, f):
            sites.append(f)  # a new place that opens a document file
    for fi in sites:
        q = fi.qual
        calls = doc_ctor_calls(ctx, fi)
        if not calls:
            out.append(ctx.inc(R, fi, fi.node, "no document collection constructor found"))
        for c, full in calls:
            v = kwarg(c, "write_concern")
            if v is None and len(c.args) >= 2:
                v = c.args[1]
            k = f"{q}|write_concern"
            if v is None:
                out.append(ctx.viol(R, fi, c, "document constructed without write_concern (default False): the file is truncated and rewritten in place", construct=k))
                continue
            fv = ctx.fold(v, fi)
            if fv is True:
                out.append(ctx.ok(R, fi, c, f"{full.split('.')[-1]}(..., write_concern=True)", construct=k))
            elif fv is UNKNOWN:
                if any(isinstance(x, (ast.Call, ast.Compare, ast.BoolOp, ast.IfExp)) for x in ast.walk(v)):
                    out.append(ctx.viol(R, fi, c, f"write_concern={stmt_key(v, 50)} depends on a run-time value fixed when the handle is created: "
                                        "for some states the document is rewritten in place (non-atomically)", construct=k))
                else:
                    out.append(ctx.inc(R, fi, c, f"write_concern={stmt_key(v, 50)} is not a constant", construct=k))
            else:
                out.append(ctx.viol(R, fi, c, f"write_concern={fv!r}: the document file is truncated and rewritten in place", construct=k))
    return out


@rule("C10-b")
def c10_b(ctx: Ctx):
    """Dependency: under write_concern the JSON backend writes a temporary and os.replace()s it; buffers write only through it."""
    R = "C10-b"
    out = []
    q = "synced_collections.backends.collection_json:JSONCollection._save_to_resource"
    fi = ctx.fn(q)
    cfg = ctx.cfg(fi)
    ifs = [n for n in cfg.stmt_nodes() if n.kind == "test" and isinstance(n.ast, ast.If) and "_write_concern" in canon(n.ast.test)]
    if not ifs:
        return [ctx.inc(R, fi, fi.node, "no branch on self._write_concern in _save_to_resource")]
    I = ifs[0].ast
    t = I.test
    pos_branch = I.body
    if not (isinstance(t, ast.BoolOp) and isinstance(t.op, ast.Or) and any(canon(v) == "self._write_concern" for v in t.values)) \
            and canon(t) != "self._write_concern":
        return [ctx.inc(R, fi, I, "write_concern condition has an unrecognised shape: " + canon(t))]
    opens = [e for e in ctx.effects.direct(fi) if e.kind in ("open-write", "unknown-open")]
    in_pos = [e for e in opens if common.in_body_of(ctx, fi, e.node, I, ("body",))]
    if not in_pos:
        out.append(ctx.inc(R, fi, I, "no write-mode open under write_concern"))
    for e in in_pos:
        tgt = canon(e.target, ctx.env(fi)) if e.target is not None else "?"
        if tgt in ("self._filename", "self.filename"):
            out.append(ctx.viol(R, fi, e.node, "under write_concern the target file itself is opened for writing"))
            continue
        st = ctx.stmt_of(fi, e.node)
        rep = {n.id for n in cfg.stmt_nodes() for sub in _own(n.ast) for c in walk_no_nested(sub)
               if isinstance(c, ast.Call) and common.ext_name(ctx, fi, c) == "os.replace" and len(c.args) == 2
               and canon(c.args[1]) in ("self._filename", "self.filename") and canon(c.args[0], ctx.env(fi)) == tgt}
        bad = None
        for sid in cfg.node_ids_for(st):
            bad = bad or cfg.must_pass_after(sid, rep, exits={cfg.exit}, kinds="n")
        inside = any(common.in_body_of(ctx, fi, cfg.nodes[r].ast, st, ("body",)) for r in rep) if isinstance(st, ast.With) else False
        if bad is None and rep and not inside:
            out.append(ctx.ok(R, fi, e.node, f"write_concern: data goes to a temporary ({stmt_key(e.target, 40)}) and os.replace(tmp, self._filename) follows after the file is closed"))
        else:
            out.append(ctx.viol(R, fi, e.node, "write_concern branch does not end in os.replace(tmp, self._filename) after closing the temporary"))
    # buffer modules: no own write-mode open
    n_buf = 0
    for f in ctx.prog.funcs.values():
        if f.module.name.startswith("synced_collections.buffers"):
            n_buf += 1
            for e in ctx.effects.direct(f):
                if e.kind in ("open-write", "write", "rename"):
                    out.append(ctx.viol(R, f, e.node, f"buffer layer writes files itself ({e.prim}), bypassing the atomic _save_to_resource"))
    if n_buf:
        out.append(ctx.ok(R, None, None, f"{n_buf} functions of synced_collections.buffers analysed: files are reached only through _save_to_resource",
                          construct="buffers|no-own-write"))
    else:
        out.append(ctx.inc(R, None, None, "synced_collections.buffers not found", construct="buffers|no-own-write"))
    return out


@rule("C10-c")
def c10_c(ctx: Ctx):
    """update_cache: write to a different temporary, rename after the with block, re-raise on failure."""
    R = "C10-c"
    fi = ctx.fn(UPD)
    cfg = ctx.cfg(fi)
    env = ctx.env(fi)
    out = []
    opens = [e for e in ctx.effects.direct(fi) if e.kind in ("open-write", "unknown-open")]
    reps = []
    for n in body_nodes(fi):
        if isinstance(n, ast.Call) and common.ext_name(ctx, fi, n) in ("os.replace", "os.rename") and len(n.args) == 2:
            reps.append(n)
    # typestate: the rename that publishes the cache happens only after every writer object has been closed, i.e. never inside a `with` that holds a file object
    FILEISH = ("builtins.open", "io.open", "gzip.open", "gzip.GzipFile", "tempfile.NamedTemporaryFile", "tempfile.TemporaryFile", "os.fdopen", "bz2.open", "lzma.open")
    pm0 = ctx.parents(fi)
    for r in reps:
        cur = pm0.get(id(r))
        while cur is not None:
            if isinstance(cur, (ast.With, ast.AsyncWith)):
                for it in cur.items:
                    ce = common.inline_at(ctx, fi, it.context_expr, cur)
                    if isinstance(ce, ast.Call) and common.ext_name(ctx, fi, ce) in FILEISH:
                        out.append(ctx.viol(R, fi, r, f"{canon(r)[:50]} is executed inside `with {canon(it.context_expr)[:30]}`, i.e. while a file object writing the temporary is still open "
                                            "(not flushed / closed): the cache file is empty or torn at the instant it becomes visible, and stays so if the process dies there",
                                            construct=UPD + "|rename-after-close"))
                        return out
            cur = pm0.get(id(cur))
    if not opens:
        return [ctx.inc(R, fi, fi.node, "update_cache has no write-mode open")]
    final_txt = None
    for e in opens:
        if e.kind == "unknown-open":
            out.append(ctx.inc(R, fi, e.node, "open mode not constant"))
            continue
        mm = re.search(r"\(([^)]*)\)$", e.prim)
        mode = mm.group(1) if mm else ""
        if "a" in mode or "+" in mode and "w" not in mode:
            out.append(ctx.viol(R, fi, e.node, f"the temporary is opened with mode {mode!r}, which does not truncate: a temporary left behind by a crashed writer is appended to, and the next "
                                "successful update renames a two-member / torn file over the cache", construct=UPD + "|tmp-truncated"))
        else:
            out.append(ctx.ok(R, fi, e.node, f"the temporary is (re)created empty (mode {mode!r})", construct=UPD + "|tmp-truncated"))
        tgt = inline(e.target, env)
        ttxt = canon(tgt)
        is_cache_direct = "FN_CACHE" in ttxt and not (isinstance(tgt, ast.BinOp) and isinstance(tgt.op, ast.Add))
        if is_cache_direct:
            out.append(ctx.viol(R, fi, e.node, f"the cache file itself ({ttxt}) is opened for writing: readers and crashes observe a truncated cache"))
            continue
        suffix = ctx.fold(tgt.right, fi) if isinstance(tgt, ast.BinOp) and isinstance(tgt.op, ast.Add) else UNKNOWN
        if isinstance(suffix, str) and suffix:
            out.append(ctx.ok(R, fi, e.node, f"cache data is written to <cache file> + {suffix!r}"))
        elif isinstance(suffix, str):
            out.append(ctx.viol(R, fi, e.node, "temporary name equals the cache file name (empty suffix)"))
        else:
            out.append(ctx.inc(R, fi, e.node, "temporary name shape not recognised: " + ttxt))
        st = ctx.stmt_of(fi, e.node)
        good = [r for r in reps if canon(inline(r.args[0], env)) == ttxt and "FN_CACHE" in canon(inline(r.args[1], env))
                and canon(inline(r.args[1], env)) != ttxt]
        if not good:
            out.append(ctx.viol(R, fi, e.node, "the temporary is never renamed onto the cache file"))
            continue
        for r in good:
            rst = ctx.stmt_of(fi, r)
            if isinstance(st, ast.With) and common.in_body_of(ctx, fi, rst, st, ("body",)):
                out.append(ctx.viol(R, fi, r, "os.replace(tmp, cache) is executed inside the `with` block, before the compressed stream is closed: "
                                    "the cache file is incomplete at the instant it becomes visible"))
                continue
            # every path to the rename passes the (completed) with statement and not an exception edge of it
            rid = cfg.node_ids_for(rst)
            sid = set(cfg.node_ids_for(st))
            bad = None
            for x in rid:
                bad = bad or cfg.must_pass_before(x, sid, kinds="nx")
                # not reachable from a handler of the write
                hs = [n.id for n in cfg.nodes if n.kind == "handler"]
                for h in hs:
                    if x in cfg.reachable([h], kinds="n"):
                        pm = ctx.parents(fi)
                        tr = pm.get(id(cfg.nodes[h].ast))
                        if isinstance(tr, ast.Try) and common.in_body_of(ctx, fi, st, tr, ("body",)):
                            bad = bad or [h, x]
            if bad is None:
                out.append(ctx.ok(R, fi, r, "os.replace(tmp, cache) is reached only after the write block completed normally"))
            else:
                out.append(ctx.viol(R, fi, r, "os.replace(tmp, cache) can be reached although the write failed or did not happen",
                                    witness=cfg.describe_path(bad)))
        # failure path re-raises
        pm = ctx.parents(fi)
        cur = pm.get(id(st))
        while cur is not None and not (isinstance(cur, ast.Try) and common.in_body_of(ctx, fi, st, cur, ("body",))):
            cur = pm.get(id(cur))
        if isinstance(cur, ast.Try) and cur.handlers:
            for h in cur.handlers:
                w = common.reraises_on_all_paths(ctx, fi, h)
                if w is None:
                    out.append(ctx.ok(R, fi, h, "a failed cache write is re-raised after cleaning up"))
                else:
                    out.append(ctx.viol(R, fi, h, "a failed cache write is swallowed: update_cache reports success with no (or a stale) cache file",
                                        witness=cfg.describe_path(w)))
    return out


@rule("C10-d")
def c10_d(ctx: Ctx):
    """Who may write: no non-atomic write targets a path that is recognisably a document or the cache file."""
    R = "C10-d"
    out = []
    n_sites = 0
    jdoc = "signac_job_document.json"
    for f in ctx.prog.funcs.values():
        if f.module.is_dep or f.module.name == "signac.__main__":
            continue
        env = ctx.env(f)
        for e in ctx.effects.direct(f):
            if e.kind not in ("open-write", "write") or e.target is None:
                continue
            n_sites += 1
            t = inline(e.target, env)
            txt = canon(t)
            folded = ctx.fold(e.target, f)
            hit = None
            for tok in ("FN_DOCUMENT", "FN_CACHE"):
                if tok in txt and not (isinstance(t, ast.BinOp) and isinstance(t.op, ast.Add) and isinstance(t.right, ast.Constant) and t.right.value):
                    hit = tok
            if isinstance(folded, str) and folded.endswith(("document.json", "statepoint_cache.json.gz")):
                hit = folded
            if hit:
                out.append(ctx.viol(R, f, e.node, f"{e.prim} writes {txt} in place: a {hit} file must only be replaced atomically (temporary + os.replace)"))
    # copies routed through helpers (proxy.copy, self._copy2, a copy callable): destination argument names a document / cache file
    for f in ctx.prog.funcs.values():
        if f.module.is_dep or f.module.name == "signac.__main__":
            continue
        for c in body_nodes(f):
            if not isinstance(c, ast.Call) or len(c.args) < 2:
                continue
            nm = c.func.attr if isinstance(c.func, ast.Attribute) else (c.func.id if isinstance(c.func, ast.Name) else "")
            if nm not in ("copy", "copy2", "copyfile", "_copy", "_copy2", "_copy_p", "copytree", "move", "replace", "rename"):
                continue
            if nm in ("replace", "rename"):
                continue  # renames are atomic
            n_sites += 1
            dst = common.inline_at(ctx, f, c.args[1], c)
            txt = canon(dst)
            if ("FN_DOCUMENT" in txt or "FN_CACHE" in txt) and not (isinstance(dst, ast.BinOp) and isinstance(dst.op, ast.Add) and isinstance(dst.right, ast.Constant) and dst.right.value):
                out.append(ctx.viol(R, f, c, f"{canon(c.func)}(..., {txt[:50]}) copies onto a document / cache file in place: the destination is truncated and rewritten, so a reader or a crash "
                                    "during the copy observes a torn or empty document"))
    out.append(ctx.ok(R, None, None, f"{n_sites} non-atomic write sites in signac examined; none targets a document or cache file name directly",
                      construct="who-may-write") if not out else ctx.info(R, None, None, f"{n_sites} write sites examined", construct="who-may-write"))
    return out


@rule("C10-e")
def c10_e(ctx: Ctx):
    """Whole-document assignment is a single write (same obligation as C05-c)."""
    from .c05 import c05_c
    res = [r for r in c05_c(ctx) if "setter" in r.function]
    for r in res:
        r.rule = "C10-e"
    return res


@rule("C10-f")
def c10_f(ctx: Ctx):
    """Synchronisation writes job documents through the collection API: the document file stays excluded from the plain file copy unless the COPY strategy was asked for (from C13-b)."""
    from .c13 import c13_b
    res = [r for r in c13_b(ctx) if "exclude-doc" in r.construct]
    for r in res:
        r.rule = "C10-f"
    return res


@rule("C10-g")
def c10_g(ctx: Ctx):
    """A rename onto the cache / document file name installs only a temporary that the same function has just written and closed: a `~` file found lying around
    (left by an interrupted writer) is torn by definition and is never moved into place."""
    R = "C10-g"
    out = []
    n = 0
    for f in ctx.prog.funcs.values():
        if f.module.is_dep or not f.module.name.startswith("signac") or f.module.name == "signac.__main__":
            continue
        for c in body_nodes(f):
            if not (isinstance(c, ast.Call) and common.ext_name(ctx, f, c) in ("os.replace", "os.rename", "shutil.move") and len(c.args) >= 2):
                continue
            dst = canon(common.inline_at(ctx, f, c.args[1], c))
            if not ("FN_CACHE" in dst or "FN_DOCUMENT" in dst):
                continue
            n += 1
            k = f"{f.qual}|installs-own-temporary"
            src = common.inline_at(ctx, f, c.args[0], c)
            writes = [e for e in ctx.effects.direct(f) if e.kind in ("open-write", "write") and e.target is not None
                      and canon(common.inline_at(ctx, f, e.target, e.node)) == canon(src)]
            if writes:
                out.append(ctx.ok(R, f, c, "the file moved into place is the temporary this function wrote (ordering: C10-c)", construct=k))
            else:
                out.append(ctx.viol(R, f, c, f"{canon(c)[:70]} installs a file this function did not write: a left-over temporary of an interrupted writer is torn (that is why it was "
                                    "never renamed), so every later reader of the cache fails with EOFError / JSONDecodeError", construct=k))
    if not n:
        out.append(ctx.inc(R, None, None, "no rename onto a cache / document file name found"))
    return out

@rule("C10-h")
def c10_h(ctx: Ctx):
    """The schema migration puts the cache / history / config files at their new names by rename (os.replace), never by copying: a copy creates the file under its
    final name and fills it afterwards, so a reader or a crash in between sees a torn state point cache."""
    R = "C10-h"
    out = []
    for f in ctx.prog.funcs.values():
        if not f.module.name.startswith("signac.migration") or f.module.is_dep:
            continue
        for c in body_nodes(f):
            if isinstance(c, ast.Call):
                e = common.ext_name(ctx, f, c) or ""
                if e in ("shutil.copy", "shutil.copy2", "shutil.copyfile", "shutil.copyfileobj", "shutil.copytree", "shutil.move"):
                    out.append(ctx.viol(R, f, c, f"{e} in a migration step: the destination exists under its final name while it is being written (and, for shutil.move across file systems, "
                                        "likewise)", construct=f"{f.qual}|rename-only"))
    if not out:
        out.append(ctx.ok(R, None, None, "migration steps place files by os.replace / os.rename only", construct="signac.migration|rename-only"))
    return out


RULES = [c10_a, c10_b, c10_c, c10_d, c10_e, c10_f, c10_g, c10_h]
