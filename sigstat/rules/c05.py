"""C05 - job and project documents are faithful persistent dicts; buffering transparent (thin structural part)."""
import ast

from ..engine import rule, Ctx
from ..core import UNKNOWN, dotted, kwarg, body_nodes, inline, stmt_key, canon, walk_no_nested, resolve_import_name
from . import common
from .c03 import c03_b, _own

PROP = "C05"
FLOOR = 10
EXPLANATION = (
    "Decided (thin structural part only): (a) every document of a job or project is constructed from the one class whose "
    "buffer context signac exports as signac.buffered (BufferedJSONAttrDict), with the file name <owner path>/<FN_DOCUMENT>, "
    "lazily and cached in the handle; the job document is created only after init(); every other reader / writer of the "
    "document file (index builder, clear(), sync exclusion, migration) folds to the same file name constant; (b) the "
    "document handle is dropped when the id changes (C03-b) and, on remove(), cleared before it is dropped so that no "
    "buffered write for a removed job survives; (c) the document setters funnel through reset() of the same handle."
    " A document collection is never entered into a table shared between handles (it lives in the handle's field only); the document setters perform reset() on every normal path."
    ' (g) the document getter may skip init() only for a directory that exists (from C02-j); after rmtree every continuation of remove() - also through a handler that swallows an error of the clean-up - has dropped the document handle (C05-b); (h) a migration never resets / clears the project document (C05-h).'
)
UNDECIDED = ("Dict-equivalence for all operation sequences and buffered == unbuffered are semantics of the synced_collections "
             "dependency and are not decided by this analysis.")

JSONDOC = "synced_collections.backends.collection_json.BufferedJSONAttrDict"


def _ctor_class(ctx, fi, call):
    d = dotted(call.func)
    return resolve_import_name(fi.module, d) if d else None


@rule("C05-a")
def c05_a(ctx: Ctx):
    """One storage configuration per document: class, file name, laziness, and agreement of all other users of the file name."""
    R = "C05-a"
    out = []
    # the class exported for buffering
    m = ctx.prog.mod("signac")
    exported = None
    for st in m.tree.body:
        if isinstance(st, ast.Assign) and len(st.targets) == 1 and isinstance(st.targets[0], ast.Name) and st.targets[0].id == "buffered":
            v = st.value
            if isinstance(v, ast.Attribute) and v.attr == "buffer_backend":
                exported = resolve_import_name(m, dotted(v.value))
    if exported is None:
        out.append(ctx.inc(R, None, None, "signac.buffered is not <class>.buffer_backend", construct="signac:buffered"))
    sites = [("signac.job:Job.document", "signac.job:Job", "_document"), ("signac.project:Project.document", "signac.project:Project", "_document")]
    # a document collection belongs to exactly one handle and lives in that handle's field: a collection that is entered into a table (a registry keyed by id
    # or path, shared between handles) outlives the id / directory it was created for - after a re-key, move or re-creation the table serves the old file
    for g in ctx.prog.funcs.values():
        if g.module.name not in ("signac.job", "signac.project"):
            continue
        for n in body_nodes(g):
            if isinstance(n, ast.Call) and (_ctor_class(ctx, g, n) or "").endswith("BufferedJSONAttrDict"):
                pmg = ctx.parents(g)
                par = pmg.get(id(n))
                names = set()
                if isinstance(par, ast.Assign):
                    for t in par.targets:
                        if isinstance(t, ast.Subscript):
                            out.append(ctx.viol(R, g, par, f"a document collection is stored in the table {canon(t.value)}[...]: handles share it by key, and the entry is not tied to the life of "
                                                "the job directory it was opened for (re-key, move, remove + re-create serve a stale handle)", construct=f"{g.qual}|document-registry"))
                        elif isinstance(t, ast.Name):
                            names.add(t.id)
                for st in body_nodes(g):
                    if isinstance(st, ast.Assign) and isinstance(st.value, ast.Name) and st.value.id in names:
                        for t in st.targets:
                            if isinstance(t, ast.Subscript):
                                out.append(ctx.viol(R, g, st, f"a document collection is stored in the table {canon(t.value)}[...]: handles share it by key, and the entry is not tied to the life "
                                                    "of the job directory it was opened for (re-key, move, remove + re-create serve a stale handle)", construct=f"{g.qual}|document-registry"))
    for q, cq, field in sites:
        fi = ctx.fn(q)
        env = ctx.env(fi)
        cfg = ctx.cfg(fi)
        ctors = [n for n in body_nodes(fi) if isinstance(n, ast.Call) and (_ctor_class(ctx, fi, n) or "").startswith("synced_collections.")]
        if len(ctors) != 1:
            out.append(ctx.inc(R, fi, fi.node, f"expected one document constructor, found {len(ctors)}"))
            continue
        c = ctors[0]
        cls = _ctor_class(ctx, fi, c)
        k = f"{q}|class"
        if exported and cls == exported:
            out.append(ctx.ok(R, fi, c, f"document class is {cls.split('.')[-1]}, the class whose buffer context is exported as signac.buffered", construct=k))
        elif exported:
            out.append(ctx.viol(R, fi, c, f"document class is {cls}, but signac.buffered controls {exported}: buffered blocks do not cover this document", construct=k))
        # filename
        fn = kwarg(c, "filename") or (c.args[0] if c.args else None)
        k = f"{q}|filename"
        if fn is None:
            out.append(ctx.viol(R, fi, c, "document constructed without a file name: nothing is persisted", construct=k))
        else:
            f2 = inline(fn, env)
            want = ctx.fold(ast.parse("self.FN_DOCUMENT", mode="eval").body, fi)
            ok = False
            if isinstance(f2, ast.Call) and common.ext_name(ctx, fi, f2) == "os.path.join" and len(f2.args) == 2:
                ok = canon(f2.args[0]) in ("self.path", "self._path") and ctx.fold(f2.args[1], fi) == want
            elif isinstance(f2, ast.Call) and isinstance(f2.func, ast.Attribute) and f2.func.attr == "fn" and len(f2.args) == 1:
                ok = ctx.fold(f2.args[0], fi) == want
            if ok:
                out.append(ctx.ok(R, fi, c, f"file name is <owner path>/{want}", construct=k))
            else:
                folded = ctx.fold(f2.args[1], fi) if isinstance(f2, ast.Call) and len(f2.args) == 2 else UNKNOWN
                if folded is not UNKNOWN and folded != want:
                    out.append(ctx.viol(R, fi, c, f"document file name folds to {folded!r}, other users of the document use {want!r}", construct=k))
                else:
                    out.append(ctx.inc(R, fi, c, "file name expression not recognised: " + stmt_key(fn, 60), construct=k))
        # lazily, cached
        st = ctx.stmt_of(fi, c)
        facts = common.facts_at(ctx, fi, c, "n")
        k = f"{q}|lazy"
        assigned = isinstance(st, ast.Assign) and any(canon(t) == f"self.{field}" for t in st.targets)
        if (f"self.{field} is None", True) in facts and assigned:
            out.append(ctx.ok(R, fi, c, "constructed once, under `self._document is None`, and cached in the handle", construct=k))
        else:
            out.append(ctx.viol(R, fi, c, "the document object is not cached under an `is None` guard: every access creates a new collection "
                                "(reads inside a buffered block no longer see the block's own writes through the handle)", construct=k))
        if q.startswith("signac.job"):
            inits = common.ids_of(ctx, fi, [s for s, _ in common.stmts_containing_call_to(ctx, fi, quals=("signac.job:Job.init",))])
            bad = None
            for nid in cfg.node_ids_for(st):
                bad = bad or cfg.must_pass_before(nid, inits, kinds="n")
            k = f"{q}|after-init"
            if bad is None and inits:
                out.append(ctx.ok(R, fi, c, "the job document is created only after init() (the directory exists before the first write)", construct=k))
            else:
                out.append(ctx.viol(R, fi, c, "the job document can be created without init(): the first write fails or the job is never registered", construct=k))
    pi = ctx.fn("signac.project:Project.__init__")
    pa = [n for n in body_nodes(pi) if isinstance(n, ast.Assign) and any(canon(t) == "self._path" for t in n.targets)]
    for a in pa:
        v = a.value
        nm = common.ext_name(ctx, pi, v) if isinstance(v, ast.Call) else None
        if nm in ("os.path.abspath", "os.path.realpath"):
            out.append(ctx.ok(R, pi, a, f"the project path is made absolute ({nm}): document and job file names do not depend on the current working directory", construct=pi.qual + "|abs-path"))
        else:
            out.append(ctx.viol(R, pi, a, f"the project path is stored as {canon(v)[:50]} (not made absolute): for Project('relative/dir') every document and job path is relative to the "
                                "current working directory, which `with job:` changes, so later document writes fail or land elsewhere", construct=pi.qual + "|abs-path"))
    wsn = [n for n in body_nodes(pi) if isinstance(n, ast.Assign) and any(canon(t) == "self._workspace" for t in n.targets)]
    for a in wsn:
        v = a.value
        ok = isinstance(v, ast.Call) and common.ext_name(ctx, pi, v) == "os.path.join" and v.args and canon(v.args[0]) in ("self._path", "self.path")
        k = pi.qual + "|workspace-from-abs-path"
        if ok:
            out.append(ctx.ok(R, pi, a, "the workspace path is built from the absolute project path", construct=k))
        else:
            out.append(ctx.viol(R, pi, a, f"the workspace path is {canon(v)[:50]}, not derived from the absolute project path: for Project('relative/dir') jobs and their documents are created relative "
                                "to the current working directory, which `with job:` changes", construct=k))
    # other users of the file names
    jdoc = ctx.fold(ast.parse("Job.FN_DOCUMENT", mode="eval").body, None, ctx.prog.mod("signac.project"))
    pdoc = ctx.fold(ast.parse("Project.FN_DOCUMENT", mode="eval").body, None, ctx.prog.mod("signac.migration.v1_to_v2"))
    jsp = ctx.fold(ast.parse("Job.FN_STATE_POINT", mode="eval").body, None, ctx.prog.mod("signac.project"))
    if not isinstance(jdoc, str) or not isinstance(pdoc, str) or jdoc == pdoc or jdoc == jsp:
        out.append(ctx.viol(R, None, None, f"document file name constants are not distinct strings: job={jdoc!r} project={pdoc!r} statepoint={jsp!r}",
                            construct="FN-constants"))
    else:
        out.append(ctx.ok(R, None, None, f"FN_DOCUMENT constants fold to distinct names ({jdoc}, {pdoc}; state point {jsp})", construct="FN-constants"))
    users = [("signac.project:Project._build_index", jdoc), ("signac.sync:sync_jobs", jdoc),
             ("signac.migration.v1_to_v2:_migrate_v1_to_v2", pdoc)]
    for q, want in users:
        fi = ctx.fn(q)
        hits = []
        for n in body_nodes(fi):
            if isinstance(n, ast.Attribute) and n.attr == "FN_DOCUMENT":
                v = ctx.fold(n, fi)
                if v is UNKNOWN and isinstance(n.value, ast.Name) and ctx.calls.var_env(fi).get(n.value.id, "").endswith(":Job"):
                    v = jdoc
                hits.append((n, v))
            elif isinstance(n, ast.Constant) and isinstance(n.value, str) and n.value.endswith("document.json"):
                hits.append((n, n.value))
        if not hits:
            out.append(ctx.inc(R, fi, fi.node, "expected a reference to the document file name"))
        for n, v in hits:
            if v == want:
                out.append(ctx.ok(R, fi, n, f"refers to the same document file name ({want})"))
            elif v is UNKNOWN:
                out.append(ctx.inc(R, fi, n, "document file name reference does not fold"))
            else:
                out.append(ctx.viol(R, fi, n, f"uses document file name {v!r} while the document handle uses {want!r}"))
    return out


def _doc_file_guard(ctx, out, R):
    """Job.clear() must leave the document *file* alone (the content is cleared through the handle)."""
    fi = ctx.fn("signac.job:Job.clear")
    jdoc = ctx.fold(ast.parse("self.FN_DOCUMENT", mode="eval").body, fi)
    dels = [e for e in ctx.effects.direct(fi) if e.kind == "delete"]
    for e in dels:
        facts = common.facts_at(ctx, fi, e.node, "n")
        ok = False
        for (text, pol) in facts:
            if pol:
                continue
            try:
                t = ast.parse(text, mode="eval").body
            except SyntaxError:
                continue
            if isinstance(t, ast.Compare) and len(t.ops) == 1 and isinstance(t.ops[0], (ast.In, ast.Eq)):
                cont = ctx.fold(t.comparators[0], fi)
                if cont is not UNKNOWN and isinstance(jdoc, str) and (jdoc == cont or (not isinstance(cont, str) and jdoc in cont)):
                    ok = True
        k = f"{fi.qual}|doc-file-guard|{e.prim}"
        if ok:
            out.append(ctx.ok(R, fi, e.node, f"{e.prim} in clear() never touches the document file; its content is cleared through the document handle", construct=k))
        else:
            out.append(ctx.viol(R, fi, e.node, f"{e.prim} in clear() can delete the job document file behind the document handle: inside signac.buffered() the buffered copy "
                                "no longer matches the file and leaving the block fails, unlike an unbuffered run", construct=k))
    clr = [c for c in body_nodes(fi) if isinstance(c, ast.Call) and canon(c.func) in ("self.document.clear", "self.doc.clear")]
    if clr:
        facts = common.facts_at(ctx, fi, clr[0], "n")
        cond = [f for f in facts if any(x in f[0] for x in ("isfile", "exists", "_document is", "_document is not", "self._document"))]
        if cond:
            out.append(ctx.viol(R, fi, clr[0], f"clear() empties the document only if {cond}: a document that so far exists only in the buffer of a signac.buffered() block "
                                "(written through another handle, no file yet) is not cleared and is flushed when the block exits, unlike an unbuffered run"))
        else:
            out.append(ctx.ok(R, fi, clr[0], "clear() empties the document through its handle, unconditionally"))
    else:
        out.append(ctx.viol(R, fi, fi.node, "clear() does not clear the document through its handle"))


@rule("C05-b")
def c05_b(ctx: Ctx):
    """Document handle dropped on id change (C03-b) and cleared before being dropped on remove()."""
    R = "C05-b"
    out = []
    for r in c03_b(ctx):
        if "_document" in r.construct or "_document" in r.detail or "_directory_known" in r.construct:
            r.rule = R
            out.append(r)
    _doc_file_guard(ctx, out, R)
    rem = ctx.fn("signac.job:Job.remove")
    cfg = ctx.cfg(rem)
    drops = [n for n in cfg.stmt_nodes() if isinstance(n.ast, ast.Assign) and any(canon(t) == "self._document" for t in n.ast.targets)
             and ctx.fold(n.ast.value, rem) is None]
    clears = {n.id for n in cfg.stmt_nodes() for sub in _own(n.ast) for c in walk_no_nested(sub)
              if isinstance(c, ast.Call) and canon(c.func) in ("self._document.clear", "self.document.clear")}
    # document operations of Job are never executed with synchronisation suspended: under _suspend_sync a clear() / reset() / update() changes only the
    # in-memory copy - neither the file nor the entry in the global buffer learns about it
    pmr = ctx.parents(rem)
    for fq in ("signac.job:Job.remove", "signac.job:Job.clear", "signac.job:Job.reset", "signac.job:Job.document.setter", "signac.job:Job.move"):
        g = ctx.prog.funcs.get(fq)
        if g is None:
            continue
        pg = ctx.parents(g)
        for c in [x for x in body_nodes(g) if isinstance(x, ast.Call) and isinstance(x.func, ast.Attribute) and x.func.attr in ("clear", "reset", "update")
                  and ("document" in canon(x.func.value) or "_document" in canon(x.func.value))]:
            cur = pg.get(id(c))
            sus = None
            while cur is not None:
                if isinstance(cur, (ast.With, ast.AsyncWith)) and any("_suspend_sync" in canon(it.context_expr) for it in cur.items):
                    sus = cur
                cur = pg.get(id(cur))
            k = f"{fq}|doc-op-synced|{c.func.attr}"
            if sus is not None:
                out.append(ctx.viol(R, g, c, f"{canon(c)[:40]} runs inside `with {canon(sus.items[0].context_expr)}`: with synchronisation suspended only the in-memory copy is changed, the "
                                    "document's entry in the global buffer keeps the old keys, so inside signac.buffered() a later write brings the removed keys back and flushes them", construct=k))
            else:
                out.append(ctx.ok(R, g, c, f"{canon(c)[:40]} is a synchronised document operation", construct=k))
    # once the directory tree was removed, remove() does not return normally with the old document handle still attached: every continuation of the successful
    # rmtree - including the ones that run through a handler that swallows an error of the clean-up itself - forgets the handle (or finds none)
    rms = [n for n in cfg.stmt_nodes() if n.kind == "stmt" and any(isinstance(c, ast.Call) and common.ext_name(ctx, rem, c) == "shutil.rmtree" for sub in _own(n.ast) for c in walk_no_nested(sub))]
    kd = rem.qual + "|handle-dropped-after-rmtree"
    if rms and drops:
        def no_handle(facts):
            for (t, pol) in facts:
                t = t.replace(" ", "")
                if (t == "self._documentisNone" and pol) or (t in ("self._documentisnotNone", "self._document") and not pol):
                    return True
            return False
        dropped = {d.id for d in drops}
        bad = None
        for rn in rms:
            todo = [(b, [rn.id, b]) for (b, kk, f) in cfg.succ[rn.id] if kk == "n" and not no_handle(f)]
            seen = set()
            while todo and bad is None:
                n, pth = todo.pop()
                if n in seen or n in dropped:
                    continue
                seen.add(n)
                if n == cfg.exit:
                    bad = (rn, pth)
                    break
                for (b, kk, f) in cfg.succ[n]:
                    if kk in "nx" and not no_handle(f):
                        todo.append((b, pth + [b]))
        if bad is None:
            out.append(ctx.ok(R, rem, rms[0].ast, "after the tree is removed every normal return of remove() has dropped the document handle", construct=kd))
        else:
            out.append(ctx.viol(R, rem, bad[0].ast, "remove() can return normally after the directory tree was deleted with the old document handle still attached (an error of the clean-up, e.g. the "
                                "ENOENT that clearing the now file-less document raises, is swallowed by a handler that also skips `self._document = None`): the next write through the "
                                "same handle goes to the stale document object and fails with FileNotFoundError / BufferedError instead of re-creating the job", construct=kd,
                                witness=cfg.describe_path(bad[1])))
    elif not rms:
        out.append(ctx.inc(R, rem, rem.node, "no shutil.rmtree statement in remove()", construct=kd))
    for d in drops:
        w = cfg.must_pass_before(d.id, clears, kinds="n")
        if w is None and clears:
            out.append(ctx.ok(R, rem, d.ast, "remove() clears the existing document handle (dropping buffered writes) before forgetting it"))
        else:
            out.append(ctx.viol(R, rem, d.ast, "remove() forgets the document handle without clearing it: data written inside signac.buffered() for the removed job "
                                "is flushed (or fails) when the block exits, unlike an unbuffered run", witness=cfg.describe_path(w) if w else None))
    return out


@rule("C05-c")
def c05_c(ctx: Ctx):
    """Whole-document assignment funnels through reset() of the cached handle."""
    R = "C05-c"
    out = []
    for q in ("signac.job:Job.document.setter", "signac.project:Project.document.setter"):
        fi = ctx.fn(q)
        p = [x for x in fi.params if x != "self"]
        ok = any(isinstance(n, ast.Call) and isinstance(n.func, ast.Attribute) and n.func.attr == "reset"
                 and canon(common.inline_at(ctx, fi, n.func.value, n)) in ("self.document", "self._document", "self.doc")
                 and n.args and isinstance(n.args[0], ast.Name) and p and n.args[0].id == p[0] for n in body_nodes(fi))
        muts = [n for n in body_nodes(fi) if isinstance(n, ast.Call) and isinstance(n.func, ast.Attribute) and n.func.attr in ("clear", "update", "reset", "pop", "setdefault")
                and ("doc" in canon(common.inline_at(ctx, fi, n.func.value, n)))]
        # every normal path through the setter performs the reset(): a path that replaces the content behind the collection's back (copying / moving a file onto the
        # document file) bypasses its atomic writer, its buffer and its in-memory state
        cfgs = ctx.cfg(fi)
        resets = {i for n in body_nodes(fi) if isinstance(n, ast.Call) and isinstance(n.func, ast.Attribute) and n.func.attr == "reset" for i in ctx.node_ids(fi, n)}
        bypass = cfgs.path(cfgs.entry, {cfgs.exit}, blocked=resets, kinds="n") if resets else None
        direct = [e for e in ctx.effects.direct(fi) if e.kind in ("rename", "open-write", "write", "delete")]
        if ok and bypass is not None:
            out.append(ctx.viol(R, fi, (direct[0].node if direct else fi.node), "whole-document assignment can complete without reset() on the document handle"
                                + (f" and writes the file itself ({direct[0].prim})" if direct else "") + ": the content is replaced behind the collection's back - no temporary + "
                                "os.replace of its writer (shutil.move across file systems copies into the live file), a stale buffer and a stale in-memory copy",
                                witness=cfgs.describe_path(bypass), construct=q + "|always-reset"))
        elif ok and len(muts) == 1:
            out.append(ctx.ok(R, fi, fi.node, "assignment is one reset(<new value>) on the existing document handle (a single atomic write)"))
        elif len(muts) >= 2:
            out.append(ctx.viol(R, fi, muts[0], f"whole-document assignment is split into {len(muts)} separate writes ({', '.join(m.func.attr for m in muts)}): a reader or a crash between them "
                                "observes a document that is neither the old nor the new content (e.g. {})"))
        else:
            out.append(ctx.inc(R, fi, fi.node, "setter does not have the shape self.document.reset(new_doc)"))
    for q, tgt in (("signac.job:Job.doc", "document"), ("signac.project:Project.doc", "document")):
        fi = ctx.fn(q)
        rets = [n for n in body_nodes(fi) if isinstance(n, ast.Return)]
        if len(rets) == 1 and rets[0].value is not None and canon(rets[0].value) == f"self.{tgt}":
            out.append(ctx.ok(R, fi, rets[0], "doc is an alias of document"))
        else:
            out.append(ctx.viol(R, fi, fi.node, "doc does not return self.document: the two spellings refer to different objects"))
    return out


@rule("C05-d")
def c05_d(ctx: Ctx):
    """Documents are constructed with write_concern=True (same obligation as C10-a)."""
    from .c10 import c10_a
    res = c10_a(ctx)
    for r in res:
        r.rule = "C05-d"
    return res


@rule("C05-e")
def c05_e(ctx: Ctx):
    """Two handles on one project / job use the same file name: discovery does not resolve links (C19-c); a handle claims a known directory only after existence was established (C02-e)."""
    from .c19 import c19_c
    from .c02 import c02_e
    res = [r for r in c19_c(ctx) if "symbolic" in r.detail or "resolves" in r.detail] + c02_e(ctx)
    for r in res:
        r.rule = "C05-e"
    return res


@rule("C05-f")
def c05_f(ctx: Ctx):
    """Buffered mode is always left again and flushed: signac.buffered is the backend's own context manager, or a wrapper whose exit runs in a finally."""
    from .lints import contextmanager_exit_on_error
    R = "C05-f"
    out = contextmanager_exit_on_error(ctx, R, ["signac", "signac.job", "signac.project", "signac.sync"])
    m0 = ctx.prog.mod("signac")
    k = "signac:buffered"
    if "buffered" in m0.consts:
        v = canon(m0.consts["buffered"])
        if v.endswith(".buffer_backend"):
            out.append(ctx.ok(R, None, None, f"signac.buffered = {v}: the dependency's own context manager", construct=k))
        else:
            out.append(ctx.inc(R, None, None, f"signac.buffered = {v}", construct=k))
    elif ctx.prog.funcs.get("signac:buffered") is not None:
        out.append(ctx.info(R, ctx.prog.funcs["signac:buffered"], None, "signac.buffered is a function (checked as a context manager above)", construct=k))
    else:
        out.append(ctx.inc(R, None, None, "signac.buffered not found", construct=k))
    return out


@rule("C05-g")
def c05_g(ctx: Ctx):
    """The document getter may skip init() only for a directory that exists: `_directory_known` is asserted only where existence was established (from C02-j)."""
    from .c02 import c02_j
    res = c02_j(ctx)
    for r in res:
        r.rule = "C05-g"
    return res


@rule("C05-h")
def c05_h(ctx: Ctx):
    """A schema migration adds to the project document, it never replaces or empties it: no reset() / clear() / whole-document assignment on a document handle in
    the migration package (an error while adding the key must refuse the migration, not discard the user's data)."""
    R = "C05-h"
    out = []
    n = 0
    for f in ctx.prog.funcs.values():
        if not f.module.name.startswith("signac.migration") or f.module.is_dep:
            continue
        docs = {t.id for a in body_nodes(f) if isinstance(a, ast.Assign) and isinstance(a.value, ast.Call) and (dotted(a.value.func) or "").split(".")[-1] in ("BufferedJSONAttrDict", "JSONAttrDict", "JSONDict")
                for t in a.targets if isinstance(t, ast.Name)}
        for c in body_nodes(f):
            if isinstance(c, ast.Call) and isinstance(c.func, ast.Attribute) and isinstance(c.func.value, ast.Name) and c.func.value.id in docs:
                n += 1
                k = f"{f.qual}|document-preserved"
                if c.func.attr in ("reset", "clear", "pop", "popitem"):
                    out.append(ctx.viol(R, f, c, f"the migration calls {canon(c)[:60]} on the project document: whatever the document held is discarded and the migration reports success",
                                        construct=k))
        if docs:
            k = f"{f.qual}|document-preserved"
            if not any(r.construct == k for r in out):
                out.append(ctx.ok(R, f, f.node, "the project document is only added to", construct=k))
    if not out:
        out.append(ctx.ok(R, None, None, "no migration step opens a document", construct="signac.migration|document-preserved", nontrivial=False))
    return out

RULES = [c05_a, c05_b, c05_c, c05_d, c05_e, c05_f, c05_g, c05_h]
