"""C01 - job id is the canonical, order-independent hash of the state point value."""
import ast

from ..engine import rule, Ctx
from ..core import UNKNOWN, dotted, kwarg, has_star_kwargs, assigned_names, body_nodes, inline, walk_no_nested, stmt_key, canon
from . import common

PROP = "C01"
FLOOR = 12
EXPLANATION = (
    "Decided (structural necessary conditions, not the behaviour): (a) signac.job.calc_id is the composition "
    "hexdigest(md5(encode(json.dumps(<parameter>, canonical options)))) with sort_keys=True, default separators, ASCII "
    "escaping, no indent, the synced-collection encoder, and the parameter reaches json.dumps unmodified; (b) no other "
    "function derives a job id: hashlib is used only inside calc_id and every write of a Job._id takes calc_id(...), an "
    "id parameter or another job's id; (c) ids are re-derived and compared whenever a state point is read from disk "
    "(shared with C09-a); (d) the mapping given to Project.open_job is deep-copied before it becomes the job's state point; "
    "(e) a state point edit keeps the old id only if old and new id are equal (values that are == in Python but differ as JSON re-key the job). "
    "Each json.dumps option is a separate obligation because each one changes the digest for some state point."
    ' (h) Assigning a state point to a fresh handle resets a collection that was created empty (never one the lazy getter has just filled); an id given to a handle together with a state point is the cache key of that state point or calc_id of it, never a table look-up keyed by ==.'
    ' (i) a schema import files a directory only under the state point its own state point file holds: the path-derived and the file state point are compared as values (C01-i, from C16-n); a functools.partial that fixes validate=False is a call configuration like any other.'
)
UNDECIDED = ("That json.dumps(sort_keys=True) sorts at every level, float/int formatting, distinctness of ids for distinct "
             "JSON values and agreement with published golden ids are stdlib semantics / value-level facts and are not decided.")
ASSUMPTIONS = ["json.dumps, hashlib.md5 and str.encode behave as documented."]

CALC = "signac.job:calc_id"
ENCODER = "synced_collections.utils.SyncedCollectionJSONEncoder"


def _ext(ctx, fi, call):
    tg, ext = ctx.calls.resolve_call(fi, call)
    return ext


@rule("C01-a")
def c01_a(ctx: Ctx):
    """calc_id is hexdigest(md5(encode(json.dumps(param, sort_keys=True, default separators, ensure_ascii, no indent, cls=SyncedCollectionJSONEncoder))))."""
    R = "C01-a"
    fi = ctx.fn(CALC)
    out = []
    if not fi.params:
        return [ctx.inc(R, fi, fi.node, "calc_id has no parameter")]
    param = fi.params[0]
    env = ctx.env(fi)
    sites = assigned_names(fi.node)
    if param in sites:
        out.append(ctx.inc(R, fi, sites[param][0], f"parameter '{param}' is re-bound before hashing: the hashed value is a "
                           "transformation of the state point (cannot decide whether it is the identity on JSON values)"))
    rets = [n for n in body_nodes(fi) if isinstance(n, ast.Return)]
    if len(rets) != 1 or rets[0].value is None:
        return out + [ctx.inc(R, fi, fi.node, f"expected exactly one return with a value, found {len(rets)}")]
    ret = rets[0]
    val = inline(ret.value, env)
    # shape: <H>.hexdigest()
    if not (isinstance(val, ast.Call) and isinstance(val.func, ast.Attribute) and not val.args and not val.keywords):
        return out + [ctx.inc(R, fi, ret, "returned value is not a method call without arguments: " + stmt_key(val, 80))]
    if val.func.attr != "hexdigest":
        if val.func.attr == "digest":
            return out + [ctx.viol(R, fi, ret, "id is .digest() (bytes), not the 32 character lowercase hex digest")]
        return out + [ctx.inc(R, fi, ret, f"returned value is .{val.func.attr}(), expected .hexdigest()")]
    out.append(ctx.ok(R, fi, ret, "returns <hash object>.hexdigest()", construct=CALC + "|hexdigest"))
    H = val.func.value  # after inlining: hashlib.md5(...) call
    if not isinstance(H, ast.Call):
        return out + [ctx.inc(R, fi, ret, "hash object is not produced by a call: " + stmt_key(H, 80))]
    hname = _ext(ctx, fi, H)
    data_exprs = list(H.args)
    algo_ok = None
    if hname == "hashlib.md5":
        algo_ok = True
    elif hname == "hashlib.new" and H.args:
        a0 = ctx.fold(H.args[0], fi)
        if isinstance(a0, str):
            algo_ok = a0.lower() == "md5"
        data_exprs = list(H.args[1:])
    elif hname and hname.startswith("hashlib."):
        algo_ok = False
    if algo_ok is None:
        return out + [ctx.inc(R, fi, ret, f"hash constructor not recognised: {hname or stmt_key(H.func)}")]
    if not algo_ok:
        out.append(ctx.viol(R, fi, H, f"digest algorithm is {hname}, the job id must be the MD5 digest", construct=CALC + "|algorithm"))
    else:
        out.append(ctx.ok(R, fi, H, "hash object is hashlib.md5", construct=CALC + "|algorithm"))
    for k in H.keywords:
        if k.arg not in ("usedforsecurity",):
            out.append(ctx.inc(R, fi, H, f"unexpected keyword {k.arg} in hash constructor"))
    # the variable holding the hash object (if any) and its .update(...) calls
    hvar = ret.value.func.value.id if (isinstance(ret.value, ast.Call) and isinstance(ret.value.func, ast.Attribute)
                                        and isinstance(ret.value.func.value, ast.Name)) else None
    if hvar:
        for n in body_nodes(fi):
            if isinstance(n, ast.Call) and isinstance(n.func, ast.Attribute) and isinstance(n.func.value, ast.Name) \
                    and n.func.value.id == hvar:
                if n.func.attr == "update":
                    data_exprs.extend(n.args)
                elif n.func.attr not in ("hexdigest",):
                    out.append(ctx.inc(R, fi, n, f"unrecognised use of the hash object: .{n.func.attr}()"))
    if len(data_exprs) != 1:
        return out + [ctx.viol(R, fi, ret, f"the digest is fed {len(data_exprs)} data pieces; the id must be the digest of exactly the "
                               "canonical JSON text (extra salt / missing input changes every id)", construct=CALC + "|digest-input")]
    data = inline(data_exprs[0], env)
    # shape: <S>.encode([codec])  |  bytes(<S>, codec)
    S = None
    codec = "utf-8"
    if isinstance(data, ast.Call) and isinstance(data.func, ast.Attribute) and data.func.attr == "encode":
        S = data.func.value
        c = data.args[0] if data.args else kwarg(data, "encoding")
        if c is not None:
            codec = ctx.fold(c, fi)
    elif isinstance(data, ast.Call) and isinstance(data.func, ast.Name) and data.func.id == "bytes" and data.args:
        S = data.args[0]
        c = data.args[1] if len(data.args) > 1 else kwarg(data, "encoding")
        codec = ctx.fold(c, fi) if c is not None else UNKNOWN
    if S is None:
        return out + [ctx.inc(R, fi, data_exprs[0], "digest input is not <text>.encode(...): " + stmt_key(data, 80))]
    if not isinstance(codec, str):
        out.append(ctx.inc(R, fi, data_exprs[0], "codec of .encode() is not a constant"))
    elif codec.lower().replace("_", "-") in ("utf-8", "utf8", "ascii", "us-ascii", "latin-1", "latin1", "iso-8859-1"):
        out.append(ctx.ok(R, fi, data_exprs[0], f"text is encoded with an ASCII compatible codec ({codec})", construct=CALC + "|codec"))
    else:
        out.append(ctx.viol(R, fi, data_exprs[0], f"text is encoded with {codec}: bytes differ from the ASCII/UTF-8 encoding of the canonical JSON text",
                            construct=CALC + "|codec"))
    if not isinstance(S, ast.Call) or _ext(ctx, fi, S) != "json.dumps":
        return out + [ctx.inc(R, fi, data_exprs[0], "encoded text is not the result of json.dumps: " + stmt_key(S, 80))]
    D = S
    if has_star_kwargs(D) or any(isinstance(a, ast.Starred) for a in D.args):
        return out + [ctx.inc(R, fi, D, "json.dumps called with * / ** arguments")]
    if len(D.args) != 1:
        out.append(ctx.inc(R, fi, D, f"json.dumps called with {len(D.args)} positional arguments"))
    first = D.args[0] if D.args else kwarg(D, "obj")
    if isinstance(first, ast.Name) and first.id == param:
        out.append(ctx.ok(R, fi, D, f"json.dumps is applied to the parameter '{param}' itself", construct=CALC + "|dumps-arg"))
    else:
        out.append(ctx.inc(R, fi, D, "json.dumps is applied to " + (stmt_key(first, 60) if first is not None else "nothing")
                           + ", not to the state point parameter itself"))

    def opt(name):
        v = kwarg(D, name)
        return (False, None) if v is None else (True, ctx.fold(v, fi))

    # sort_keys
    present, v = opt("sort_keys")
    c = CALC + "|sort_keys"
    if not present:
        out.append(ctx.viol(R, fi, D, "json.dumps without sort_keys: the id depends on key insertion order", construct=c))
    elif v is UNKNOWN:
        out.append(ctx.inc(R, fi, D, "sort_keys is not a constant", construct=c))
    elif v is True or v == 1 and v is not False:
        out.append(ctx.ok(R, fi, D, "sort_keys=True", construct=c))
    else:
        out.append(ctx.viol(R, fi, D, f"sort_keys={v!r}: the id depends on key insertion order", construct=c))
    # separators
    present, v = opt("separators")
    c = CALC + "|separators"
    if not present or v is None:
        out.append(ctx.ok(R, fi, D, "default separators (', ', ': ')", construct=c))
    elif v is UNKNOWN:
        out.append(ctx.inc(R, fi, D, "separators is not a constant", construct=c))
    elif tuple(v) == (", ", ": "):
        out.append(ctx.ok(R, fi, D, "separators spelled out as the defaults", construct=c))
    else:
        out.append(ctx.viol(R, fi, D, f"separators={v!r} change the JSON text and therefore every id with more than one key or a container", construct=c))
    # ensure_ascii
    present, v = opt("ensure_ascii")
    c = CALC + "|ensure_ascii"
    if not present or v is True:
        out.append(ctx.ok(R, fi, D, "ASCII escaping on (ensure_ascii default/True)", construct=c))
    elif v is UNKNOWN:
        out.append(ctx.inc(R, fi, D, "ensure_ascii is not a constant", construct=c))
    else:
        out.append(ctx.viol(R, fi, D, f"ensure_ascii={v!r}: state points with non-ASCII text hash differently from the ASCII-escaped canonical text", construct=c))
    # indent
    present, v = opt("indent")
    c = CALC + "|indent"
    if not present or v is None:
        out.append(ctx.ok(R, fi, D, "no indent", construct=c))
    elif v is UNKNOWN:
        out.append(ctx.inc(R, fi, D, "indent is not a constant", construct=c))
    else:
        out.append(ctx.viol(R, fi, D, f"indent={v!r} changes the JSON text", construct=c))
    # cls
    clsarg = kwarg(D, "cls")
    c = CALC + "|cls"
    if clsarg is None:
        out.append(ctx.viol(R, fi, D, "json.dumps without cls=SyncedCollectionJSONEncoder: synced-collection spellings of a state point "
                            "cannot be hashed / hash differently", construct=c))
    else:
        from ..core import resolve_import_name
        full = resolve_import_name(fi.module, dotted(clsarg))
        if full == ENCODER:
            out.append(ctx.ok(R, fi, D, "cls=SyncedCollectionJSONEncoder", construct=c))
        else:
            out.append(ctx.inc(R, fi, D, f"cls={full}: not the synced-collection encoder (cannot decide equivalence)", construct=c))
    for k in D.keywords:
        if k.arg in ("default", "skipkeys", "allow_nan", "check_circular"):
            v = ctx.fold(k.value, fi)
            if k.arg == "skipkeys" and v is True:
                out.append(ctx.viol(R, fi, D, "skipkeys=True silently drops keys from the hashed text", construct=CALC + "|skipkeys"))
            else:
                out.append(ctx.info(R, fi, D, f"json.dumps option {k.arg}={stmt_key(k.value, 30)} does not change the text of JSON-encodable values"))
    return out


@rule("C01-b")
def c01_b(ctx: Ctx):
    """No other function derives a job id: hashlib only in calc_id; every `<x>._id = ...` takes calc_id(...), an id parameter or another id."""
    R = "C01-b"
    out = []
    calc = ctx.fn(CALC)
    n_hash = 0
    for fi in ctx.prog.funcs.values():
        if fi.module.is_dep or fi.module.name == "signac.__main__":
            continue
        for (n, tg, ext) in ctx.calls.callees(fi):
            if isinstance(n, ast.Call) and ext and ext.startswith("hashlib."):
                n_hash += 1
                if fi.qual == CALC:
                    out.append(ctx.ok(R, fi, n, f"{ext} used inside calc_id"))
                elif fi.module.name in ("signac.job", "signac.project"):
                    out.append(ctx.viol(R, fi, n, f"{ext} used outside calc_id in a module that handles job ids: a second id derivation"))
                else:
                    out.append(ctx.info(R, fi, n, f"{ext} used in {fi.module.name} (not an id-handling module)"))
    if n_hash == 0:
        out.append(ctx.inc(R, calc, calc.node, "no hashlib call found at all"))
    # every write of ._id
    for fi in ctx.prog.funcs.values():
        if fi.module.name not in ("signac.job", "signac.project", "signac.sync", "signac.import_export"):
            continue
        env = ctx.env(fi)
        for n in body_nodes(fi):
            if isinstance(n, ast.Assign):
                for t in n.targets:
                    if isinstance(t, ast.Attribute) and t.attr == "_id":
                        verdict = _id_value_ok(ctx, fi, n.value, env)
                        if verdict is True:
                            out.append(ctx.ok(R, fi, n, f"{stmt_key(t)} is assigned calc_id(...) / an id parameter / another job's id"))
                        elif verdict is False:
                            out.append(ctx.viol(R, fi, n, f"{stmt_key(t)} is assigned {stmt_key(n.value, 60)}: an id that is not the canonical hash"))
                        else:
                            out.append(ctx.inc(R, fi, n, f"cannot classify the value assigned to {stmt_key(t)}: {stmt_key(n.value, 60)}"))
    # a handle that is given both a state point and an id: the id is the key under which that state point was looked up (cache entry) or calc_id of it -
    # never an id served from a memo whose keys compare with == (1 == 1.0 == True)
    JINIT = "signac.job:Job.__init__"
    for fi in ctx.prog.funcs.values():
        if fi.module.name not in ("signac.job", "signac.project", "signac.sync", "signac.import_export"):
            continue
        for c in body_nodes(fi):
            if not (isinstance(c, ast.Call) and JINIT in common.targets_of(ctx, fi, c)):
                continue
            spv, idv = kwarg(c, "statepoint"), kwarg(c, "id_")
            if spv is None or idv is None:
                continue
            k = f"{fi.qual}|handle-id|{canon(idv)[:30]}"
            if isinstance(idv, ast.Constant) and idv.value is None:
                continue
            if isinstance(spv, ast.Subscript) and canon(spv.slice) == canon(idv):
                out.append(ctx.ok(R, fi, c, "the handle's id is the key under which its state point was found", construct=k))
                continue
            tg, ext = (ctx.calls.resolve_call(fi, idv) if isinstance(idv, ast.Call) else ([], None))
            if any(t.qual == CALC for t in tg):
                out.append(ctx.ok(R, fi, c, "the handle's id is calc_id(...) of the state point", construct=k))
                continue
            memo = None
            for t in tg:
                for r in [x for x in body_nodes(t) if isinstance(x, ast.Return) and x.value is not None]:
                    rv = common.inline_at(ctx, t, r.value, r)
                    srcs = [rv] + ([d for d in common.reaching_defs(ctx, t, r.value.id, r) if isinstance(d, ast.AST)] if isinstance(r.value, ast.Name) else [])
                    for sv in srcs:
                        for x in ast.walk(sv):
                            if (isinstance(x, ast.Subscript) and isinstance(x.ctx, ast.Load) and not isinstance(x.slice, ast.Constant)) or \
                                    (isinstance(x, ast.Call) and isinstance(x.func, ast.Attribute) and x.func.attr in ("get", "setdefault", "pop")):
                                memo = (t, x)
            if memo:
                t, x = memo
                out.append(ctx.viol(R, fi, c, f"the handle's id comes from {t.name}(), which serves it from a look-up table ({canon(x)[:50]}): table keys compare with ==, so state points "
                                    "that are equal in Python but different as JSON (1, 1.0, True) get the id of whichever spelling was opened first", construct=k))
            elif isinstance(idv, ast.Name) and idv.id in fi.params:
                out.append(ctx.ok(R, fi, c, "the handle's id is the id given by the caller", construct=k))
            else:
                out.append(ctx.inc(R, fi, c, f"origin of the id {canon(idv)[:40]} given together with a state point not determined", construct=k))
    return out


def _id_value_ok(ctx, fi, value, env, depth=0):
    v = value
    if isinstance(v, ast.IfExp):
        a = _id_value_ok(ctx, fi, v.body, env, depth + 1)
        b = _id_value_ok(ctx, fi, v.orelse, env, depth + 1)
        if a is False or b is False:
            return False
        if a is True and b is True:
            return True
        return None
    if isinstance(v, ast.Call):
        tg, ext = ctx.calls.resolve_call(fi, v)
        if any(t.qual == CALC for t in tg):
            return True
        if tg or ext:
            return False  # some other function computes the id
        return None
    if isinstance(v, ast.Name):
        if v.id in fi.params:
            return True
        if v.id in env and depth < 4:
            return _id_value_ok(ctx, fi, env[v.id], env, depth + 1)
        return None
    if isinstance(v, ast.Attribute) and v.attr in ("_id", "id"):
        return True
    if isinstance(v, (ast.BinOp, ast.Subscript, ast.JoinedStr, ast.Constant)):
        return False
    return None


@rule("C01-d")
def c01_d(ctx: Ctx):
    """The mapping given to Project.open_job reaches the Job's state point only through a deep copy."""
    R = "C01-d"
    fi = ctx.fn("signac.project:Project.open_job")
    out = []
    if "statepoint" not in fi.params:
        return [ctx.inc(R, fi, fi.node, "open_job has no 'statepoint' parameter")]
    env = ctx.env(fi)
    jinit = ctx.fn("signac.job:Job.__init__")
    init_copies = _init_deepcopies(ctx, jinit)
    n_sites = 0
    for n in body_nodes(fi):
        if not isinstance(n, ast.Call):
            continue
        tg, ext = ctx.calls.resolve_call(fi, n)
        if not any(t.qual == jinit.qual for t in tg):
            continue
        arg = kwarg(n, "statepoint")
        if arg is None and len(n.args) >= 2:
            arg = n.args[1]
        if arg is None:
            continue
        a = inline(arg, env)
        uses_param = any(isinstance(x, ast.Name) and x.id == "statepoint" for x in ast.walk(a))
        if not uses_param:
            continue
        n_sites += 1
        if common.is_deep_copy_of(ctx, fi, a, "statepoint"):
            out.append(ctx.ok(R, fi, n, "Job(...) receives a deep copy of the caller's mapping"))
        elif init_copies:
            out.append(ctx.ok(R, fi, n, "Job.__init__ deep-copies the state point it stores"))
        elif _unknown_helper(ctx, fi, a):
            out.append(ctx.inc(R, fi, n, f"Job(...) receives {stmt_key(arg, 60)}: cannot decide whether this helper copies nested lists and mappings"))
        else:
            out.append(ctx.viol(R, fi, n, f"Job(...) receives {stmt_key(arg, 60)}: the job's state point aliases (parts of) the caller's mapping, "
                                "so mutating it after open_job changes what init() writes under the old id"))
    if n_sites == 0:
        out.append(ctx.inc(R, fi, fi.node, "no Job(...) construction from the statepoint parameter found in open_job"))
    return out


def _unknown_helper(ctx, fi, a):
    if isinstance(a, ast.Call):
        tg, ext = ctx.calls.resolve_call(fi, a)
        if len(tg) == 1 and common.helper_deep_copies(ctx, tg[0]) is None:
            return True
        if not tg and not ext:
            return True
    return False


def _init_deepcopies(ctx, jinit):
    env = ctx.env(jinit)
    ok = False
    for n in body_nodes(jinit):
        if isinstance(n, ast.Assign):
            for t in n.targets:
                if isinstance(t, ast.Attribute) and t.attr == "_cached_statepoint":
                    v = inline(n.value, env)
                    if any(isinstance(x, ast.Name) and x.id == "statepoint" for x in ast.walk(v)):
                        if common.is_deep_copy_of(ctx, jinit, v, "statepoint"):
                            ok = True
                        else:
                            return False
    return ok


from .c09 import c09_a  # noqa: E402  (C01-c is the same obligation as C09-a)


@rule("C01-c")
def c01_c(ctx: Ctx):
    """Ids are re-derived (calc_id) and compared on every state point read from disk (same obligation as C09-a)."""
    res = c09_a(ctx)
    for r in res:
        r.rule = "C01-c"
    return res


@rule("C01-e")
def c01_e(ctx: Ctx):
    """A state point change re-keys the job unless the ids are equal: _save skips the migration only under id equality (same obligation as C04-f)."""
    from .c04 import c04_f
    res = c04_f(ctx)
    for r in res:
        r.rule = "C01-e"
    return res


@rule("C01-f")
def c01_f(ctx: Ctx):
    """calc_id is a pure function of the JSON value: not memoised (cache keys compare 1 == 1.0 == True), and the command line reads a state point with json.loads of the text as given."""
    from .lints import no_memoisation
    R = "C01-f"
    out = no_memoisation(ctx, R, [CALC], "memo keys compare with ==, so 1, 1.0 and True (0, 0.0, False) share an entry and the id depends on which spelling was hashed first in the process")
    # text -> JSON at the command line and in the filter parser: json.loads of the unmodified text
    for q in ("signac.filterparse:_parse_json", "signac.__main__:main_job"):
        fi = ctx.prog.funcs.get(q)
        if fi is None:
            out.append(ctx.inc(R, None, None, f"{q} not found", construct=q + "|json-text"))
            continue
        loads = [c for c in body_nodes(fi) if isinstance(c, ast.Call) and (_ext(ctx, fi, c) in ("json.loads",) or "signac.filterparse:_parse_json" in common.targets_of(ctx, fi, c))]
        if not loads:
            out.append(ctx.inc(R, fi, fi.node, "no json.loads / _parse_json call", construct=q + "|json-text"))
            continue
        for c in loads:
            a = c.args[0] if c.args else None
            src = common.inline_at(ctx, fi, a, c) if a is not None else None
            transformed = src is not None and any(isinstance(x, ast.Call) and (dotted(x.func) or "").split(".")[-1] in ("normalize", "lower", "upper", "casefold", "strip", "replace", "translate", "encode", "decode", "sub")
                                                  for x in ast.walk(src))
            if transformed:
                out.append(ctx.viol(R, fi, c, f"the JSON text is transformed before parsing ({canon(src)[:60]}): a state point given as text hashes to a different id than the same value given as a mapping",
                                    construct=q + "|json-text"))
            else:
                out.append(ctx.ok(R, fi, c, "JSON text is parsed as given", construct=q + "|json-text"))
    return out


@rule("C01-g")
def c01_g(ctx: Ctx):
    """A state point is entered into the project's cache only under the id it hashes to: the setter registers after a *successful* re-key (from C08-d)."""
    from .c08 import c08_d
    res = [r for r in c08_d(ctx) if "statepoint.setter" in (r.function or "")]
    for r in res:
        r.rule = "C01-g"
    return res


@rule("C01-h")
def c01_h(ctx: Ctx):
    """Assigning a state point to a fresh handle takes the new value exactly: reset() runs on a collection that was created empty, never on one
    the lazy getter has just filled (the collection's in-place update skips entries that compare equal: 1 == 1.0 == True)."""
    R = "C01-h"
    f = ctx.fn("signac.job:Job.statepoint.setter")
    cfg = ctx.cfg(f)
    out = []
    resets = [c for c in body_nodes(f) if isinstance(c, ast.Call) and isinstance(c.func, ast.Attribute) and c.func.attr == "reset"]
    if not resets:
        return [ctx.inc(R, f, f.node, "the state point setter does not call reset()")]
    getter = ctx.prog.funcs.get("signac.job:Job.statepoint")
    lazy_fills = getter is not None and any(isinstance(c, ast.Call) and isinstance(c.func, ast.Attribute) and c.func.attr == "load" for c in body_nodes(getter)) \
        or (getter is not None and any(isinstance(c, ast.Call) and kwarg(c, "data") is not None and (dotted(c.func) or "").endswith("_StatePointDict") for c in body_nodes(getter)))
    flag = "self._statepoint_requires_init"
    for c in resets:
        recv = canon(c.func.value)
        k = f.qual + "|reset-on-empty"
        if recv not in ("self.statepoint", "self._statepoint", "self.sp"):
            out.append(ctx.inc(R, f, c, f"reset() is called on {recv}", construct=k))
            continue
        bad = None
        for nid in ctx.node_ids(f, c):
            paths, trunc = cfg.paths_to(nid, kinds="n")
            if trunc:
                out.append(ctx.inc(R, f, c, "path enumeration truncated", construct=k))
                continue
            for path, facts in paths:
                fresh = False
                for i in path:
                    a = cfg.nodes[i].ast
                    if isinstance(a, ast.Assign) and any(canon(t) == "self._statepoint" for t in a.targets) and isinstance(a.value, ast.Call) \
                            and (dotted(a.value.func) or "").endswith("_StatePointDict") and (kwarg(a.value, "data") is None or ctx.fold(kwarg(a.value, "data"), f) is None):
                        fresh = True
                if fresh or (flag, False) in facts:
                    continue
                bad = path
        if bad is not None and recv in ("self.statepoint", "self.sp") and lazy_fills:
            out.append(ctx.viol(R, f, c, "the setter can reach reset() on a handle whose state point collection has not been created yet: `self.statepoint` then runs the lazy getter, which "
                                "fills the collection with the old state point, and the in-place update of reset() skips every entry that compares equal - assigning {'a': 1.0} (or True) to a "
                                "job {'a': 1} keeps the old value, id and directory", witness=cfg.describe_path(bad), construct=k))
        elif bad is not None:
            out.append(ctx.inc(R, f, c, "a path reaches reset() without creating the collection; receiver does not go through the lazy getter", construct=k))
        else:
            out.append(ctx.ok(R, f, c, "on every path to reset() the collection was created empty by the setter itself or already existed", construct=k))
    return out


@rule("C01-i")
def c01_i(ctx: Ctx):
    """A schema import files a directory only under the state point its own state point file holds (from C16-n)."""
    from .c16 import c16_n
    res = c16_n(ctx)
    for r in res:
        r.rule = "C01-i"
    return res


RULES = [c01_a, c01_b, c01_c, c01_d, c01_e, c01_f, c01_g, c01_h, c01_i]
