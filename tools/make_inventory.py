#!/venv/bin/python
"""Freeze the names of all functions of the reference tree (/repo HEAD working tree) into sigstat/baseline_functions.json.
New functions (not in this inventory) are treated as freshly extracted helpers and expanded into their callers at load time (sigstat/inline.py)."""
import ast, json, os, sys
sys.path.insert(0, os.path.dirname(os.path.dirname(os.path.abspath(__file__))))
from sigstat.inline import enumerate_defs, module_globals, INVENTORY
from sigstat.core import _Normalise
from sigstat.pathnorm import normalise_pathlib


def parse_normalised(path):
    """the tree as the loader hands it to the inliner (sigstat.core.Program._load)"""
    return _Normalise().visit(normalise_pathlib(ast.parse(open(path).read(), filename=path)))


repo = sys.argv[1] if len(sys.argv) > 1 else "/repo"
funcs = []
globs = []
templates = {}
pkg = os.path.join(repo, "signac")
for dp, dn, fns in os.walk(pkg):
    dn[:] = sorted(d for d in dn if d not in ("_vendor", "__pycache__"))
    for fn in sorted(fns):
        if fn.endswith(".py"):
            full = os.path.join(dp, fn)
            rel = os.path.relpath(full, repo)
            mod = rel[:-3].replace(os.sep, ".")
            if mod.endswith(".__init__"):
                mod = mod[:-9]
            tree = parse_normalised(full)
            funcs += [d.qual for d in enumerate_defs(mod, tree)]
            globs += module_globals(mod, tree)
            for d in enumerate_defs(mod, tree):
                body = [x for x in d.node.body if not (isinstance(x, ast.Expr) and isinstance(x.value, ast.Constant) and isinstance(x.value.value, str))]
                a = d.node.args
                if len(body) == 1 and d.kind in ("module", "method") and not d.node.decorator_list and isinstance(body[0], (ast.Return, ast.Assign, ast.Expr)) \
                        and d.node.name.startswith("_") and not d.node.name.startswith("__") and not (a.vararg or a.kwarg or a.kwonlyargs or a.defaults or a.posonlyargs) \
                        and not (isinstance(body[0], ast.Return) and body[0].value is None):
                    templates[d.qual] = {"class": d.cls.name if d.cls is not None else None, "src": ast.unparse(d.node)}
# functions of the reference tree that spell the body of a template out themselves (they must stay as they are when the helper is re-created)
from sigstat.inline import ModuleInliner, _body_sig
import hashlib
bodies = {}
for mod, tree in []:
    pass
trees = {}
for dp, dn, fns in os.walk(pkg):
    dn[:] = sorted(d for d in dn if d not in ("_vendor", "__pycache__"))
    for fn in sorted(fns):
        if fn.endswith(".py"):
            full = os.path.join(dp, fn)
            mod = os.path.relpath(full, repo)[:-3].replace(os.sep, ".")
            if mod.endswith(".__init__"):
                mod = mod[:-9]
            trees[mod] = parse_normalised(full)
for q, t in templates.items():
    fdef = ast.parse(t["src"]).body[0]
    body = [x for x in fdef.body if not (isinstance(x, ast.Expr) and isinstance(x.value, ast.Constant) and isinstance(x.value.value, str))]
    st = body[0]
    params = {a.arg for a in fdef.args.args}
    pat = st.value if isinstance(st, ast.Return) else st
    inst = []
    for mod, tree in trees.items():
        for d in enumerate_defs(mod, tree):
            if d.qual == q:
                continue
            for n in ast.walk(d.node):
                if type(n) is type(pat) and ModuleInliner._tmatch(pat, n, params, {}):
                    inst.append(d.qual)
    t["base_instances"] = sorted(set(inst))
sources = {}
for mod, tree in trees.items():
    for d in enumerate_defs(mod, tree):
        if d.kind in ("module", "method") and len(d.node.body) >= 2:
            bodies[d.qual] = _body_sig(d.node)
        if d.kind in ("module", "method", "nested"):
            # the normalised source of every function of the reference tree: used only to *recognise* a function that was renamed, moved, turned
            # from a method into a function or written out at its call sites (sigstat/restore.py unifies the current code with it)
            sources[d.qual] = {"class": d.cls.name if d.cls is not None else None, "src": ast.unparse(d.node)}
json.dump({"comment": "function inventory of the reference tree; see sigstat/inline.py", "functions": sorted(set(funcs)), "globals": sorted(set(globs)), "templates": templates, "bodies": bodies, "sources": sources}, open(INVENTORY, "w"), indent=0)
print(len(set(funcs)), "functions")
