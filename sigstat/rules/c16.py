"""C16 - export then import reproduces the project; nothing dropped, merged or misplaced."""
import ast

from ..engine import rule, Ctx
from ..core import UNKNOWN, dotted, kwarg, body_nodes, inline, stmt_key, canon, walk_no_nested, names_in
from . import common
from .c03 import _own

PROP = "C16"
FLOOR = 20
EXPLANATION = (
    "Decided (structural necessary conditions): (a) on every path of _export_jobs / _make_path_function to the copy loop the "
    "job->path mapping has been checked for uniqueness (_check_path_function_unique), unless the path function is the "
    "id-based one; (b) the leaf/node consistency check is order independent (all nodes are collected before any path is "
    "tested); it precedes the first copy; (c) every path-prefix test in import_export.py compares whole path components "
    "(prefix ends with a separator) and os.path.commonprefix (character based) is not used for containment; the tar "
    "analyser's sub-directory skipping is closed under descent; (d) in each of the three import analysers every raise "
    "(non-unique mapping, destination exists) precedes the first yield, because the caller copies one job per yielded "
    "item; (e) the type names accepted by the schema-string converter equal the keys of RE_TYPES, the generated regex is "
    "end-anchored and applied with re.match; (f) copy roles: export copies from job.path to a path beneath the target, "
    "import copies into job.path / job.fn(...) only, never overwriting (DestinationExistsError mapping, C04-b)."
    " (i) The import / export loops carry nothing between entries; a loop that prunes os.walk's dirnames iterates the live top-down generator; archive member paths are decomposed by position, never by searching the text of another path."
    ' (k) No glob-pattern enumeration of job files (hidden files); (l) the zip exporter writes file members only (the importer writes every member as a file); (m) the directory crawler and the schema anchor use the origin in the same spelling; a prefix built as `x + sep` needs a normalised x.'
    ' One-shot iterators are not used for repeated membership tests (C16-i). (n) the state point derived from the path and the one in the state point file are compared as values (C16-n); (o) archives are unpacked outside the workspace (C16-o).'
    ' (p) no tree copy of an export / clone keeps symbolic links as links (C16-p); `str.strip` family lint also on signac.job (Job.fn).'
)
UNDECIDED = ("The value-level round trip (ids, documents, file trees equal), archive member naming and formatted floats are not "
             "decided. Observed but not claimed: the schema-string converter drops literal text after the last field.")

IE = "signac.import_export"
ANALYSERS = [IE + ":_analyze_directory_for_import", IE + ":_analyze_zipfile_for_import", IE + ":_analyze_tarfile_for_import"]


def _returns_only_job_id(f):
    rets = [n for n in body_nodes(f) if isinstance(n, ast.Return) and n.value is not None]
    if not rets:
        return False
    for r in rets:
        t = canon(r.value).replace(" ", "")
        if t not in ("str(job.id)", "job.id", "job._id", "str(job)"):
            return False
    return True


@rule("C16-a")
def c16_a(ctx: Ctx):
    """Uniqueness of the job -> path mapping is checked before anything is copied."""
    R = "C16-a"
    out = []
    CHECK = IE + ":_check_path_function_unique"
    mp = ctx.fn(IE + ":_make_path_function")
    cfg = ctx.cfg(mp)
    checks = common.ids_of(ctx, mp, [s for s, _ in common.stmts_containing_call_to(ctx, mp, quals=(CHECK,))])
    safe = set(checks)
    for nf in mp.nested_all:
        if nf.name == "path_function" and _returns_only_job_id(nf):
            safe |= set(cfg.node_ids_for(nf.node))
    rets = [n for n in cfg.stmt_nodes() if isinstance(n.ast, ast.Return)]
    if not rets:
        out.append(ctx.inc(R, mp, mp.node, "no return in _make_path_function"))
    for r in rets:
        w = cfg.must_pass_before(r.id, safe, kinds="n")
        if w is None:
            out.append(ctx.ok(R, mp, r.ast, "every path returning a path function has checked it for uniqueness (or it is the id-based function)"))
        else:
            branch = [d for d in cfg.describe_path(w) if d.startswith("L") and ("if " in d or "elif" in d)]
            out.append(ctx.viol(R, mp, r.ast, "a path function is returned without a uniqueness check"
                                + (f" (branch {branch[0]})" if branch else "") + ": state point values are rendered with str(), so values that differ only by type "
                                "(1 and '1') map to one path and jobs are merged / overwritten on export", witness=cfg.describe_path(w)))
    ej = ctx.fn(IE + ":_export_jobs")
    cfg2 = ctx.cfg(ej)
    safe2 = common.ids_of(ctx, ej, [s for s, _ in common.stmts_containing_call_to(ctx, ej, quals=(CHECK, mp.qual))])
    copies = [n for n in cfg2.stmt_nodes() for c in (walk_no_nested(n.ast) if n.kind == "stmt" else []) if isinstance(c, ast.Call) and isinstance(c.func, ast.Name) and c.func.id == "copytree"]
    if not copies:
        out.append(ctx.inc(R, ej, ej.node, "no copytree call in _export_jobs"))
    for c in copies:
        w = cfg2.must_pass_before(c.id, safe2, kinds="n")
        if w is None:
            out.append(ctx.ok(R, ej, c.ast, "the copy loop is reached only after the uniqueness check"))
        else:
            out.append(ctx.viol(R, ej, c.ast, "jobs are copied on a path that skipped the uniqueness check of the path function", witness=cfg2.describe_path(w)))
    # the check itself counts duplicates over all jobs
    ck = ctx.fn(CHECK)
    t = " ".join(canon(n) for n in body_nodes(ck) if isinstance(n, (ast.Assign, ast.If)))
    # what is counted is the generated path itself (at most normalised), not a coarser key
    counted = None
    for c in body_nodes(ck):
        if isinstance(c, ast.Call) and (dotted(c.func) or "").split(".")[-1] == "Counter" and c.args and isinstance(c.args[0], (ast.GeneratorExp, ast.ListComp)):
            counted = c.args[0].elt
    pfp = ck.params[-1] if ck.params else "path_function"
    coarse = None
    if counted is not None:
        for x in ast.walk(counted):
            if isinstance(x, ast.Call) and isinstance(x.func, ast.Attribute) and x.func.attr in ("casefold", "lower", "upper", "strip", "rstrip", "lstrip", "replace", "split", "title", "swapcase"):
                coarse = x
            if isinstance(x, ast.Call) and isinstance(x.func, ast.Name) and x.func.id in ("hash", "len", "sorted", "set", "frozenset"):
                coarse = x
    if coarse is not None:
        out.append(ctx.viol(R, ck, coarse, f"the uniqueness check counts `{canon(counted)[:60]}`, a coarser key than the generated path: distinct paths (e.g. 'alpha' / 'Alpha') are reported as "
                            "duplicates and a valid export / linked view is refused", construct=CHECK + "|counts-paths"))
    elif "Counter(" in t and ("count > 1" in t or "> 1" in t) and any(isinstance(n, ast.Raise) for n in body_nodes(ck)):
        out.append(ctx.ok(R, ck, ck.node, "the check counts generated paths over all jobs and raises on any duplicate"))
    else:
        out.append(ctx.inc(R, ck, ck.node, "uniqueness check shape not recognised"))
    return out


def _normalised_auto_paths(ctx, R, out):
    """The automatically generated export / view paths are normalised (os.path.normpath) before they are checked for leaf/node conflicts and used:
    a state point value '' or '.' otherwise yields 'a/' or 'a/./b', which the component-wise conflict check does not recognise as the directory 'a'."""
    pf = ctx.prog.funcs.get(IE + ":_make_schema_based_path_function.<locals>.path")
    k = IE + ":_make_schema_based_path_function|normalised"
    if pf is None:
        out.append(ctx.inc(R, None, None, "automatic path function not found", construct=k))
        return
    rets = [r for r in body_nodes(pf) if isinstance(r, ast.Return) and r.value is not None]
    raw = [r for r in rets if not (isinstance(r.value, ast.Call) and common.ext_name(ctx, pf, r.value) == "os.path.normpath")
           and any(isinstance(x, ast.Call) and ((isinstance(x.func, ast.Attribute) and x.func.attr == "join")) for x in ast.walk(r.value))]
    ej = ctx.fn(IE + ":_export_jobs")
    downstream = any(isinstance(c, ast.Call) and common.ext_name(ctx, ej, c) == "os.path.normpath" for c in body_nodes(ej))
    if raw and not downstream:
        out.append(ctx.viol(R, pf, raw[0], f"the automatic path function returns {canon(raw[0].value)[:50]} without os.path.normpath (and _export_jobs does not normalise either): a state point value "
                            "'' or '.' produces 'a/' or 'a/./b'; the leaf/node check compares components and accepts it next to 'a/x', so one job is exported into the directory of another", construct=k))
    elif rets:
        out.append(ctx.ok(R, pf, rets[0], "automatically generated paths are normalised before they are checked and used", construct=k))
    else:
        out.append(ctx.inc(R, pf, pf.node, "automatic path function has no return", construct=k))


@rule("C16-b")
def c16_b(ctx: Ctx):
    """Leaf/node check is order independent and precedes the copies."""
    R = "C16-b"
    f = ctx.desugared(ctx.fn(IE + ":_check_directory_structure_validity"))
    out = []
    loops = [n for n in f.node.body if isinstance(n, ast.For)]
    sets = {t.id for n in body_nodes(f) if isinstance(n, ast.Assign) and isinstance(n.value, ast.Call) and canon(n.value) in ("set()",) for t in n.targets if isinstance(t, ast.Name)}
    verdict = None
    srt = any(isinstance(c, ast.Call) and isinstance(c.func, ast.Name) and c.func.id == "sorted" for c in body_nodes(f)) or \
        any(isinstance(c, ast.Call) and isinstance(c.func, ast.Attribute) and c.func.attr == "sort" for c in body_nodes(f))
    if srt:
        adj = [lp for lp in [n for n in body_nodes(f) if isinstance(n, ast.For)]
               if ("zip(" in canon(lp.iter) and "[1:]" in canon(lp.iter)) or any(isinstance(s, ast.Subscript) and "+ 1" in canon(s.slice) for s in ast.walk(lp))]
        sw = [c for c in body_nodes(f) if isinstance(c, ast.Call) and isinstance(c.func, ast.Attribute) and c.func.attr == "startswith"]
        if adj and sw and not sets:
            return [ctx.viol(R, f, adj[0], "the leaf/node check sorts the paths and compares each path only with its neighbour in sort order; the separator '/' sorts after '-', '.', ' ' and other "
                             "characters, so a sibling such as 'a/x.y' sorts between 'a/x' and 'a/x/z' and hides the conflict: one job is then exported into the directory of another")]
    if not loops or not sets:
        return [ctx.inc(R, f, f.node, "expected loops over the paths and a node set")]
    for lp in loops:
        adds = [c for c in ast.walk(lp) if isinstance(c, ast.Call) and isinstance(c.func, ast.Attribute) and c.func.attr == "add" and canon(c.func.value) in sets]
        tests = [c for c in ast.walk(lp) if isinstance(c, ast.Compare) and len(c.ops) == 1 and isinstance(c.ops[0], ast.In) and canon(c.comparators[0]) in sets]
        if adds and tests:
            if len(tests) >= 2:
                verdict = ("inc", lp, "one-pass check with several membership tests (possibly symmetric)")
            else:
                verdict = ("viol", lp, "each path is tested only against the nodes of the paths visited before it: ['a/b', 'a'] is rejected but ['a', 'a/b'] is accepted, "
                           "and one job is then exported into the directory of another")
            break
    if verdict is None:
        def _is_add(c):
            return isinstance(c, ast.Call) and isinstance(c.func, ast.Attribute) and c.func.attr in ("add", "update") and canon(c.func.value) in sets
        add_loops = [lp for lp in loops if any(_is_add(c) for c in ast.walk(lp))]
        test_loops = [lp for lp in loops if any(isinstance(c, ast.Raise) for c in ast.walk(lp))]
        # every proper prefix of a path is a node: the add sits in an inner loop over the token positions
        if add_loops:
            inner = [n for n in ast.walk(add_loops[0]) if isinstance(n, (ast.For, ast.While)) and n is not add_loops[0]
                     and any(isinstance(c, ast.Call) and isinstance(c.func, ast.Attribute) and c.func.attr == "add" for c in ast.walk(n))]
            def _prefixes_of_all(elt, bound):
                """elt contains T[:I] and bound contains len(T) for the same T"""
                for (_, b) in common.pfind("T[:I]", elt):
                    if any(canon(b2["T"]) == canon(b["T"]) for (_, b2) in common.pfind("len(T)", bound)):
                        return True
                return False
            rng = [n for n in inner if any(isinstance(c, ast.Call) and isinstance(c.func, ast.Attribute) and c.func.attr == "add" and c.args
                                           and _prefixes_of_all(c.args[0], n.iter if isinstance(n, ast.For) else n.test) for c in ast.walk(n))]
            upd = [c for c in ast.walk(add_loops[0]) if _is_add(c) and c.func.attr == "update" and c.args and isinstance(c.args[0], (ast.GeneratorExp, ast.SetComp, ast.ListComp))
                   and _prefixes_of_all(c.args[0].elt, c.args[0].generators[0].iter)]
            if rng or upd:
                out.append(ctx.ok(R, f, (rng or upd)[0], "every proper prefix of every path is registered as a node"))
            elif inner:
                out.append(ctx.inc(R, f, inner[0], "prefix enumeration has an unrecognised shape: " + stmt_key(inner[0], 60)))
            else:
                out.append(ctx.viol(R, f, add_loops[0], "only one ancestor per path is registered as a node (no loop over all proper prefixes): a leaf that is a more distant ancestor of another "
                                    "path (view paths 'P/job' and 'P/job/k/v/job') is not recognised as a node and the conflict is accepted"))
        if add_loops and test_loops and f.node.body.index(add_loops[0]) < f.node.body.index(test_loops[0]):
            out.append(ctx.ok(R, f, test_loops[0], "all nodes are collected in a first pass; paths are tested against the complete node set in a second pass"))
            it1, it2 = canon(add_loops[0].iter), canon(test_loops[0].iter)
            mat = any(isinstance(n, ast.Assign) and canon(n.value) in (f"list({it1})", f"tuple({it1})") for n in f.node.body)
            if it1 == it2 and (mat or it1 != f.params[0]):
                out.append(ctx.ok(R, f, add_loops[0], "the paths are materialised before being iterated twice"))
            elif it1 == it2:
                gens = []
                for g in ctx.prog.funcs.values():
                    if g.module.is_dep:
                        continue
                    for c in body_nodes(g):
                        if isinstance(c, ast.Call) and f.qual.split("~")[0] in common.targets_of(ctx, g, c) and c.args:
                            a0 = common.inline_at(ctx, g, c.args[0], c)
                            if isinstance(a0, ast.GeneratorExp) or (isinstance(a0, ast.Call) and isinstance(a0.func, ast.Name) and a0.func.id in ("map", "filter", "iter", "zip")):
                                gens.append((g, c))
                if gens:
                    g, c = gens[0]
                    out.append(ctx.viol(R, g, c, f"{g.qual.split(':')[-1]} passes a one-shot iterable ({canon(c.args[0])[:40]}) to the leaf/node check, which iterates its argument twice without "
                                        "materialising it: the second pass sees nothing, no conflict is ever reported and one job is exported into another's directory"))
                else:
                    out.append(ctx.info(R, f, add_loops[0], "the argument is iterated twice without being materialised (all callers pass re-iterable views)"))
        else:
            out.append(ctx.inc(R, f, f.node, "check structure not recognised"))
    elif verdict[0] == "viol":
        out.append(ctx.viol(R, f, verdict[1], verdict[2]))
    else:
        out.append(ctx.inc(R, f, verdict[1], verdict[2]))
    _normalised_auto_paths(ctx, R, out)
    ej = ctx.fn(IE + ":_export_jobs")
    cfg = ctx.cfg(ej)
    chk = common.ids_of(ctx, ej, [s for s, _ in common.stmts_containing_call_to(ctx, ej, quals=(f.qual.split("~")[0],))])
    copies = [n for n in cfg.stmt_nodes() for c in (walk_no_nested(n.ast) if n.kind == "stmt" else []) if isinstance(c, ast.Call) and isinstance(c.func, ast.Name) and c.func.id == "copytree"]
    for c in copies:
        w = cfg.must_pass_before(c.id, chk, kinds="n")
        if w is None and chk:
            out.append(ctx.ok(R, ej, c.ast, "the leaf/node check precedes the first copy"))
        else:
            out.append(ctx.viol(R, ej, c.ast, "jobs are copied before / without the leaf/node consistency check", witness=cfg.describe_path(w) if w else None))
    return out


def _component_aware(ctx, f, arg):
    a = common.inline_at(ctx, f, arg, arg)
    t = canon(a).replace(" ", "")
    if isinstance(a, ast.BinOp) and isinstance(a.op, ast.Add):
        r = ctx.fold(a.right, f)
        if r in ("/", "\\") or canon(a.right) in ("os.sep", "os.path.sep"):
            # `x + sep` doubles the separator when x already ends with one ('data/' + '/'); only os.path.join(x, '') never does.
            # Fine when x is the result of a normalising call (realpath / abspath / normpath / dirname never end in a separator, except the root).
            left = a.left
            if isinstance(left, ast.Call) and (common.ext_name(ctx, f, left) in ("os.path.realpath", "os.path.abspath", "os.path.normpath", "os.path.dirname", "os.getcwd")
                                               or (isinstance(left.func, ast.Attribute) and left.func.attr in ("rstrip",))):
                return True
            if isinstance(left, ast.Name) and left.id in f.params:
                return "doubles"
            return True
    if isinstance(a, ast.Call) and common.ext_name(ctx, f, a) == "os.path.join" and a.args and ctx.fold(a.args[-1], f) == "":
        return True
    if isinstance(a, ast.Constant) and isinstance(a.value, str):
        return None  # literal prefix: not a path containment test
    return False


@rule("C16-c")
def c16_c(ctx: Ctx):
    """Path-prefix tests compare whole components; tar sub-directory skipping is closed under descent."""
    R = "C16-c"
    out = []
    n_tests = 0
    for f in ctx.prog.functions_of_module(IE):
        for n in body_nodes(f):
            if isinstance(n, ast.Call) and isinstance(n.func, ast.Attribute) and n.func.attr == "startswith" and n.args:
                ca = _component_aware(ctx, f, n.args[0])
                if ca is None:
                    continue
                n_tests += 1
                if ca == "doubles":
                    out.append(ctx.viol(R, f, n, f"{canon(n)[:80]}: the prefix is built by appending a separator to a path taken as the caller typed it; when that path already ends with a "
                                        "separator ('data/') the prefix becomes 'data//' and nothing below the directory is recognised as contained (os.path.join(p, '') never doubles)"))
                elif ca:
                    out.append(ctx.ok(R, f, n, f"prefix test against a path that ends with a separator: {canon(n)[:70]}"))
                else:
                    out.append(ctx.viol(R, f, n, f"{canon(n)[:80]} compares paths as text: a sibling whose name merely starts with the same characters ('a/1' vs 'a/10', "
                                        "'workspace' vs 'workspace_old') is treated as contained"))
            if isinstance(n, ast.Call) and common.ext_name(ctx, f, n) == "os.path.commonprefix":
                n_tests += 1
                out.append(ctx.viol(R, f, n, "os.path.commonprefix works character by character, not by path component: 'a/10' has the common prefix 'a/1' with 'a/1'"))
    if n_tests < 3:
        out.append(ctx.inc(R, None, None, f"only {n_tests} path-prefix tests found in import_export.py (expected >= 3)", construct="prefix-tests"))
    # tar analyser: parent-membership skipping must add the skipped name
    t = ctx.fn(IE + ":_analyze_tarfile_for_import")
    found = False
    for n in body_nodes(t):
        if isinstance(n, ast.If):
            bt = common.pmatch("os.path.dirname(N) in S", n.test)
            if bt is not None:
                found = True
                setname = canon(bt["S"])
                adds = [c for st in n.body for c in walk_no_nested(st) if isinstance(c, ast.Call) and isinstance(c.func, ast.Attribute) and c.func.attr == "add"
                        and canon(c.func.value) == setname and c.args and canon(c.args[0]) == canon(bt["N"])]
                conts = [c for st in n.body for c in walk_no_nested(st) if isinstance(c, ast.Continue)]
                if adds and conts:
                    out.append(ctx.ok(R, t, n, "a directory whose parent is skipped is skipped and recorded itself: skipping is transitive"))
                elif conts:
                    out.append(ctx.viol(R, t, n, f"only directories whose direct parent is in {setname} are skipped and they are not recorded: a state point file two or more levels "
                                        "below an identified job directory is imported as an additional job"))
    if not found:
        # positive pattern: the only nesting test is `dirname(name) == <identified directory>`: one level, and nothing records the skipped directory
        one_level = [n for n in ast.walk(t.node) if isinstance(n, ast.Compare) and len(n.ops) == 1 and isinstance(n.ops[0], ast.Eq)
                     and (common.pmatch("os.path.dirname(N)", n.left) is not None or common.pmatch("os.path.dirname(N)", n.comparators[0]) is not None)]
        anc_t = [c for c in ast.walk(t.node) if isinstance(c, ast.Call) and ((isinstance(c.func, ast.Name) and c.func.id == "_zip_path_is_within")
                                                                              or (isinstance(c.func, ast.Attribute) and c.func.attr in ("startswith", "is_relative_to", "commonpath")))]
        if one_level and not anc_t:
            out.append(ctx.viol(R, t, one_level[0], f"the tar analyser recognises nesting only by `{canon(one_level[0])[:50]}`, i.e. one level below an identified job directory, and does not "
                                "record the skipped directory: a state point file two or more levels inside a job's file tree is imported as an additional job that was never exported"))
        else:
            out.append(ctx.inc(R, t, t.node, "tar analyser: sub-directory skipping shape not recognised"))
    # zip analyser: its directory set holds only directories that directly contain files, so it is not closed under parents;
    # skipping must therefore test *ancestry*, not parent membership
    z = ctx.fn(IE + ":_analyze_zipfile_for_import")
    pm_tests = [n for n in body_nodes(z) if isinstance(n, ast.Compare) and common.pmatch("os.path.dirname(N) in S", n) is not None]
    anc = [c for c in body_nodes(z) if isinstance(c, ast.Call) and (IE + ":_zip_path_is_within") in common.targets_of(ctx, z, c)]
    if pm_tests:
        out.append(ctx.viol(R, z, pm_tests[0], f"the zip analyser skips sub-directories by parent membership ({canon(pm_tests[0])[:50]}); zip archives list no directory entries, so the "
                            "directory set is not closed under parents and a state point file two levels below an identified job (under a directory without files of its own) is imported "
                            "as an additional job"))
    elif anc:
        out.append(ctx.ok(R, z, anc[0], "the zip analyser skips by ancestry (component-wise prefix test), which does not need intermediate directory entries"))
    else:
        out.append(ctx.inc(R, z, z.node, "zip analyser: sub-directory skipping shape not recognised"))
    return out


@rule("C16-d")
def c16_d(ctx: Ctx):
    """An import raises before any job has been copied: in the analysers no raise is reachable after a yield."""
    R = "C16-d"
    out = []
    for q in ANALYSERS:
        f = ctx.fn(q)
        cfg = ctx.cfg(f)
        yields = [n.id for n in cfg.stmt_nodes() if n.kind == "stmt" and any(isinstance(x, (ast.Yield, ast.YieldFrom)) for x in walk_no_nested(n.ast))]
        if not yields:
            out.append(ctx.inc(R, f, f.node, "analyser does not yield"))
            continue
        after = cfg.reachable(yields, kinds="n")
        bad = []
        for n in cfg.stmt_nodes():
            if isinstance(n.ast, ast.Raise) and n.id in after:
                nm = dotted(n.ast.exc.func if isinstance(n.ast.exc, ast.Call) else n.ast.exc) if n.ast.exc is not None else ""
                if nm and nm.split(".")[-1] in ("StatepointParsingError", "DestinationExistsError"):
                    bad.append(n)
        if bad:
            for b in bad:
                out.append(ctx.viol(R, f, b.ast, f"{stmt_key(b.ast, 50)} can be raised after copy executors were already yielded: earlier jobs have been imported when the call fails",
                                    construct=f"{q}|raise-after-yield"))
        else:
            out.append(ctx.ok(R, f, f.node, "every validation error is raised before the first yield", construct=f"{q}|raise-after-yield"))
        ex = [n for n in body_nodes(f) if isinstance(n, ast.Raise) and n.exc is not None and (dotted(n.exc.func if isinstance(n.exc, ast.Call) else n.exc) or "").endswith("DestinationExistsError")]
        if ex:
            out.append(ctx.ok(R, f, ex[0], "an already initialised destination is rejected during analysis", construct=f"{q}|exists-check"))
        else:
            out.append(ctx.viol(R, f, f.node, "the analyser does not check for already initialised destination jobs: the conflict surfaces only while copying, after earlier jobs were imported",
                                construct=f"{q}|exists-check"))
        un = [n for n in body_nodes(f) if isinstance(n, ast.Raise) and n.exc is not None and (dotted(n.exc.func if isinstance(n.exc, ast.Call) else n.exc) or "").endswith("StatepointParsingError")]
        if un:
            out.append(ctx.ok(R, f, un[0], "non-unique job mappings are rejected", construct=f"{q}|unique-check"))
        else:
            out.append(ctx.viol(R, f, f.node, "the analyser does not reject two directories that map to the same job: the second is copied over / into the first", construct=f"{q}|unique-check"))
    return out


@rule("C16-e")
def c16_e(ctx: Ctx):
    """Schema-string converter: type table agreement, end anchoring, re.match."""
    R = "C16-e"
    out = []
    m = ctx.prog.mod(IE)
    types = ctx.fold(m.consts.get("RE_TYPES"), None, m) if "RE_TYPES" in m.consts else UNKNOWN
    f = ctx.fn(IE + ":_convert_schema_path_to_regex")
    if not isinstance(types, dict):
        return [ctx.inc(R, f, f.node, "RE_TYPES does not fold to a dict")]
    accepted = set()
    # the type names for which a converter is entered into the returned table: constants tested (== / in) by an `if` whose body stores into a subscript
    for n in body_nodes(f):
        if isinstance(n, ast.If) and isinstance(n.test, ast.Compare) and len(n.test.ops) == 1 and isinstance(n.test.ops[0], (ast.Eq, ast.In)) \
                and any(isinstance(a, ast.Assign) and any(isinstance(t, ast.Subscript) for t in a.targets) for a in n.body):
            v = ctx.fold(n.test.comparators[0], f)
            if isinstance(v, str):
                accepted.add(v)
            elif isinstance(v, (tuple, list, frozenset, set)) and all(isinstance(x, str) for x in v):
                accepted |= set(v)
            elif isinstance(v, dict) and all(isinstance(x, str) for x in v):
                accepted |= set(v)
    if not accepted:
        # a converter table: the names are the keys of a mapping that is consulted with the type name and guards the ValueError
        for n in body_nodes(f):
            if isinstance(n, ast.Assign) and isinstance(n.value, ast.Dict) and n.value.keys and all(isinstance(k2, ast.Constant) and isinstance(k2.value, str) for k2 in n.value.keys) \
                    and len(n.targets) == 1 and isinstance(n.targets[0], ast.Name):
                tbl = n.targets[0].id
                guards = [c for c in body_nodes(f) if isinstance(c, ast.Compare) and len(c.ops) == 1 and isinstance(c.ops[0], (ast.In, ast.NotIn)) and canon(c.comparators[0]) == tbl]
                raises = [r for r in body_nodes(f) if isinstance(r, ast.Raise)]
                if guards and raises:
                    accepted |= {k2.value for k2 in n.value.keys}
    if not accepted:
        out.append(ctx.inc(R, f, f.node, "the type names accepted by the schema-string converter could not be determined"))
    elif accepted == set(types):
        out.append(ctx.ok(R, f, f.node, f"converter accepts exactly the RE_TYPES keys {sorted(types)}"))
    else:
        out.append(ctx.viol(R, f, f.node, f"RE_TYPES has {sorted(types)} but the converter accepts {sorted(accepted)}: a schema string using {sorted(set(types) ^ accepted)} "
                            "builds a regex and then fails (or is never convertible)"))
    # the regex accumulator: the local that the RE_TYPES fragments are appended to
    acc = {canon(n.target) for n in body_nodes(f) if isinstance(n, ast.AugAssign) and "RE_TYPES" in names_in(n.value)}
    anch = [n for n in body_nodes(f) if isinstance(n, ast.AugAssign) and canon(n.target) in acc and ctx.fold(n.value, f) in ("$", r"\Z")]
    if anch:
        out.append(ctx.ok(R, f, anch[0], "the generated regex is end-anchored"))
    else:
        out.append(ctx.viol(R, f, f.node, "the generated regex is not end-anchored: 'foo/{foo:int}' also matches 'foo/1/bar' and sub-directories become jobs"))
    g = ctx.fn(IE + ":_make_path_based_schema_function.<locals>.parse_path")
    mt = [c for c in body_nodes(g) if isinstance(c, ast.Call) and common.ext_name(ctx, g, c) in ("re.match", "re.fullmatch")]
    bad = [c for c in body_nodes(g) if isinstance(c, ast.Call) and common.ext_name(ctx, g, c) in ("re.search", "re.findall")]
    if mt and not bad:
        out.append(ctx.ok(R, g, mt[0], "the regex is applied with re.match (start-anchored)"))
    else:
        out.append(ctx.viol(R, g, (bad or [g.node])[0], "the schema regex is applied with re.search: any path that contains the pattern somewhere is parsed as a job"))
    cb = ctx.prog.funcs.get(IE + ":_convert_bool")
    kb = IE + ":_convert_bool|case"
    if cb is None:
        out.append(ctx.inc(R, None, None, "_convert_bool not found", construct=kb))
    else:
        gets = [c for c in body_nodes(cb) if isinstance(c, ast.Call) and isinstance(c.func, ast.Attribute) and c.func.attr == "get" and c.args]
        tbl = None
        for c in gets:
            t = ctx.fold(c.func.value, cb)
            if isinstance(t, dict):
                tbl = (c, t)
        if tbl is None:
            out.append(ctx.inc(R, cb, cb.node, "_convert_bool: literal table not found", construct=kb))
        else:
            c, t = tbl
            keyt = canon(common.inline_at(ctx, cb, c.args[0], c))
            lowered = ".lower()" in keyt or ".casefold()" in keyt
            keys_lower = all(isinstance(kx, str) and kx == kx.lower() for kx in t)
            if keys_lower and not lowered and not any(kx in t for kx in ("True", "False")):
                out.append(ctx.viol(R, cb, c, f"_convert_bool looks `{keyt}` up in a table of lower-case spellings {sorted(t)} without lower-casing it: export writes booleans as 'True' / 'False', so a "
                                    "{flag:bool} schema parses the directory 'False' as bool('False') == True", construct=kb))
            else:
                out.append(ctx.ok(R, cb, c, "_convert_bool recognises the spellings that export writes ('True' / 'False') by lower-casing before the look-up", construct=kb))
    from .lints import nested_builder
    out += nested_builder(ctx, R)
    PROBES = {"int": (["0", "12", "-3", "+4", "1000000"], ["1.0", "a", "", "1e3"]),
              "float": (["0.25", "10.75", "-1.125", "3.0", "7", "+2.5", ".5"], ["abc", "", "1.2.3"]),
              "bool": (["True", "False", "true", "false", "0", "1"], ["", "a/b"]),
              "str": (["abc", "x_1", "A"], ["", "a/b"])}
    for tname, pat in sorted(types.items()):
        try:
            import re
            cre = re.compile(pat)
        except Exception as e:
            out.append(ctx.viol(R, None, None, f"RE_TYPES[{tname!r}] does not compile: {e}", construct=f"RE_TYPES|{tname}"))
            continue
        yes, no = PROBES.get(tname, ([], []))
        wrong = [t for t in yes if not cre.fullmatch(t)] + [t for t in no if cre.fullmatch(t)]
        if wrong:
            out.append(ctx.viol(R, None, None, f"signac/import_export.py: RE_TYPES[{tname!r}] = {pat!r} classifies {wrong} differently from what a {tname} field must accept: directories "
                                f"whose {tname} value is written like that (e.g. a decimal with two or more fractional digits) are silently not imported", construct=f"RE_TYPES|{tname}"))
        else:
            out.append(ctx.ok(R, None, None, f"RE_TYPES[{tname!r}] = {pat!r} compiles and accepts / rejects the probe spellings of a {tname} field", construct=f"RE_TYPES|{tname}", nontrivial=bool(yes)))
    return out


@rule("C16-f")
def c16_f(ctx: Ctx):
    """Copy roles in export and import."""
    R = "C16-f"
    out = []
    ej = ctx.fn(IE + ":_export_jobs")
    for n in body_nodes(ej):
        if isinstance(n, ast.Assign) and len(n.targets) == 1 and isinstance(n.targets[0], ast.Name) and isinstance(n.value, ast.DictComp):
            k, v = canon(n.value.key), canon(n.value.value)
            mapname = n.targets[0].id
            bk, bv = common.pmatch("J.path", n.value.key), common.pmatch("F(J)", n.value.value)
            if bk and bv and canon(bk["J"]) == canon(bv["J"]) and "path" in canon(bv["F"]):
                out.append(ctx.ok(R, ej, n, "export maps job.path (source) -> path_function(job) (destination)"))
            else:
                out.append(ctx.viol(R, ej, n, f"export path mapping is {{{k}: {v}}}: sources and destinations are not (job directory -> generated path)"))
    for n in body_nodes(ej):
        if isinstance(n, ast.Call) and isinstance(n.func, ast.Name) and n.func.id == "copytree":
            pm = ctx.parents(ej)
            lp = pm.get(id(n))
            while lp is not None and not isinstance(lp, ast.For):
                lp = pm.get(id(lp))
            tnames = common.target_names(lp.target) if lp is not None else []
            if lp is not None and common.pmatch("M.items()", lp.iter) is not None and [canon(a) for a in n.args] == tnames and len(tnames) == 2:
                out.append(ctx.ok(R, ej, n, "copytree(<key>, <value>) for (key, value) taken from the source -> destination mapping"))
            else:
                out.append(ctx.viol(R, ej, n, f"{canon(n)}: arguments are not (source, destination)"))
    d = ctx.fn(IE + ":export_to_directory.<locals>.copytree_to_directory")
    j = [c for c in body_nodes(d) if isinstance(c, ast.Call) and common.ext_name(ctx, d, c) == "os.path.join" and c.args and canon(c.args[0]) == "target"]
    if j:
        out.append(ctx.ok(R, d, j[0], "directory export writes beneath the target directory"))
    else:
        out.append(ctx.viol(R, d, d.node, "directory export does not place the copy beneath the target"))
    c = ctx.fn(IE + ":_copy_to_job_workspace")
    calls = [n for n in body_nodes(c) if isinstance(n, ast.Call) and isinstance(n.func, ast.Name) and n.func.id == "copytree"]
    for n in calls:
        dst = common.inline_at(ctx, c, n.args[1], n) if len(n.args) > 1 else None
        if dst is not None and canon(dst) in ("job.path", "job.ws") and canon(n.args[0]) == c.params[0]:
            out.append(ctx.ok(R, c, n, "import copies <source> into job.path"))
        else:
            out.append(ctx.viol(R, c, n, f"{canon(n)}: import does not copy into the job's own directory"))
    inits = [n for n in body_nodes(c) if isinstance(n, ast.Call) and "signac.job:Job.init" in common.targets_of(ctx, c, n)]
    lazy = [n for n in inits if ctx.fold(kwarg(n, "validate_statepoint") or (n.args[1] if len(n.args) > 1 else None), c) is False]
    if lazy:
        out.append(ctx.viol(R, c, lazy[0], "the imported directory is 'initialised' with init(validate_statepoint=False), which returns as soon as the directory exists - and the copy has just "
                            "created it: jobs identified by a schema (no state point files in the data space) never get signac_statepoint.json, a fresh project handle raises JobsCorruptedError"))
    elif inits:
        out.append(ctx.ok(R, c, inits[0], "the imported directory is initialised as a job (state point written / validated)"))
    else:
        out.append(ctx.viol(R, c, c.node, "imported directories are not initialised: jobs imported through a schema function have no state point file"))
    from .lints import no_nesting_move, no_path_text_search, walk_pruning_effective, strip_is_not_removeprefix
    out += strip_is_not_removeprefix(ctx, R, ["signac.import_export", "signac.job"])
    out += walk_pruning_effective(ctx, R, ["signac.import_export"])
    out += no_path_text_search(ctx, R, [IE + ":_CopyFromZipFileExecutor.__call__", IE + ":_CopyFromTarFileExecutor.__call__", IE + ":_analyze_zipfile_for_import",
                                       IE + ":_analyze_tarfile_for_import", IE + ":_analyze_directory_for_import", IE + ":_crawl_directory_data_space", IE + ":_zip_path_is_within"],
                               "when a job's file tree repeats its own export path below it ('a/1/archive/a/1/result.txt') the member is written to the wrong place and overwrites the job's own file")
    out += no_nesting_move(ctx, R, [IE + ":_CopyFromTarFileExecutor.__call__", IE + ":_CopyFromDirectoryExecutor.__call__", IE + ":_copy_to_job_workspace",
                                    "signac.project:Project.clone", "signac.job:Job.move"])
    z = ctx.fn(IE + ":_CopyFromZipFileExecutor.__call__")
    for e in ctx.effects.direct(z):
        if e.kind == "open-write":
            t = common.inline_at(ctx, z, e.target, e.node)
            if canon(t).startswith("self.job.fn("):
                out.append(ctx.ok(R, z, e.node, "zip import writes to self.job.fn(<member path relative to the job's archive directory>)"))
            else:
                out.append(ctx.viol(R, z, e.node, f"zip import writes to {canon(t)[:60]}, not beneath the job directory"))
    za = ctx.fn(IE + ":_analyze_zipfile_for_import")
    # the member list handed to the zip copy executor (4th argument), traced to its defining comprehension
    execs = [c for c in body_nodes(za) if isinstance(c, ast.Call) and (dotted(c.func) or "").endswith("_CopyFromZipFileExecutor") and len(c.args) >= 4]
    ncomp = []
    for c in execs:
        v = common.inline_at(ctx, za, c.args[3], c)
        if isinstance(v, ast.ListComp):
            ncomp.append((v, canon(c.args[1])))
        else:
            out.append(ctx.inc(R, za, c, f"member list of the zip executor is {canon(v)[:50]}"))
    if not execs:
        out.append(ctx.inc(R, za, za.node, "no _CopyFromZipFileExecutor(...) construction found"))
    for n, rootarg in ncomp:
        conds = [canon(c) for g in n.generators for c in g.ifs]
        tv = canon(n.generators[0].target)
        if conds and all(c.replace(" ", "") == f"_zip_path_is_within({tv},{rootarg})" for c in conds) and canon(n.elt) == tv:
            out.append(ctx.ok(R, za, n, "a job receives exactly the archive members inside its own directory (component-wise test)"))
        elif conds:
            out.append(ctx.inc(R, za, n, f"member selection: {conds}"))
    return out


@rule("C16-g")
def c16_g(ctx: Ctx):
    """The path specification distinguishes None (automatic), False (by id) and strings: no truthiness decision."""
    from .lints import sentinel_discipline
    table = [("signac.import_export:_make_path_function", "path", "path=False means 'use the job id' and '' is a format string: a truthiness test sends both to the automatic schema path")]
    # the state point parsed for a directory (the value handed to open_job): None means 'not a job directory', {} is the state point of a job
    for g in ctx.prog.functions_of_module(IE):
        for c in body_nodes(g):
            if isinstance(c, ast.Call) and isinstance(c.func, ast.Attribute) and c.func.attr == "open_job" and c.args and isinstance(c.args[0], ast.Name) and c.args[0].id not in g.params:
                ent = (g.qual, c.args[0].id, "the empty state point {} is a valid state point: taken for 'not a job directory' the job is silently left out of the import")
                if ent not in table:
                    table.append(ent)
    return sentinel_discipline(ctx, "C16-g", table)


@rule("C16-h")
def c16_h(ctx: Ctx):
    """Export / import helpers keep no state between calls."""
    from .lints import no_memoisation_modules
    return no_memoisation_modules(ctx, "C16-h", ("signac.import_export", "signac.linked_view", "signac.schema"),
                                  "paths and schemas are computed from the jobs given in this call; a remembered result belongs to another selection")


@rule("C16-i")
def c16_i(ctx: Ctx):
    """Per-job / per-entry loops are independent: nothing read in one iteration was computed in another."""
    from .lints import per_item_loops, late_binding_in_loops, one_shot_locals
    return one_shot_locals(ctx, "C16-i", ("signac.import_export",)) + late_binding_in_loops(ctx, "C16-i", ("signac.import_export",)) + per_item_loops(ctx, "C16-i", [('signac.import_export:_analyze_directory_for_import', 'a directory is imported with the state point / job of the previous one'), ('signac.import_export:_analyze_zipfile_for_import', 'an archive directory is imported with the state point / job of the previous one'), ('signac.import_export:_analyze_tarfile_for_import', 'an archive directory is imported with the state point / job of the previous one'), ('signac.import_export:_crawl_directory_data_space', 'a directory is paired with the state point parsed for the previous one'), ('signac.import_export:_export_jobs', 'a job is exported to the path computed for the previous one')])


@rule("C16-j")
def c16_j(ctx: Ctx):
    """Whole-module cross-checks: no exchanged positional arguments in resolved internal calls; diagnostics (logging / warnings) do no work."""
    from .lints import swapped_arguments, pure_logging
    return swapped_arguments(ctx, "C16-j", ['signac.import_export']) + pure_logging(ctx, "C16-j", ['signac.import_export'])


@rule("C16-m")
def c16_m(ctx: Ctx):
    """The directory crawler and the schema pattern look at the same spelling of the origin: the paths that os.walk reports start with the walk root as given, and the
    pattern is anchored at the origin - if only one side resolves symbolic links (realpath) nothing matches for an origin reached through a link and the import
    silently imports nothing."""
    R = "C16-m"
    cr = ctx.fn(IE + ":_crawl_directory_data_space")
    an = ctx.fn(IE + ":_analyze_directory_for_import")
    k = IE + "|crawl-root-and-schema-anchor-agree"
    walks = [c for c in body_nodes(cr) if isinstance(c, ast.Call) and common.ext_name(ctx, cr, c) == "os.walk" and c.args]
    if not walks:
        return [ctx.inc(R, cr, cr.node, "no os.walk in the crawler", construct=k)]

    def norms(fi, e, at):
        v = common.inline_at(ctx, fi, e, at)
        return {(common.ext_name(ctx, fi, c) or "").split(".")[-1] for c in ast.walk(v) if isinstance(c, ast.Call)} & {"realpath", "abspath", "normpath", "resolve"}
    wn = norms(cr, walks[0].args[0], walks[0])
    # reaching definitions of the walk root when it is a re-bound parameter
    if isinstance(walks[0].args[0], ast.Name):
        for d in common.reaching_defs(ctx, cr, walks[0].args[0].id, walks[0]):
            if isinstance(d, ast.AST):
                wn |= {(common.ext_name(ctx, cr, c) or "").split(".")[-1] for c in ast.walk(d) if isinstance(c, ast.Call)} & {"realpath", "abspath", "normpath", "resolve"}
    sdefs = [n for n in body_nodes(an) if isinstance(n, ast.Assign) and any(isinstance(t, ast.Name) and t.id == "schema" for t in n.targets)]
    sn = set()
    for n in sdefs:
        sn |= {(common.ext_name(ctx, an, c) or "").split(".")[-1] for c in ast.walk(n.value) if isinstance(c, ast.Call)} & {"realpath", "abspath", "normpath", "resolve"}
    if ("realpath" in wn) != ("realpath" in sn) or ("resolve" in wn) != ("resolve" in sn):
        return [ctx.viol(R, cr, walks[0], f"the crawler walks the origin after {sorted(wn) or 'no normalisation'} while the schema pattern is anchored after {sorted(sn) or 'no normalisation'}: "
                         "for an origin that contains a symbolic link the reported directories never match the pattern and import_from returns nothing without raising", construct=k)]
    if ("abspath" in wn) != ("abspath" in sn):
        return [ctx.viol(R, cr, walks[0], f"the crawler walks the origin after {sorted(wn) or 'no normalisation'} while the schema pattern is anchored after {sorted(sn) or 'no normalisation'}: "
                         "for a relative origin the reported directories never match the pattern", construct=k)]
    return [ctx.ok(R, cr, walks[0], "the crawler's walk root and the schema anchor are the origin in the same spelling", construct=k)]


@rule("C16-l")
def c16_l(ctx: Ctx):
    """Writer and reader of zip archives agree on what a member is: the importer (_CopyFromZipFileExecutor) writes every member as a regular file
    (`open(..., 'wb')`), so the exporter adds file members only - a directory member comes back as an empty *file* of that name."""
    R = "C16-l"
    out = []
    f = ctx.prog.funcs.get(IE + ":export_to_zipfile.<locals>.copytree_to_zip")
    k = IE + ":export_to_zipfile|file-members-only"
    if f is None:
        return [ctx.inc(R, None, None, "copytree_to_zip not found", construct=k)]
    walks = [lp for lp in body_nodes(f) if isinstance(lp, ast.For) and isinstance(lp.iter, ast.Call) and common.ext_name(ctx, f, lp.iter) == "os.walk"
             and isinstance(lp.target, ast.Tuple) and len(lp.target.elts) == 3]
    writes = [c for c in body_nodes(f) if isinstance(c, ast.Call) and isinstance(c.func, ast.Attribute) and c.func.attr == "write" and "zip" in canon(c.func.value).lower()]
    if not writes:
        return [ctx.inc(R, f, f.node, "no zipfile.write in copytree_to_zip", construct=k)]
    # executor side: members are written with open(..., 'wb')
    ex = ctx.prog.funcs.get(IE + ":_CopyFromZipFileExecutor.__call__")
    reader_files_only = ex is not None and any(e.kind == "open-write" for e in ctx.effects.direct(ex)) and not any(
        isinstance(c, ast.Call) and (common.ext_name(ctx, ex, c) in ("os.makedirs", "os.mkdir") and "isdir" in " ".join(t for (t, _p) in common.facts_at(ctx, ex, c, "n"))) for c in body_nodes(ex))
    for w in writes:
        src = kwarg(w, "filename") or (w.args[0] if w.args else None)
        if src is None:
            out.append(ctx.inc(R, f, w, "zipfile.write without a file name", construct=k))
            continue
        file_vars = set()
        dir_vars = set()
        pmf = ctx.parents(f)
        cur = pmf.get(id(w))
        while cur is not None:
            if isinstance(cur, ast.For):
                if cur in walks:
                    dir_vars |= set(common.target_names(cur.target.elts[0])) | set(common.target_names(cur.target.elts[1]))
                else:
                    for wl in walks:
                        if isinstance(cur.iter, ast.Name) and cur.iter.id in common.target_names(wl.target.elts[2]):
                            file_vars |= set(common.target_names(cur.target))
                        if isinstance(cur.iter, ast.Name) and cur.iter.id in common.target_names(wl.target.elts[1]):
                            dir_vars |= set(common.target_names(cur.target))
            cur = pmf.get(id(cur))
        used = names_in(common.inline_at(ctx, f, src, w))
        if used & file_vars:
            out.append(ctx.ok(R, f, w, "archive members are the files found by the walk", construct=k))
        elif used & dir_vars and reader_files_only:
            out.append(ctx.viol(R, f, w, f"a directory ({canon(src)[:40]}) is written into the zip archive as a member of its own, but the importer writes every member with open(..., 'wb'): "
                                "an (empty) sub-directory of a job comes back as a 0-byte regular file of that name", construct=k))
        else:
            out.append(ctx.inc(R, f, w, f"origin of the archive member {canon(src)[:40]} not recognised", construct=k))
    return out


@rule("C16-k")
def c16_k(ctx: Ctx):
    """Every file of a job directory is exported / imported, hidden ones included: no glob-pattern enumeration."""
    from .lints import no_glob_enumeration
    return no_glob_enumeration(ctx, "C16-k", ("signac.import_export",), "the archive lacks them and the imported jobs have incomplete file trees")


@rule("C16-n")
def c16_n(ctx: Ctx):
    """An import with a schema never files a directory under a state point that its own state point file contradicts: the state point derived from the path
    and the one read from the file are compared as values (`!=` / `==` on the two mappings themselves), and what is returned is what was compared."""
    R = "C16-n"
    q = "signac.import_export:_with_consistency_check.<locals>._check"
    f = ctx.prog.funcs.get(q)
    k = q + "|compared-as-values"
    if f is None:
        return [ctx.inc(R, None, None, "_with_consistency_check._check not found", construct=k)]
    derived, fromfile = set(), set()
    for n in body_nodes(f):
        if isinstance(n, ast.Assign) and len(n.targets) == 1 and isinstance(n.targets[0], ast.Name) and isinstance(n.value, ast.Call) and isinstance(n.value.func, ast.Name):
            if n.value.func.id == "schema_function":
                derived.add(n.targets[0].id)
            elif n.value.func.id == "read_statepoint_file":
                fromfile.add(n.targets[0].id)
    if not derived or not fromfile:
        return [ctx.inc(R, f, f.node, "the two state points (from the path, from the file) are not bound to locals", construct=k)]
    plain = []
    other = []
    for c in body_nodes(f):
        if isinstance(c, ast.Compare) and len(c.ops) == 1:
            ops = [c.left, c.comparators[0]]
            nm = [o.id if isinstance(o, ast.Name) else None for o in ops]
            touches = names_in(c) & (derived | fromfile)
            if (nm[0] in derived and nm[1] in fromfile) or (nm[0] in fromfile and nm[1] in derived):
                if isinstance(c.ops[0], (ast.Eq, ast.NotEq)):
                    plain.append(c)
                else:
                    other.append(c)
            elif (touches & derived) and (touches & fromfile):
                other.append(c)
    out = []
    if other or not plain:
        w = (other or [f.node])[0]
        out.append(ctx.viol(R, f, w, f"the state point derived from the path and the one in the state point file are not compared as values (`{canon(w)[:70]}`): a spelling-level or "
                            "one-directional comparison accepts {'a': '1'} against {'a': 1}, or a schema that names only some of the keys - the directory is then imported under the id "
                            "of a state point that its own state point file contradicts", construct=k))
    else:
        out.append(ctx.ok(R, f, plain[0], "the two state points are compared as values (any difference is a StatepointParsingError)", construct=k))
    return out


@rule("C16-o")
def c16_o(ctx: Ctx):
    """An archive is unpacked outside the project: the temporary extraction directory is not placed in the workspace (where it would be an entry that is not a job,
    and would stay behind after a crash)."""
    R = "C16-o"
    out = []
    for f in ctx.prog.functions_of_module("signac.import_export"):
        for c in body_nodes(f):
            if isinstance(c, ast.Call) and (dotted(c.func) or "").split(".")[-1] in ("TemporaryDirectory", "mkdtemp"):
                k = f"{f.qual}|extraction-outside-project"
                d = kwarg(c, "dir")
                if d is not None and not (isinstance(d, ast.Constant) and d.value is None):
                    out.append(ctx.viol(R, f, c, f"the extraction directory is created with dir={canon(d)[:40]}: the unpacked archive sits inside the project while the import runs and is left "
                                        "there by a crash - an entry of the workspace that no job accounts for", construct=k))
                else:
                    out.append(ctx.ok(R, f, c, "archives are unpacked in the system's temporary directory", construct=k))
    if not out:
        out.append(ctx.ok(R, None, None, "no temporary extraction directory in signac.import_export", construct="signac.import_export|extraction-outside-project", nontrivial=False))
    return out

@rule("C16-p")
def c16_p(ctx: Ctx):
    """Exports and clones copy what links point to: no tree copy in signac.project / signac.import_export asks shutil.copytree to keep symbolic links as links (a link
    that leads out of the job directory would arrive dangling and its data would be missing from the export)."""
    R = "C16-p"
    out = []
    n = 0
    for mq in ("signac.project", "signac.import_export"):
        for f in ctx.prog.functions_of_module(mq):
            for c in [x for x in ast.walk(f.node) if isinstance(x, ast.Call)]:
                if (dotted(c.func) or "").endswith("copytree") or ((dotted(c.func) or "").endswith("partial") and c.args and (dotted(c.args[0]) or "").endswith("copytree")):
                    n += 1
                    sl = kwarg(c, "symlinks")
                    if sl is not None and ctx.fold(sl, f) is not False:
                        out.append(ctx.viol(R, f, c, f"`{canon(c)[:60]}` keeps symbolic links as links: data behind a link that leads out of the job directory is not part of the "
                                            "exported / cloned job", construct=f"{mq}|links-followed"))
    if not out:
        out.append(ctx.ok(R, None, None, f"{n} tree copies in signac.project / signac.import_export, none keeps links as links", construct="links-followed"))
    return out

RULES = [c16_a, c16_b, c16_c, c16_d, c16_e, c16_f, c16_g, c16_h, c16_i, c16_j, c16_k, c16_l, c16_m, c16_n, c16_o, c16_p]
