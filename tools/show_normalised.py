#!/venv/bin/python
import sys, os, ast, subprocess, tempfile, shutil
sys.path.insert(0,'/verif')
diff=sys.argv[1]; fn=sys.argv[2] if len(sys.argv)>2 else None
tmp=tempfile.mkdtemp(prefix='inl-')
shutil.copytree('/repo/signac', os.path.join(tmp,'signac'))
subprocess.run(['patch','-p1','-s','-i',diff],cwd=tmp,check=True)
from sigstat.core import Program
p=Program(tmp, with_main=True)
for l in p.inline_log: print('LOG',l)
if fn:
    f=p.funcs[fn]; print(ast.unparse(f.node))
shutil.rmtree(tmp)
