"""sigstat.core - loader, program model, constant folder, canonical expressions.

Everything here works on ASTs parsed from the working tree.  No signac code is
imported or executed.
"""
from __future__ import annotations

import ast
import copy
import hashlib
import os
import sys
from dataclasses import dataclass, field
from typing import Dict, List, Optional, Tuple, Iterable, Any


class AnchorMissing(Exception):
    """A function / class / statement a rule is anchored in cannot be found."""


class Unknown:
    """Result of folding an expression that is not a compile-time constant."""

    def __repr__(self):
        return "UNKNOWN"

    def __bool__(self):
        return False


UNKNOWN = Unknown()


# --------------------------------------------------------------------------
# loader
# --------------------------------------------------------------------------


@dataclass
class Module:
    name: str  # dotted, e.g. signac.job
    path: str  # absolute path
    rel: str  # path relative to repo root (or "<dep>/..." for dependencies)
    source: str
    tree: ast.Module
    sha256: str
    is_dep: bool = False
    imports: Dict[str, Tuple[str, Optional[str]]] = field(default_factory=dict)
    # name -> (module dotted name, attribute or None)
    consts: Dict[str, ast.expr] = field(default_factory=dict)  # module level NAME = expr (single assignment)


@dataclass
class ClassInfo:
    name: str
    qual: str  # module:Class or module:Outer.Inner
    module: Module
    node: ast.ClassDef
    bases: List[str] = field(default_factory=list)  # resolved quals when possible else raw text
    methods: Dict[str, "FuncInfo"] = field(default_factory=dict)
    attrs: Dict[str, ast.expr] = field(default_factory=dict)
    properties: Dict[str, Dict[str, "FuncInfo"]] = field(default_factory=dict)  # name -> {get,set}


@dataclass
class FuncInfo:
    name: str
    qual: str  # module:func, module:Class.func, module:outer.<locals>.inner
    module: Module
    node: ast.AST  # FunctionDef / AsyncFunctionDef
    cls: Optional[ClassInfo] = None
    parent: Optional["FuncInfo"] = None
    decorators: List[str] = field(default_factory=list)
    nested: Dict[str, "FuncInfo"] = field(default_factory=dict)
    nested_all: List["FuncInfo"] = field(default_factory=list)

    @property
    def params(self) -> List[str]:
        a = self.node.args
        return [x.arg for x in a.posonlyargs + a.args] + ([a.vararg.arg] if a.vararg else []) + [
            x.arg for x in a.kwonlyargs
        ] + ([a.kwarg.arg] if a.kwarg else [])

    @property
    def site(self) -> str:
        return f"{self.module.rel}:{self.node.lineno}"

    def default_of(self, param: str):
        """AST of the default value of a parameter, or None."""
        a = self.node.args
        pos = a.posonlyargs + a.args
        defaults = [None] * (len(pos) - len(a.defaults)) + list(a.defaults)
        for p, d in zip(pos, defaults):
            if p.arg == param:
                return d
        for p, d in zip(a.kwonlyargs, a.kw_defaults):
            if p.arg == param:
                return d
        return None


def _sha(text: str) -> str:
    return hashlib.sha256(text.encode()).hexdigest()


def _is_pure_chain(e):
    while isinstance(e, ast.Attribute):
        e = e.value
    return isinstance(e, ast.Name)


class _Normalise(ast.NodeTransformer):
    """Source normalisation applied when a module is loaded, so that rules see one spelling of equivalent code:
    a single comparison with the constant on the left (`"x" == v`, `None is v`, `1 < n`) is turned round (`v == "x"`, `v is None`, `n > 1`).
    Positions are kept; nothing else is rewritten."""
    def visit_Module(self, node):
        # `import os as os_` / `from .errors import X as Y`: the alias is undone (uses renamed back) when the original name is not bound otherwise in the module
        bound = set()
        for n in ast.walk(node):
            if isinstance(n, ast.Name) and isinstance(n.ctx, (ast.Store, ast.Del)):
                bound.add(n.id)
            elif isinstance(n, (ast.FunctionDef, ast.AsyncFunctionDef, ast.ClassDef)):
                bound.add(n.name)
            elif isinstance(n, ast.arg):
                bound.add(n.arg)
            elif isinstance(n, ast.ExceptHandler) and n.name:
                bound.add(n.name)
            elif isinstance(n, (ast.Import, ast.ImportFrom)):
                for a in n.names:
                    if a.asname is None:
                        bound.add(a.name.split(".")[0])
        ren = {}
        for n in ast.walk(node):
            if isinstance(n, (ast.Import, ast.ImportFrom)):
                for a in n.names:
                    if a.asname and "." not in a.name and a.name != "*" and a.name not in bound and a.asname not in ren and a.asname != a.name:
                        uses_elsewhere = a.asname in bound
                        if not uses_elsewhere:
                            ren[a.asname] = a.name
        if ren:
            for n in ast.walk(node):
                if isinstance(n, ast.Name) and n.id in ren:
                    n.id = ren[n.id]
                elif isinstance(n, (ast.Import, ast.ImportFrom)):
                    for a in n.names:
                        if a.asname in ren and ren[a.asname] == a.name:
                            a.asname = None
        self.generic_visit(node)
        return node

    _FLIP = {ast.Eq: ast.Eq, ast.NotEq: ast.NotEq, ast.Is: ast.Is, ast.IsNot: ast.IsNot, ast.Lt: ast.Gt, ast.Gt: ast.Lt, ast.LtE: ast.GtE, ast.GtE: ast.LtE}

    def visit_Compare(self, node):
        self.generic_visit(node)
        if len(node.ops) == 1 and type(node.ops[0]) in self._FLIP and isinstance(node.left, ast.Constant) and not isinstance(node.comparators[0], ast.Constant):
            new = ast.Compare(left=node.comparators[0], ops=[self._FLIP[type(node.ops[0])]()], comparators=[node.left])
            return ast.copy_location(new, node)
        return node

    _NEG = {ast.Is: ast.IsNot, ast.IsNot: ast.Is, ast.Eq: ast.NotEq, ast.NotEq: ast.Eq, ast.In: ast.NotIn, ast.NotIn: ast.In}

    def visit_UnaryOp(self, node):
        # not (a is None) -> a is not None, not (a == b) -> a != b, not (a in b) -> a not in b, not not a -> a (only under another `not` / in a test position it is
        # the same truth value; as a value `not not a` is bool(a), so that one is left alone)
        self.generic_visit(node)
        if isinstance(node.op, ast.Not) and isinstance(node.operand, ast.Compare) and len(node.operand.ops) == 1 and type(node.operand.ops[0]) in self._NEG:
            c = node.operand
            return ast.copy_location(ast.Compare(left=c.left, ops=[self._NEG[type(c.ops[0])]()], comparators=c.comparators), node)
        return node

    @staticmethod
    def _negative(t):
        if isinstance(t, ast.UnaryOp) and isinstance(t.op, ast.Not):
            return t.operand
        if isinstance(t, ast.Compare) and len(t.ops) == 1 and isinstance(t.ops[0], (ast.IsNot, ast.NotEq, ast.NotIn)):
            pos = {ast.IsNot: ast.Is, ast.NotEq: ast.Eq, ast.NotIn: ast.In}[type(t.ops[0])]()
            return ast.copy_location(ast.Compare(left=t.left, ops=[pos], comparators=t.comparators), t)
        return None

    def visit_If(self, node):
        # `if <negative test>: B else: A` with a plain else -> `if <positive test>: A else: B`
        self.generic_visit(node)
        # `if A: (if B: X)` with no else on either level -> `if A and B: X`
        while (not node.orelse and len(node.body) == 1 and isinstance(node.body[0], ast.If) and not node.body[0].orelse
               and not any(isinstance(x, ast.NamedExpr) for x in ast.walk(node.test))):
            inner = node.body[0]
            vals = (list(node.test.values) if isinstance(node.test, ast.BoolOp) and isinstance(node.test.op, ast.And) else [node.test]) + \
                   (list(inner.test.values) if isinstance(inner.test, ast.BoolOp) and isinstance(inner.test.op, ast.And) else [inner.test])
            node = ast.copy_location(ast.If(test=ast.copy_location(ast.BoolOp(op=ast.And(), values=vals), node.test), body=inner.body, orelse=[]), node)
        if node.orelse and not (len(node.orelse) == 1 and isinstance(node.orelse[0], ast.If)):
            pos = self._negative(node.test)
            if pos is not None:
                return ast.copy_location(ast.If(test=pos, body=node.orelse, orelse=node.body), node)
        return node

    # `t = E` immediately followed by `return t` / `yield t` / `if t:` / `raise t`, t bound once and read once in the whole function  ->  the temporary is folded away
    def _fold_temps(self, fn):
        loads, stores = {}, {}
        for n in ast.walk(fn):
            if isinstance(n, ast.Name):
                d = loads if isinstance(n.ctx, ast.Load) else stores
                d[n.id] = d.get(n.id, 0) + 1
            elif isinstance(n, (ast.Global, ast.Nonlocal)):
                for nm in n.names:
                    stores[nm] = stores.get(nm, 0) + 2
        params = {a.arg for a in fn.args.args + fn.args.kwonlyargs + fn.args.posonlyargs} | ({fn.args.vararg.arg} if fn.args.vararg else set()) | ({fn.args.kwarg.arg} if fn.args.kwarg else set())

        def single(nm):
            return loads.get(nm, 0) == 1 and stores.get(nm, 0) == 1 and nm not in params

        def fold(stmts):
            out = []
            i = 0
            while i < len(stmts):
                s = stmts[i]
                nxt = stmts[i + 1] if i + 1 < len(stmts) else None
                if isinstance(s, ast.Assign) and len(s.targets) == 1 and isinstance(s.targets[0], ast.Name) and single(s.targets[0].id) and nxt is not None:
                    nm = s.targets[0].id
                    done = False
                    if isinstance(nxt, ast.Return) and isinstance(nxt.value, ast.Name) and nxt.value.id == nm:
                        out.append(ast.copy_location(ast.Return(value=s.value), s)); done = True
                    elif isinstance(nxt, ast.Expr) and isinstance(nxt.value, ast.Yield) and isinstance(nxt.value.value, ast.Name) and nxt.value.value.id == nm:
                        out.append(ast.copy_location(ast.Expr(value=ast.copy_location(ast.Yield(value=s.value), s)), s)); done = True
                    elif isinstance(nxt, ast.Raise) and isinstance(nxt.exc, ast.Name) and nxt.exc.id == nm and nxt.cause is None:
                        out.append(ast.copy_location(ast.Raise(exc=s.value, cause=None), s)); done = True
                    if not done and _is_pure_chain(s.value) and not isinstance(nxt, (ast.FunctionDef, ast.AsyncFunctionDef, ast.ClassDef)):
                        # a pure receiver / attribute chain bound for the next statement only: `r = a.b; r.c(x)` -> `a.b.c(x)`
                        uses = [x for x in ast.walk(nxt) if isinstance(x, ast.Name) and x.id == nm and isinstance(x.ctx, ast.Load)]
                        roots = {x.id for x in ast.walk(s.value) if isinstance(x, ast.Name)}
                        rebinds = any(isinstance(x, ast.Name) and isinstance(x.ctx, ast.Store) and x.id in roots for x in ast.walk(nxt))
                        if len(uses) == 1 and not rebinds:
                            val = s.value

                            class _Sub(ast.NodeTransformer):
                                def visit_Name(self, node):
                                    if node.id == nm and isinstance(node.ctx, ast.Load):
                                        return ast.copy_location(val, node)
                                    return node
                            out.append(_Sub().visit(nxt))
                            done = True
                    if not done and isinstance(nxt, ast.For) and isinstance(nxt.iter, ast.Name) and nxt.iter.id == nm and isinstance(nxt.target, ast.Name) \
                            and isinstance(s.value, (ast.ListComp, ast.GeneratorExp)) and len(s.value.generators) == 1 and not s.value.generators[0].is_async \
                            and isinstance(s.value.generators[0].target, ast.Name) and isinstance(s.value.elt, ast.Name) \
                            and s.value.elt.id == s.value.generators[0].target.id and s.value.generators[0].ifs and not nxt.orelse:
                        # `sel = [v for v in IT if C(v)]; for x in sel: BODY`  ->  `for x in IT: if C(x): BODY`  (the filter becomes a branch condition of the body)
                        import copy as _copy
                        gen = s.value.generators[0]
                        var, tgt = gen.target.id, nxt.target.id

                        class _Ren(ast.NodeTransformer):
                            def visit_Name(self, node):
                                if node.id == var:
                                    return ast.copy_location(ast.Name(id=tgt, ctx=node.ctx), node)
                                return node
                        tests = [_Ren().visit(_copy.deepcopy(t)) for t in gen.ifs]
                        test = tests[0] if len(tests) == 1 else ast.copy_location(ast.BoolOp(op=ast.And(), values=tests), tests[0])
                        inner = ast.copy_location(ast.If(test=test, body=nxt.body, orelse=[]), nxt)
                        out.append(ast.copy_location(ast.For(target=nxt.target, iter=gen.iter, body=[inner], orelse=[], type_comment=None), nxt))
                        done = True
                    if not done and isinstance(s.value, ast.IfExp) and _is_pure_chain(s.value.body) and _is_pure_chain(s.value.orelse) \
                            and isinstance(nxt, (ast.Assign, ast.Expr, ast.Return)):
                        # a callee chosen by a conditional expression for the next statement only:
                        # `f = A if c else B; x = f(args)`  ->  `if c: x = A(args)  else: x = B(args)`
                        uses = [x for x in ast.walk(nxt) if isinstance(x, ast.Name) and x.id == nm and isinstance(x.ctx, ast.Load)]
                        callee = [c for c in ast.walk(nxt) if isinstance(c, ast.Call) and isinstance(c.func, ast.Name) and c.func.id == nm]
                        tnames = {x.id for x in ast.walk(s.value.test) if isinstance(x, ast.Name)}
                        rebinds = any(isinstance(x, ast.Name) and isinstance(x.ctx, ast.Store) and x.id in tnames for x in ast.walk(nxt))
                        if len(uses) == 1 and len(callee) == 1 and not rebinds:
                            import copy as _copy

                            def _with(val):
                                class _Sub(ast.NodeTransformer):
                                    def visit_Name(self, node):
                                        if node.id == nm and isinstance(node.ctx, ast.Load):
                                            return ast.copy_location(_copy.deepcopy(val), node)
                                        return node
                                return _Sub().visit(_copy.deepcopy(nxt))
                            out.append(ast.copy_location(ast.If(test=s.value.test, body=[_with(s.value.body)], orelse=[_with(s.value.orelse)]), s))
                            done = True
                    if done:
                        i += 2
                        continue
                out.append(s)
                i += 1
            return out

        for n in ast.walk(fn):
            for f in ("body", "orelse", "finalbody"):
                v = getattr(n, f, None)
                if isinstance(v, list) and v and isinstance(v[0], ast.stmt):
                    setattr(n, f, fold(v))
            if isinstance(n, ast.ExceptHandler):
                n.body = fold(n.body)

    def visit_FunctionDef(self, node):
        self.generic_visit(node)
        self._fold_temps(node)
        self._quantifier_loops(node)
        return node

    _qn = 0

    def _quantifier_loops(self, fn):
        """`if [not] all(map(F, IT)):` / `x = any(map(F, IT))` with F a plain name / attribute chain  ->  the short-circuiting loop it abbreviates
        (`q = True; for i in IT: if not F(i): q = False; break`), so that rules phrased over loops (and the expansion of a new helper F) see it."""
        def quant(e):
            neg = False
            if isinstance(e, ast.UnaryOp) and isinstance(e.op, ast.Not):
                e, neg = e.operand, True
            if isinstance(e, ast.Call) and isinstance(e.func, ast.Name) and e.func.id in ("all", "any") and len(e.args) == 1 and not e.keywords:
                m = e.args[0]
                if isinstance(m, ast.Call) and isinstance(m.func, ast.Name) and m.func.id == "map" and len(m.args) == 2 and not m.keywords and _is_pure_chain(m.args[0]):
                    return e.func.id, m.args[0], m.args[1], neg
            return None

        def build(kind, f, it, at):
            _Normalise._qn += 1
            q, i = f"_quant_{_Normalise._qn}", f"_quant_item_{_Normalise._qn}"
            call = ast.Call(func=f, args=[ast.Name(id=i, ctx=ast.Load())], keywords=[])
            test = ast.UnaryOp(op=ast.Not(), operand=call) if kind == "all" else call
            body = [ast.Assign(targets=[ast.Name(id=q, ctx=ast.Store())], value=ast.Constant(value=(kind != "all"))), ast.Break()]
            loop = ast.For(target=ast.Name(id=i, ctx=ast.Store()), iter=it, body=[ast.If(test=test, body=body, orelse=[])], orelse=[], type_comment=None)
            init = ast.Assign(targets=[ast.Name(id=q, ctx=ast.Store())], value=ast.Constant(value=(kind == "all")))
            for st in (init, loop):
                for x in ast.walk(st):
                    if not hasattr(x, "lineno"):
                        ast.copy_location(x, at)
                ast.fix_missing_locations(st)
            return q, [init, loop]

        def block(stmts):
            out = []
            for st in stmts:
                if isinstance(st, ast.If) and quant(st.test) is not None:
                    kind, f, it, neg = quant(st.test)
                    q, pre = build(kind, f, it, st)
                    ref = ast.copy_location(ast.Name(id=q, ctx=ast.Load()), st.test)
                    st.test = ast.copy_location(ast.UnaryOp(op=ast.Not(), operand=ref), st.test) if neg else ref
                    out.extend(pre)
                elif isinstance(st, (ast.Assign, ast.Return)) and st.value is not None and quant(st.value) is not None and not (isinstance(st, ast.Assign) and len(st.targets) != 1):
                    kind, f, it, neg = quant(st.value)
                    q, pre = build(kind, f, it, st)
                    ref = ast.copy_location(ast.Name(id=q, ctx=ast.Load()), st.value)
                    st.value = ast.copy_location(ast.UnaryOp(op=ast.Not(), operand=ref), st.value) if neg else ref
                    out.extend(pre)
                out.append(st)
            return out
        for n in ast.walk(fn):
            if isinstance(n, (ast.FunctionDef, ast.AsyncFunctionDef, ast.ClassDef)) and n is not fn:
                continue
            for fld in ("body", "orelse", "finalbody"):
                v = getattr(n, fld, None)
                if isinstance(v, list) and v and isinstance(v[0], ast.stmt):
                    setattr(n, fld, block(v))
            if isinstance(n, ast.ExceptHandler):
                n.body = block(n.body)

    visit_AsyncFunctionDef = visit_FunctionDef

    def visit_For(self, node):
        # `for t in (A, B): BODY` over a short literal tuple of names / constants  ->  BODY[t:=A]; BODY[t:=B]   (no break; `continue` only as the last
        # statement of a path through the body, where it means "fall out of this copy")
        self.generic_visit(node)
        it = node.iter
        # `for x in filter(F, IT): BODY`  ->  `for x in IT: if F(x): BODY`   (filter is lazy: the same interleaving of F and BODY)
        if isinstance(it, ast.Call) and isinstance(it.func, ast.Name) and it.func.id == "filter" and len(it.args) == 2 and not it.keywords and isinstance(node.target, ast.Name) \
                and (_is_pure_chain(it.args[0]) or (isinstance(it.args[0], ast.Constant) and it.args[0].value is None)):
            f, src = it.args
            var = ast.copy_location(ast.Name(id=node.target.id, ctx=ast.Load()), node)
            test = var if isinstance(f, ast.Constant) else ast.copy_location(ast.Call(func=f, args=[var], keywords=[]), it)
            inner = ast.copy_location(ast.If(test=test, body=node.body, orelse=[]), node)
            node = ast.copy_location(ast.For(target=node.target, iter=src, body=[inner], orelse=node.orelse, type_comment=None), node)
            ast.fix_missing_locations(node)
            return node
        if not (isinstance(it, (ast.Tuple, ast.List)) and 1 <= len(it.elts) <= 4 and isinstance(node.target, ast.Name) and not node.orelse
                and all(_is_pure_chain(e) or isinstance(e, ast.Constant) for e in it.elts)):
            return node
        t = node.target.id
        for x in ast.walk(ast.Module(body=node.body, type_ignores=[])):
            if isinstance(x, (ast.Break, ast.FunctionDef, ast.AsyncFunctionDef, ast.Lambda, ast.ClassDef, ast.While, ast.For, ast.GeneratorExp, ast.ListComp, ast.SetComp, ast.DictComp)):
                return node
            if isinstance(x, ast.Name) and x.id == t and isinstance(x.ctx, (ast.Store, ast.Del)):
                return node

        def tail_only(stmts):
            """every `continue` is the last statement of its block and that block is in tail position"""
            for i, s in enumerate(stmts):
                last = i == len(stmts) - 1
                if isinstance(s, ast.Continue):
                    if not last:
                        return False
                    continue
                subs = []
                if isinstance(s, ast.If):
                    subs = [s.body, s.orelse]
                elif isinstance(s, ast.Try):
                    subs = [s.body, s.orelse, s.finalbody] + [h.body for h in s.handlers]
                elif isinstance(s, (ast.With, ast.AsyncWith)):
                    subs = [s.body]
                for b in subs:
                    has = any(isinstance(y, ast.Continue) for z in b for y in ast.walk(z))
                    if has and (not last or not tail_only(b)):
                        return False
                    if isinstance(s, ast.Try) and has and (b is s.body and (s.orelse or s.finalbody)):
                        return False
            return True
        if not tail_only(node.body):
            return node
        import copy as _copy
        out = []
        for e in it.elts:
            class _Sub(ast.NodeTransformer):
                def visit_Name(self, n2):
                    if n2.id == t and isinstance(n2.ctx, ast.Load):
                        return ast.copy_location(_copy.deepcopy(e), n2)
                    return n2

                def visit_Continue(self, n2):
                    return ast.copy_location(ast.Pass(), n2)
            out.extend(_Sub().visit(_copy.deepcopy(s)) for s in node.body)
        return out

    # leading parameters of a few standard-library functions: keyword spellings of these are made positional (`relpath(p, start=d)` -> `relpath(p, d)`)
    _STD_SIGS = {
        "os.path.relpath": ("path", "start"), "os.replace": ("src", "dst"), "os.rename": ("src", "dst"), "os.symlink": ("src", "dst"), "os.link": ("src", "dst"),
        "shutil.copytree": ("src", "dst"), "shutil.copy": ("src", "dst"), "shutil.copy2": ("src", "dst"), "shutil.copyfile": ("src", "dst"), "shutil.move": ("src", "dst"),
        "os.remove": ("path",), "os.unlink": ("path",), "os.rmdir": ("path",), "os.mkdir": ("path",), "os.makedirs": ("name",), "shutil.rmtree": ("path",),
        "os.path.join": (), "os.listdir": ("path",), "os.path.exists": ("path",), "os.path.isdir": ("s",), "os.path.isfile": ("path",),
    }

    def visit_Call(self, node):
        self.generic_visit(node)
        try:
            fn = ast.unparse(node.func)
        except Exception:
            return node
        sig = self._STD_SIGS.get(fn)
        if sig and node.keywords and not any(isinstance(a, ast.Starred) for a in node.args) and not any(k.arg is None for k in node.keywords):
            args = list(node.args)
            kws = list(node.keywords)
            while len(args) < len(sig):
                want = sig[len(args)]
                hit = [k for k in kws if k.arg == want]
                if not hit:
                    break
                args.append(hit[0].value)
                kws.remove(hit[0])
            if len(args) != len(node.args):
                node.args, node.keywords = args, kws
        return node

    def visit_Expr(self, node):
        # `yield from filter(F, IT)`  ->  `for _x in IT: if F(_x): yield _x`   (F a plain name / attribute chain, or None)
        self.generic_visit(node)
        v = node.value
        if isinstance(v, ast.YieldFrom) and isinstance(v.value, ast.Call) and isinstance(v.value.func, ast.Name) and v.value.func.id == "filter" \
                and len(v.value.args) == 2 and not v.value.keywords and (_is_pure_chain(v.value.args[0]) or (isinstance(v.value.args[0], ast.Constant) and v.value.args[0].value is None)):
            f, it = v.value.args
            var = ast.Name(id="_flt_item", ctx=ast.Load())
            test = var if isinstance(f, ast.Constant) else ast.Call(func=f, args=[var], keywords=[])
            body = ast.If(test=test, body=[ast.Expr(value=ast.Yield(value=ast.Name(id="_flt_item", ctx=ast.Load())))], orelse=[])
            loop = ast.For(target=ast.Name(id="_flt_item", ctx=ast.Store()), iter=it, body=[body], orelse=[], type_comment=None)
            for x in ast.walk(loop):
                if not hasattr(x, "lineno"):
                    ast.copy_location(x, node)
            return ast.copy_location(loop, node)
        # `yield from (E for x in IT if C ...)`  ->  `for x in IT: if C: yield E`   (a generator expression is as lazy as the loop)
        if isinstance(v, ast.YieldFrom) and isinstance(v.value, ast.GeneratorExp) and not any(g.is_async for g in v.value.generators):
            inner = [ast.Expr(value=ast.Yield(value=v.value.elt))]
            for g in reversed(v.value.generators):
                for t in reversed(g.ifs):
                    inner = [ast.If(test=t, body=inner, orelse=[])]
                inner = [ast.For(target=g.target, iter=g.iter, body=inner, orelse=[], type_comment=None)]
            loop = inner[0]
            for x in ast.walk(loop):
                if not hasattr(x, "lineno"):
                    ast.copy_location(x, node)
            return self.visit(ast.copy_location(loop, node))
        return node

    def visit_Try(self, node):
        # `try: (try: A except E: H) finally: F`  ->  `try: A except E: H finally: F`   (the language defines the three-part statement as this nesting)
        self.generic_visit(node)
        if node.finalbody and not node.handlers and not node.orelse and len(node.body) == 1 and isinstance(node.body[0], ast.Try) and not node.body[0].finalbody \
                and type(node.body[0]) is type(node):
            inner = node.body[0]
            return ast.copy_location(ast.Try(body=inner.body, handlers=inner.handlers, orelse=inner.orelse, finalbody=node.finalbody), node)
        return node

    def visit_With(self, node):
        # `with contextlib.suppress(E1, E2): body`  ->  `try: body  except (E1, E2): pass`  (what it means; error-discipline rules judge the handler)
        self.generic_visit(node)
        if len(node.items) == 1 and node.items[0].optional_vars is None and isinstance(node.items[0].context_expr, ast.Call):
            c = node.items[0].context_expr
            f = c.func
            is_sup = (isinstance(f, ast.Name) and f.id == "suppress") or (isinstance(f, ast.Attribute) and f.attr == "suppress" and isinstance(f.value, ast.Name) and f.value.id == "contextlib")
            if is_sup and c.args and not c.keywords and not any(isinstance(a, ast.Starred) for a in c.args):
                typ = c.args[0] if len(c.args) == 1 else ast.copy_location(ast.Tuple(elts=list(c.args), ctx=ast.Load()), c)
                h = ast.copy_location(ast.ExceptHandler(type=typ, name=None, body=[ast.copy_location(ast.Pass(), node)]), node)
                t = ast.copy_location(ast.Try(body=node.body, handlers=[h], orelse=[], finalbody=[]), node)
                return t
        return node

    def visit_IfExp(self, node):
        self.generic_visit(node)
        pos = self._negative(node.test)
        if pos is not None:
            return ast.copy_location(ast.IfExp(test=pos, body=node.orelse, orelse=node.body), node)
        return node


class Program:
    """Parsed program: signac modules from the working tree + selected dependency modules."""

    def __init__(self, repo_root: str, with_main: bool = False):
        self.repo_root = os.path.abspath(repo_root)
        self.modules: Dict[str, Module] = {}
        self.classes: Dict[str, ClassInfo] = {}
        self.funcs: Dict[str, FuncInfo] = {}
        self.parse_errors: List[str] = []
        pkg = os.path.join(self.repo_root, "signac")
        if not os.path.isdir(pkg):
            raise AnchorMissing(f"package directory {pkg} not found")
        for dirpath, dirnames, filenames in os.walk(pkg):
            dirnames[:] = sorted(d for d in dirnames if d not in ("_vendor", "__pycache__"))
            for fn in sorted(filenames):
                if not fn.endswith(".py"):
                    continue
                full = os.path.join(dirpath, fn)
                rel = os.path.relpath(full, self.repo_root)
                mod = rel[:-3].replace(os.sep, ".")
                if mod.endswith(".__init__"):
                    mod = mod[: -len(".__init__")]
                if mod == "signac.__main__" and not with_main:
                    continue
                self._load(mod, full, rel, False)
        self._load_deps()
        # calls of functions that do not exist on the reference tree (freshly extracted helpers) are expanded in place
        from .inline import inline_package, load_inventory
        known = None if os.environ.get("SIGSTAT_NO_INLINE") else load_inventory()
        own = {m.name: (m.tree, m.path.endswith("__init__.py")) for m in self.modules.values() if not m.is_dep}
        trees, self.inline_log = inline_package(own, known)
        for name, tree in trees.items():
            # expanded code is normalised once more (an expanded `if` nested in the caller's `if` is the merged test again, ...)
            self.modules[name].tree = _Normalise().visit(tree) if self.inline_log else tree
        for m in list(self.modules.values()):
            self._index_module(m)
        self._resolve_bases()

    # -- loading ----------------------------------------------------------
    def _load(self, modname, full, rel, is_dep):
        try:
            with open(full, encoding="utf-8") as fh:
                src = fh.read()
            from .pathnorm import normalise_pathlib
            tree = _Normalise().visit(normalise_pathlib(ast.parse(src, filename=full)))
        except (OSError, SyntaxError) as e:  # a tree that does not parse is not analysable
            self.parse_errors.append(f"{rel}: {e}")
            return
        self.modules[modname] = Module(modname, full, rel, src, tree, _sha(src), is_dep)

    def _load_deps(self):
        """Locate synced_collections source (path lookup only, nothing imported)."""
        base = None
        for p in sys.path:
            cand = os.path.join(p, "synced_collections")
            if os.path.isdir(cand):
                base = cand
                break
        self.dep_base = base
        if base is None:
            return
        wanted = [
            "backends/collection_json.py",
            "buffers/buffered_collection.py",
            "buffers/file_buffered_collection.py",
            "buffers/serialized_file_buffered_collection.py",
            "buffers/memory_buffered_collection.py",
            "data_types/synced_collection.py",
            "data_types/synced_dict.py",
            "data_types/synced_list.py",
            "data_types/attr_dict.py",
            "utils.py",
        ]
        for w in wanted:
            full = os.path.join(base, w)
            if os.path.isfile(full):
                mod = "synced_collections." + w[:-3].replace("/", ".")
                self._load(mod, full, "<dep>/synced_collections/" + w, True)

    # -- indexing ---------------------------------------------------------
    def _index_module(self, m: Module):
        pkg_parts = m.name.split(".")
        is_pkg = m.path.endswith("__init__.py")
        for node in ast.walk(m.tree):
            if isinstance(node, ast.Import):
                for a in node.names:
                    m.imports[a.asname or a.name.split(".")[0]] = (a.name if a.asname else a.name.split(".")[0], None)
            elif isinstance(node, ast.ImportFrom):
                if node.level:
                    base = pkg_parts if is_pkg else pkg_parts[:-1]
                    if node.level > 1:
                        base = base[: len(base) - (node.level - 1)]
                    modname = ".".join(base + ([node.module] if node.module else []))
                else:
                    modname = node.module or ""
                for a in node.names:
                    m.imports[a.asname or a.name] = (modname, a.name)
        counts: Dict[str, int] = {}
        for st in m.tree.body:
            if isinstance(st, ast.Assign) and len(st.targets) == 1 and isinstance(st.targets[0], ast.Name):
                n = st.targets[0].id
                counts[n] = counts.get(n, 0) + 1
                m.consts[n] = st.value
            elif isinstance(st, ast.AnnAssign) and isinstance(st.target, ast.Name) and st.value is not None:
                n = st.target.id
                counts[n] = counts.get(n, 0) + 1
                m.consts[n] = st.value
        for n, c in counts.items():
            if c > 1:
                m.consts.pop(n, None)
        self._index_body(m, m.tree.body, None, None, m.name + ":")

    def _index_body(self, m, body, cls, parent, prefix):
        for st in body:
            if isinstance(st, (ast.FunctionDef, ast.AsyncFunctionDef)):
                self._add_func(m, st, cls, parent, prefix)
            elif isinstance(st, ast.ClassDef):
                ci = ClassInfo(st.name, prefix + st.name, m, st)
                ci.bases = [ast.unparse(b) for b in st.bases]
                self.classes[ci.qual] = ci
                for s2 in st.body:
                    if isinstance(s2, ast.Assign) and len(s2.targets) == 1 and isinstance(s2.targets[0], ast.Name):
                        ci.attrs[s2.targets[0].id] = s2.value
                    elif isinstance(s2, ast.AnnAssign) and isinstance(s2.target, ast.Name) and s2.value is not None:
                        ci.attrs[s2.target.id] = s2.value
                self._index_body(m, st.body, ci, parent, prefix + st.name + ".")
            elif isinstance(st, (ast.If, ast.Try, ast.With, ast.For, ast.While)):
                # conditional definitions (rare): index the nested bodies too
                for fld in ("body", "orelse", "finalbody"):
                    self._index_body(m, getattr(st, fld, []) or [], cls, parent, prefix)
                for h in getattr(st, "handlers", []) or []:
                    self._index_body(m, h.body, cls, parent, prefix)

    def _add_func(self, m, node, cls, parent, prefix):
        decs = [ast.unparse(d) for d in node.decorator_list]
        name = node.name
        qual = prefix + name
        # property setters share the name of the getter
        role = "get"
        for d in decs:
            if d.endswith(".setter"):
                role = "set"
                qual = qual + ".setter"
            elif d.endswith(".deleter"):
                role = "del"
                qual = qual + ".deleter"
        base_qual = qual
        k = 2
        while qual in self.funcs:  # same name defined again (conditional definitions): keep all
            qual = f"{base_qual}#{k}"
            k += 1
        fi = FuncInfo(name, qual, m, node, cls, parent, decs)
        self.funcs[qual] = fi
        if parent is not None:
            parent.nested.setdefault(name, fi)
            parent.nested_all.append(fi)
        if cls is not None and parent is None:
            if "property" in decs or role != "get":
                cls.properties.setdefault(name, {})[role] = fi
            else:
                cls.methods[name] = fi
        # nested functions and classes
        self._index_locals(m, node.body, fi, base_qual + ".<locals>.")

    def _index_locals(self, m, body, fi, prefix):
        for st in body:
            if isinstance(st, (ast.FunctionDef, ast.AsyncFunctionDef)):
                self._add_func(m, st, None, fi, prefix)
            elif isinstance(st, ast.ClassDef):
                self._index_body(m, [st], None, fi, prefix)
            else:
                for fld in ("body", "orelse", "finalbody"):
                    sub = getattr(st, fld, None)
                    if isinstance(sub, list):
                        self._index_locals(m, sub, fi, prefix)
                for h in getattr(st, "handlers", []) or []:
                    self._index_locals(m, h.body, fi, prefix)

    def _resolve_bases(self):
        for ci in self.classes.values():
            res = []
            for b in ci.bases:
                q = self.resolve_class_name(ci.module, b)
                res.append(q or b)
            ci.bases = res

    # -- lookup -----------------------------------------------------------
    def resolve_class_name(self, m: Module, text: str) -> Optional[str]:
        """Resolve a (possibly dotted) name used in module m to a class qual."""
        head, _, rest = text.partition(".")
        if not rest:
            q = f"{m.name}:{head}"
            if q in self.classes:
                return q
            if head in m.imports:
                mod, attr = m.imports[head]
                if attr is not None:
                    return self._class_in(mod, attr)
            return None
        # dotted: module alias . Class   or Outer.Inner
        q = f"{m.name}:{text}"
        if q in self.classes:
            return q
        if head in m.imports:
            mod, attr = m.imports[head]
            target = mod if attr is None else f"{mod}.{attr}"
            return self._class_in(target, rest)
        return None

    def _class_in(self, modname: str, cname: str, depth: int = 0) -> Optional[str]:
        q = f"{modname}:{cname}"
        if q in self.classes:
            return q
        m = self.modules.get(modname)
        if m and depth < 4:
            head = cname.split(".")[0]
            if head in m.imports:
                mod2, attr2 = m.imports[head]
                if attr2 is not None:
                    return self._class_in(mod2, attr2 + cname[len(head):], depth + 1)
        return None

    def mro(self, cq: str) -> List[ClassInfo]:
        """Linearised bases (depth first, left to right, de-duplicated keeping last) - good enough here."""
        out: List[str] = []

        def rec(q):
            ci = self.classes.get(q)
            if ci is None:
                return
            out.append(q)
            for b in ci.bases:
                rec(b)

        rec(cq)
        seen = set()
        res = []
        for q in out:
            if q not in seen:
                seen.add(q)
                res.append(self.classes[q])
        return res

    def find_method(self, cq: str, name: str, skip_self: bool = False) -> Optional[FuncInfo]:
        for i, ci in enumerate(self.mro(cq)):
            if skip_self and i == 0:
                continue
            if name in ci.methods:
                return ci.methods[name]
        return None

    def find_property(self, cq: str, name: str) -> Optional[Dict[str, FuncInfo]]:
        for ci in self.mro(cq):
            if name in ci.properties:
                return ci.properties[name]
        return None

    def class_attr(self, cq: str, name: str) -> Optional[Tuple[ClassInfo, ast.expr]]:
        for ci in self.mro(cq):
            if name in ci.attrs:
                return ci, ci.attrs[name]
        return None

    def fn(self, qual: str) -> FuncInfo:
        fi = self.funcs.get(qual)
        if fi is None:
            raise AnchorMissing(f"function {qual} not found")
        return fi

    def cls(self, qual: str) -> ClassInfo:
        ci = self.classes.get(qual)
        if ci is None:
            raise AnchorMissing(f"class {qual} not found")
        return ci

    def mod(self, name: str) -> Module:
        m = self.modules.get(name)
        if m is None:
            raise AnchorMissing(f"module {name} not found")
        return m

    def functions_of_module(self, modname: str) -> List[FuncInfo]:
        return [f for f in self.funcs.values() if f.module.name == modname]

    def digests(self, only_signac=True) -> Dict[str, str]:
        return {m.rel: m.sha256 for m in self.modules.values() if not (only_signac and m.is_dep)}


# --------------------------------------------------------------------------
# small AST helpers
# --------------------------------------------------------------------------


def walk_no_nested(node: ast.AST, include_root=True) -> Iterable[ast.AST]:
    """ast.walk that does not descend into nested function / class definitions / lambdas."""
    stack = [node]
    first = True
    while stack:
        n = stack.pop()
        if not first and isinstance(n, (ast.FunctionDef, ast.AsyncFunctionDef, ast.ClassDef, ast.Lambda)):
            yield n  # the definition node itself, but not its body
            continue
        if include_root or not first:
            yield n
        first = False
        stack.extend(reversed(list(ast.iter_child_nodes(n))))


def body_nodes(fi: FuncInfo) -> Iterable[ast.AST]:
    for st in fi.node.body:
        yield from walk_no_nested(st)


def dotted(node: ast.AST) -> Optional[str]:
    """a.b.c for Name/Attribute chains, else None."""
    parts = []
    while isinstance(node, ast.Attribute):
        parts.append(node.attr)
        node = node.value
    if isinstance(node, ast.Name):
        parts.append(node.id)
        return ".".join(reversed(parts))
    return None


def call_name(call: ast.Call) -> Optional[str]:
    return dotted(call.func)


def kwarg(call: ast.Call, name: str) -> Optional[ast.expr]:
    for k in call.keywords:
        if k.arg == name:
            return k.value
    return None


def has_star_kwargs(call: ast.Call) -> bool:
    return any(k.arg is None for k in call.keywords)


def arg_or_kw(call: ast.Call, index: int, name: str) -> Optional[ast.expr]:
    if len(call.args) > index and not any(isinstance(a, ast.Starred) for a in call.args[: index + 1]):
        return call.args[index]
    return kwarg(call, name)


def names_in(node: ast.AST) -> set:
    return {n.id for n in ast.walk(node) if isinstance(n, ast.Name)}


def stmt_key(node: ast.AST, maxlen: int = 160) -> str:
    """Normalised text of a statement header / expression: no line numbers, single spaces."""
    if isinstance(node, (ast.If, ast.While)):
        t = f"{type(node).__name__.lower()} {ast.unparse(node.test)}"
    elif isinstance(node, ast.For):
        t = f"for {ast.unparse(node.target)} in {ast.unparse(node.iter)}"
    elif isinstance(node, ast.With):
        t = "with " + ", ".join(ast.unparse(i) for i in node.items)
    elif isinstance(node, ast.Try):
        t = "try"
    elif isinstance(node, ast.ExceptHandler):
        t = "except " + (ast.unparse(node.type) if node.type else "")
    elif isinstance(node, (ast.FunctionDef, ast.AsyncFunctionDef)):
        t = f"def {node.name}"
    elif isinstance(node, ast.ClassDef):
        t = f"class {node.name}"
    else:
        t = ast.unparse(node)
    t = " ".join(t.split())
    return t[:maxlen]


# --------------------------------------------------------------------------
# local environments, canonical expressions, constant folding
# --------------------------------------------------------------------------


def assigned_names(fi_node: ast.AST) -> Dict[str, List[ast.AST]]:
    """All binding sites of simple names in a function body (no nested defs)."""
    out: Dict[str, List[ast.AST]] = {}

    def add(n, site):
        out.setdefault(n, []).append(site)

    def targets(t, site):
        if isinstance(t, ast.Name):
            add(t.id, site)
        elif isinstance(t, (ast.Tuple, ast.List)):
            for e in t.elts:
                targets(e, site)
        elif isinstance(t, ast.Starred):
            targets(t.value, site)

    for st in fi_node.body:
        for n in walk_no_nested(st):
            if isinstance(n, ast.Assign):
                for t in n.targets:
                    targets(t, n)
            elif isinstance(n, (ast.AugAssign, ast.AnnAssign)):
                targets(n.target, n)
            elif isinstance(n, (ast.For, ast.AsyncFor)):
                targets(n.target, n)
            elif isinstance(n, (ast.With, ast.AsyncWith)):
                for it in n.items:
                    if it.optional_vars is not None:
                        targets(it.optional_vars, n)
            elif isinstance(n, ast.ExceptHandler) and n.name:
                add(n.name, n)
            elif isinstance(n, ast.NamedExpr):
                targets(n.target, n)
            elif isinstance(n, (ast.FunctionDef, ast.AsyncFunctionDef, ast.ClassDef)):
                add(n.name, n)
            elif isinstance(n, (ast.Import, ast.ImportFrom)):
                for a in n.names:
                    add(a.asname or a.name.split(".")[0], n)
            elif isinstance(n, ast.comprehension):
                pass  # comprehension scopes are separate
    return out


def single_assign_env(fi: FuncInfo) -> Dict[str, ast.expr]:
    """name -> value expression, for locals bound exactly once by a plain `name = expr`."""
    sites = assigned_names(fi.node)
    params = set(fi.params)
    env = {}
    for n, ss in sites.items():
        if n in params or len(ss) != 1:
            continue
        s = ss[0]
        if isinstance(s, ast.Assign) and len(s.targets) == 1 and isinstance(s.targets[0], ast.Name):
            env[n] = s.value
        elif isinstance(s, ast.AnnAssign) and s.value is not None and isinstance(s.target, ast.Name):
            env[n] = s.value
    return env


class _Subst(ast.NodeTransformer):
    def __init__(self, env, depth):
        self.env = env
        self.depth = depth

    def visit_Name(self, node):
        if isinstance(node.ctx, ast.Load) and node.id in self.env and self.depth > 0:
            rep = copy.deepcopy(self.env[node.id])
            return _Subst({k: v for k, v in self.env.items() if k != node.id}, self.depth - 1).visit(rep)
        return node

    def visit_Lambda(self, node):
        return node


def inline(node: ast.AST, env: Optional[Dict[str, ast.expr]] = None, depth: int = 6) -> ast.AST:
    if not env:
        return node
    return _Subst(env, depth).visit(copy.deepcopy(node))


def canon(node: ast.AST, env: Optional[Dict[str, ast.expr]] = None) -> str:
    """Canonical text of an expression after inlining single-assignment locals."""
    return " ".join(ast.unparse(inline(node, env)).split())


_ERRNO_NAMES = None

_OS_CONSTS = {"os.sep": os.sep, "os.path.sep": os.sep, "os.pardir": os.pardir, "os.curdir": os.curdir, "os.extsep": "."}


class Folder:
    """Constant folder bound to a program; folds names, class attributes, f-strings,
    +, %, os.sep.join, os.path.join, tuples/lists/sets/dicts, simple str methods."""

    def __init__(self, prog: Program):
        self.prog = prog

    def fold(self, node: ast.AST, fi: Optional[FuncInfo] = None, module: Optional[Module] = None,
             env: Optional[Dict[str, ast.expr]] = None, _depth: int = 0):
        if node is None or _depth > 12:
            return UNKNOWN
        m = module or (fi.module if fi else None)
        F = lambda n: self.fold(n, fi, m, env, _depth + 1)  # noqa: E731
        if isinstance(node, ast.Constant):
            return node.value
        if isinstance(node, ast.Name):
            if env and node.id in env:
                env2 = {k: v for k, v in env.items() if k != node.id}
                return self.fold(env[node.id], fi, m, env2, _depth + 1)
            if node.id in ("True", "False", "None"):
                return {"True": True, "False": False, "None": None}[node.id]
            # enclosing function single-assignment env (closures)
            p = fi.parent if fi else None
            while p is not None:
                penv = single_assign_env(p)
                if node.id in penv:
                    return self.fold(penv[node.id], p, p.module, {k: v for k, v in penv.items() if k != node.id}, _depth + 1)
                if node.id in p.params:
                    return UNKNOWN
                p = p.parent
            if m is not None:
                return self._fold_module_name(m, node.id, _depth)
            return UNKNOWN
        if isinstance(node, ast.Attribute):
            d = dotted(node)
            if d in _OS_CONSTS:
                return _OS_CONSTS[d]
            if d and d.startswith("errno.") and m is not None and m.imports.get("errno", (None,))[0] == "errno":
                return d  # symbolic: 'errno.EEXIST'
            # self.ATTR / cls.ATTR / Class.ATTR
            if isinstance(node.value, ast.Name):
                base = node.value.id
                cq = None
                if base in ("self", "cls") and fi is not None:
                    c = fi.cls
                    p = fi
                    while c is None and p.parent is not None:
                        p = p.parent
                        c = p.cls
                    cq = c.qual if c else None
                elif m is not None:
                    cq = self.prog.resolve_class_name(m, base)
                if cq:
                    hit = self.prog.class_attr(cq, node.attr)
                    if hit:
                        ci, expr = hit
                        return self.fold(expr, None, ci.module, None, _depth + 1)
                # module alias . NAME
                if m is not None and base in m.imports:
                    mod, attr = m.imports[base]
                    target = mod if attr is None else f"{mod}.{attr}"
                    tm = self.prog.modules.get(target)
                    if tm is not None:
                        return self._fold_module_name(tm, node.attr, _depth)
            elif isinstance(node.value, ast.Attribute):
                # e.g. module.Class.ATTR
                d0 = dotted(node.value)
                if d0 and m is not None:
                    cq = self.prog.resolve_class_name(m, d0)
                    if cq:
                        hit = self.prog.class_attr(cq, node.attr)
                        if hit:
                            ci, expr = hit
                            return self.fold(expr, None, ci.module, None, _depth + 1)
            return UNKNOWN
        if isinstance(node, ast.JoinedStr):
            out = []
            for v in node.values:
                if isinstance(v, ast.Constant):
                    out.append(str(v.value))
                elif isinstance(v, ast.FormattedValue):
                    x = F(v.value)
                    if x is UNKNOWN or v.format_spec is not None or v.conversion != -1:
                        return UNKNOWN
                    out.append(str(x))
            return "".join(out)
        if isinstance(node, ast.BinOp):
            l, r = F(node.left), F(node.right)
            if l is UNKNOWN or r is UNKNOWN:
                return UNKNOWN
            try:
                if isinstance(node.op, ast.Add):
                    return l + r
                if isinstance(node.op, ast.Sub):
                    return l - r
                if isinstance(node.op, ast.Mult):
                    return l * r
                if isinstance(node.op, ast.Mod):
                    return l % r
            except Exception:
                return UNKNOWN
            return UNKNOWN
        if isinstance(node, ast.UnaryOp):
            v = F(node.operand)
            if v is UNKNOWN:
                return UNKNOWN
            try:
                if isinstance(node.op, ast.Not):
                    return not v
                if isinstance(node.op, ast.USub):
                    return -v
            except Exception:
                return UNKNOWN
            return UNKNOWN
        if isinstance(node, (ast.Tuple, ast.List, ast.Set)):
            vals = [F(e) for e in node.elts]
            if any(v is UNKNOWN for v in vals):
                return UNKNOWN
            try:
                return {ast.Tuple: tuple, ast.List: list, ast.Set: frozenset}[type(node)](vals)
            except TypeError:
                return UNKNOWN
        if isinstance(node, ast.Dict):
            out = {}
            for k, v in zip(node.keys, node.values):
                if k is None:
                    return UNKNOWN
                kk, vv = F(k), F(v)
                if kk is UNKNOWN or vv is UNKNOWN:
                    return UNKNOWN
                try:
                    out[kk] = vv
                except TypeError:
                    return UNKNOWN
            return out
        if isinstance(node, ast.Call):
            cn = call_name(node)
            if cn in ("os.path.join",) and not node.keywords:
                vals = [F(a) for a in node.args]
                if any(v is UNKNOWN or not isinstance(v, str) for v in vals):
                    return UNKNOWN
                return os.path.join(*vals)
            if isinstance(node.func, ast.Attribute) and node.func.attr == "join" and len(node.args) == 1:
                sep = F(node.func.value)
                seq = F(node.args[0])
                if isinstance(sep, str) and isinstance(seq, (tuple, list)) and all(isinstance(x, str) for x in seq):
                    return sep.join(seq)
                return UNKNOWN
            if cn in ("int", "str", "bool", "float", "tuple", "list", "frozenset", "set") and len(node.args) == 1 and not node.keywords:
                v = F(node.args[0])
                if v is UNKNOWN:
                    return UNKNOWN
                try:
                    return {"int": int, "str": str, "bool": bool, "float": float, "tuple": tuple, "list": list,
                            "frozenset": frozenset, "set": frozenset}[cn](v)
                except Exception:
                    return UNKNOWN
            if cn == "re.compile" and node.args:
                v = F(node.args[0])
                if isinstance(v, str):
                    fl = node.args[1] if len(node.args) > 1 else kwarg(node, "flags")
                    if fl is not None:
                        return ("re.compile", v, " ".join(ast.unparse(fl).split()))
                    return ("re.compile", v)
                return UNKNOWN
            return UNKNOWN
        if isinstance(node, ast.IfExp):
            t = F(node.test)
            if t is UNKNOWN:
                return UNKNOWN
            return F(node.body) if t else F(node.orelse)
        if isinstance(node, ast.Compare) and len(node.ops) == 1:
            l, r = F(node.left), F(node.comparators[0])
            if l is UNKNOWN or r is UNKNOWN:
                return UNKNOWN
            op = node.ops[0]
            try:
                if isinstance(op, ast.Eq):
                    return l == r
                if isinstance(op, ast.NotEq):
                    return l != r
                if isinstance(op, ast.In):
                    return l in r
                if isinstance(op, ast.NotIn):
                    return l not in r
                if isinstance(op, ast.Is):
                    return l is r
                if isinstance(op, ast.IsNot):
                    return l is not r
            except Exception:
                return UNKNOWN
        if isinstance(node, ast.Subscript):
            v = F(node.value)
            i = F(node.slice) if not isinstance(node.slice, ast.Slice) else UNKNOWN
            if v is UNKNOWN or i is UNKNOWN:
                return UNKNOWN
            try:
                return v[i]
            except Exception:
                return UNKNOWN
        return UNKNOWN

    def _fold_module_name(self, m: Module, name: str, _depth: int):
        if name in m.consts:
            return self.fold(m.consts[name], None, m, None, _depth + 1)
        if name in m.imports:
            mod, attr = m.imports[name]
            if attr is not None:
                tm = self.prog.modules.get(mod)
                if tm is not None and tm is not m:
                    return self._fold_module_name(tm, attr, _depth + 1)
        return UNKNOWN


def resolve_import_name(m: Module, text: Optional[str]) -> Optional[str]:
    """Map a dotted name used in module m to its fully qualified external name
    (e.g. 'copytree' -> 'shutil.copytree', 'ddict' -> 'collections.defaultdict')."""
    if not text:
        return None
    head, _, rest = text.partition(".")
    if head in m.imports:
        mod, attr = m.imports[head]
        base = mod if attr is None else f"{mod}.{attr}"
        return base + ("." + rest if rest else "")
    return text



def desugar_comprehension_assignments(fn_node):
    """Copy of a function definition in which `x = [E for ...]` / `{E for ...}` / `{K: V for ...}` (also `x = set(E for ...)`, `list(...)`, `dict(...)` of a
    generator) are written as the accumulating loops they abbreviate:  x = [] / set() / {};  for ...: if ...: x.append(E) / x.add(E) / x[K] = V.
    Used by rules that are phrased over loops, so that the comprehension spelling of the same code is decided by the same rule."""
    import copy as _copy
    fn = _copy.deepcopy(fn_node)

    def build(target_name, comp, at):
        if isinstance(comp, ast.ListComp):
            init, mk = ast.List(elts=[], ctx=ast.Load()), lambda: ast.Expr(value=ast.Call(func=ast.Attribute(value=ast.Name(id=target_name, ctx=ast.Load()), attr="append", ctx=ast.Load()), args=[comp.elt], keywords=[]))
        elif isinstance(comp, ast.SetComp):
            init, mk = ast.Call(func=ast.Name(id="set", ctx=ast.Load()), args=[], keywords=[]), lambda: ast.Expr(value=ast.Call(func=ast.Attribute(value=ast.Name(id=target_name, ctx=ast.Load()), attr="add", ctx=ast.Load()), args=[comp.elt], keywords=[]))
        else:
            init, mk = ast.Dict(keys=[], values=[]), lambda: ast.Assign(targets=[ast.Subscript(value=ast.Name(id=target_name, ctx=ast.Load()), slice=comp.key, ctx=ast.Store())], value=comp.value)
        inner = [mk()]
        for g in reversed(comp.generators):
            if g.is_async:
                return None
            for t in reversed(g.ifs):
                inner = [ast.If(test=t, body=inner, orelse=[])]
            it = g.iter
            inner = [ast.For(target=g.target, iter=it, body=inner, orelse=[], type_comment=None)]
        stmts = [ast.Assign(targets=[ast.Name(id=target_name, ctx=ast.Store())], value=init)] + inner
        for s2 in stmts:
            for x in ast.walk(s2):
                if not hasattr(x, "lineno"):
                    ast.copy_location(x, at)
            ast.fix_missing_locations(s2)
        return stmts

    def as_comp(v):
        if isinstance(v, (ast.ListComp, ast.SetComp, ast.DictComp)):
            return v
        if isinstance(v, ast.Call) and isinstance(v.func, ast.Name) and v.func.id in ("list", "set", "tuple", "frozenset") and len(v.args) == 1 and not v.keywords \
                and isinstance(v.args[0], ast.GeneratorExp):
            g = v.args[0]
            cls = ast.ListComp if v.func.id in ("list", "tuple") else ast.SetComp
            return ast.copy_location(cls(elt=g.elt, generators=g.generators), v)
        return None

    def block(stmts):
        out = []
        for st in stmts:
            if isinstance(st, (ast.FunctionDef, ast.AsyncFunctionDef, ast.ClassDef)):
                out.append(st)
                continue
            for fld in ("body", "orelse", "finalbody"):
                sub = getattr(st, fld, None)
                if isinstance(sub, list) and sub and isinstance(sub[0], ast.stmt):
                    setattr(st, fld, block(sub))
            for h in getattr(st, "handlers", []) or []:
                h.body = block(h.body)
            if isinstance(st, ast.Return) and st.value is not None and as_comp(st.value) is not None:
                new = build("_comp_result", as_comp(st.value), st)
                if new is not None:
                    out.extend(block_unnest(new))
                    out.append(ast.copy_location(ast.Return(value=ast.copy_location(ast.Name(id="_comp_result", ctx=ast.Load()), st)), st))
                    continue
            if isinstance(st, ast.Assign) and len(st.targets) == 1 and isinstance(st.targets[0], ast.Name):
                comp = as_comp(st.value)
                if comp is not None:
                    # a nested generator as first iterable: `for t in (f(p) for p in paths)` -> `for p in paths: t = f(p)`
                    new = build(st.targets[0].id, comp, st)
                    if new is not None:
                        out.extend(block_unnest(new))
                        continue
            out.append(st)
        return out

    def block_unnest(stmts):
        res = []
        for st in stmts:
            if isinstance(st, ast.For) and isinstance(st.iter, ast.GeneratorExp) and len(st.iter.generators) == 1 and not st.iter.generators[0].ifs and isinstance(st.target, ast.Name):
                g = st.iter.generators[0]
                bind = ast.copy_location(ast.Assign(targets=[ast.Name(id=st.target.id, ctx=ast.Store())], value=st.iter.elt), st)
                ast.fix_missing_locations(bind)
                st = ast.copy_location(ast.For(target=g.target, iter=g.iter, body=[bind] + block_unnest(st.body), orelse=[], type_comment=None), st)
            elif isinstance(st, (ast.For, ast.If)):
                st.body = block_unnest(st.body)
            res.append(st)
        return res

    fn.body = block(fn.body)
    return fn
