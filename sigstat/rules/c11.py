"""C11 - crashes and I/O errors in lifecycle operations never lose data or forge a job."""
import ast

from ..engine import rule, Ctx
from ..core import UNKNOWN, dotted, kwarg, body_nodes, inline, stmt_key, canon, walk_no_nested
from ..exc import ExcFacts
from . import common
from .c04 import c04_a, c04_b
from .c02 import c02_c

PROP = "C11"
FLOOR = 25
EXPLANATION = (
    "Decided (error discipline, not crash behaviour): (a) every exception handler in signac/job.py, signac/project.py and "
    "signac/_utility.py that can catch an OSError (OSError family, Exception, BaseException, bare) either re-raises / raises "
    "a mapped error on every path, lets only errno.ENOENT (or FileNotFoundError) pass silently, is a best-effort clean-up "
    "nested inside a handler that itself re-raises, or is one of the frozen, individually justified exceptions listed in "
    "C11_TABLE; no lifecycle code asks the standard library to drop errors (rmtree(ignore_errors=True), "
    "contextlib.suppress(OSError)); (b) the re-key rollback precedes every raise (C04-a) and init() validates after "
    "writing (C02-c); (c) Job.move maps ENOENT / destination-exists / EXDEV and re-raises everything else (C04-b)."
    ' (e) remove() attempts the deletion unconditionally (no existence probe in front of rmtree: a probe answers False for every failing stat).'
    ' (f) `signac move` does not fall back to copy-and-delete (C11-f); (g) the transfer step of an import deletes nothing (C11-g).'
    ' C11-a covers signac.sync and signac.import_export as well.'
)
UNDECIDED = ("What the workspace looks like after a process death at each file-system step, torn writes and double faults need "
             "execution under fault injection or a model and are not decided by this analysis.")

MODULES = ("signac.job", "signac.project", "signac._utility", "signac.sync", "signac.import_export")

# frozen table: function qual -> (headers it applies to or None for any, errno names that may pass silently or None, reason)
# Keyed by function, not by the spelling of the handler: `except Exception` split into `except OSError` + `except Exception`
# is the same discipline as long as the errno set that passes silently stays within what is justified.
C11_FUNCS = {
    "signac.job:_StatePointDict.save": (None, {"EEXIST", "EACCES"},
        "EEXIST/EACCES on the state point write pass through: the caller (Job.init) re-validates by loading the file afterwards (C02-c)"),
    "signac.job:Job.init": ({"except Exception"}, None,
        "the handler of the failed early-exit load performs the full initialisation and a validating load; its own errors propagate"),
    "signac.project:Project.repair": ({"except OSError", "except (KeyError, JobsCorruptedError)", "except Exception"}, None,
        "collect-and-report: the job id is appended to `corrupted`, which is raised as JobsCorruptedError at the end"),
}
C11_TABLE = {(q, h): r for q, (hs, _e, r) in C11_FUNCS.items() for h in (hs or {"*"})}
C11_ERRNOS = {q: e for q, (_h, e, _r) in C11_FUNCS.items() if e is not None}


def _frozen(fq, hdr_norm):
    ent = C11_FUNCS.get(fq)
    if ent is None:
        return None
    hs, errnos, reason = ent
    if hs is not None and hdr_norm not in hs:
        return None
    return errnos, reason


def _catches_oserror(ex, fi, h):
    types = ex.handler_type_names(fi, h)
    return ex.catches(types, "PermissionError") or ex.catches(types, "OSError")


def _silent_errnos(ctx, fi, h, ex):
    """Set of errno names under which the handler can complete without raising; None = unconstrained
    (some silent path carries no errno fact); empty set = always raises."""
    types = ex.handler_type_names(fi, h)
    if set(types) <= {"FileNotFoundError"}:
        return {"ENOENT"}
    cfg = ctx.cfg(fi)
    if common.reraises_on_all_paths(ctx, fi, h) is None:
        return set()
    inside = set()
    for st in h.body:
        for x in ast.walk(st):
            inside.update(cfg.ast_nodes.get(id(x), []))
    result = set()
    for hid in cfg.node_ids_for(h):
        stack = [(hid, [], frozenset())]
        seen = 0
        while stack and seen < 3000:
            n, facts, used = stack.pop()
            seen += 1
            for (b, k, ef) in cfg.succ[n]:
                if k != "n" or (n, b) in used:
                    continue
                f2 = facts + list(ef)
                if b in inside:
                    stack.append((b, f2, used | {(n, b)}))
                    continue
                names = None
                for (text, pol) in f2:
                    t = text.replace(" ", "")
                    if not pol:
                        continue
                    if ".errno==errno." in t:
                        names = {t.split(".errno==errno.", 1)[1]}
                    elif ".errnoin(" in t:
                        inner = t.split(".errnoin(", 1)[1].rstrip(")").strip(",")
                        parts = [x for x in inner.split(",") if x]
                        if all(x.startswith("errno.") for x in parts):
                            names = {x[len("errno."):] for x in parts}
                if names is None:
                    return None
                result |= names
    return result


def _only_enoent_silent(ctx, fi, h, ex):
    s = _silent_errnos(ctx, fi, h, ex)
    return s is not None and s <= {"ENOENT"}


@rule("C11-a")
def c11_a(ctx: Ctx):
    """No I/O error is dropped in the lifecycle modules (handler classification + call configuration)."""
    R = "C11-a"
    out = []
    ex = ExcFacts(ctx)
    n_h = 0
    for f in ctx.prog.funcs.values():
        if f.module.name not in MODULES:
            continue
        pm = ctx.parents(f)
        for n in body_nodes(f):
            if not isinstance(n, ast.ExceptHandler):
                continue
            n_h += 1
            if not _catches_oserror(ex, f, n):
                continue
            hdr = stmt_key(n).strip()
            hdr_norm = hdr.split(" as ")[0].strip()
            key = f"{f.qual}|{hdr_norm}"
            w = common.reraises_on_all_paths(ctx, f, n)
            if w is None:
                out.append(ctx.ok(R, f, n, "re-raises or raises a mapped error on every path", construct=key))
                continue
            if _only_enoent_silent(ctx, f, n, ex):
                out.append(ctx.ok(R, f, n, "only errno.ENOENT ('not there') passes silently; everything else is raised", construct=key))
                continue
            outer = [h for h in common.enclosing_handlers(ctx, f, n)]
            if outer and common.reraises_on_all_paths(ctx, f, outer[0]) is None:
                out.append(ctx.ok(R, f, n, "best-effort clean-up nested inside a handler that re-raises on every path", construct=key))
                continue
            fz = _frozen(f.qual, hdr_norm)
            if fz is not None:
                allowed, reason = fz
                silent = _silent_errnos(ctx, f, n, ex)
                nested = bool(outer)
                if allowed is None or nested or (silent is not None and silent <= allowed):
                    out.append(ctx.ok(R, f, n, "frozen exception: " + reason, construct=key))
                else:
                    out.append(ctx.viol(R, f, n, f"handler `{hdr}` passes silently for {sorted(silent) if silent is not None else 'any error'}; only "
                                        f"{sorted(allowed)} are justified here ({reason})", construct=key))
                continue
            out.append(ctx.viol(R, f, n, f"handler `{hdr}` can complete without raising for errors other than ENOENT: an I/O error (EIO, ENOSPC, EACCES, ...) "
                                "is dropped and the operation reports success", construct=key, witness=ctx.cfg(f).describe_path(w)))
        # error-dropping call configurations
        for c in body_nodes(f):
            if isinstance(c, ast.Call):
                e = common.ext_name(ctx, f, c)
                if e == "shutil.rmtree":
                    v = kwarg(c, "ignore_errors") or (c.args[1] if len(c.args) > 1 else None)
                    if v is not None and ctx.fold(v, f) is not False:
                        out.append(ctx.viol(R, f, c, "shutil.rmtree(..., ignore_errors=True): a failed removal is reported as success, leaving a partial job directory"))
                    elif kwarg(c, "onerror") is not None or kwarg(c, "onexc") is not None:
                        hk = kwarg(c, "onexc") or kwarg(c, "onerror")
                        hf = ctx.calls.resolve_name_to_func(f.module, hk.id, f) if isinstance(hk, ast.Name) else None
                        if hf is None or not hf.params:
                            out.append(ctx.inc(R, f, c, "shutil.rmtree with an error callback that cannot be resolved"))
                        else:
                            hcfg = ctx.cfg(hf)
                            p0 = hf.params[0]
                            retry = {n.id for n in hcfg.stmt_nodes() if n.kind == "stmt" and any(isinstance(x, ast.Call) and isinstance(x.func, ast.Name) and x.func.id == p0 for x in walk_no_nested(n.ast))}
                            w = hcfg.path(hcfg.entry, {hcfg.exit}, blocked=retry, kinds="n")
                            if w is None:
                                out.append(ctx.ok(R, hf, hf.node, f"the rmtree error hook {hf.name} retries the failed call (or raises) on every path: a persistent error still propagates"))
                            else:
                                out.append(ctx.viol(R, hf, hf.node, f"the rmtree error hook {hf.name} can return without retrying the failed call and without raising: the I/O error of that entry is "
                                                    "dropped, remove() / clear() report success and leave a half-deleted job directory", witness=hcfg.describe_path(w)))
                    else:
                        out.append(ctx.ok(R, f, c, "shutil.rmtree propagates errors"))
                elif e == "contextlib.suppress":
                    names = [dotted(a) or "" for a in c.args]
                    if any(x.split(".")[-1] in ("OSError", "Exception", "BaseException", "IOError", "PermissionError") for x in names):
                        out.append(ctx.viol(R, f, c, f"contextlib.suppress({', '.join(names)}) drops I/O errors"))
    if n_h < 20:
        out.append(ctx.inc(R, None, None, f"only {n_h} handlers found in the lifecycle modules (expected >= 20)", construct="handler-count"))
    return out


@rule("C11-b")
def c11_b(ctx: Ctx):
    """Rollback before raise in the re-key (C04-a) and validate-after-write in init (C02-c)."""
    out = []
    for r in c04_a(ctx) + c02_c(ctx):
        r.rule = "C11-b"
        out.append(r)
    return out


@rule("C11-c")
def c11_c(ctx: Ctx):
    """Errno mapping of the rename/copy sites incl. Job.move (C04-b) and move's not-initialised / cross-device mapping."""
    R = "C11-c"
    out = []
    for r in c04_b(ctx):
        if "errno-map" in r.construct or "reraise" in r.construct:
            r.rule = R
            out.append(r)
    fi = ctx.fn("signac.job:Job.move")
    for errname, what in (("ENOENT", "an uninitialised source"), ("EXDEV", "a cross-device move")):
        hit = None
        for n in body_nodes(fi):
            if isinstance(n, ast.Raise) and n.exc is not None:
                facts = common.facts_at(ctx, fi, n, "nx")
                if any(pol and t.replace(" ", "").endswith(f".errno==errno.{errname}") for (t, pol) in facts):
                    hit = n
        k = f"{fi.qual}|map:{errname}"
        if hit is not None:
            out.append(ctx.ok(R, fi, hit, f"{errname} ({what}) is reported by a dedicated error", construct=k))
        else:
            out.append(ctx.info(R, fi, fi.node, f"no dedicated error for {errname}", construct=k))
    return out


@rule("C11-d")
def c11_d(ctx: Ctx):
    """Detection path: check()/repair() read exactly the state point file (never a parked backup), so a job interrupted between the two renames of a re-key is reported (from C09-a)."""
    from .c09 import c09_a
    from .c09 import c09_b
    res = [r for r in c09_a(ctx) if "|reads" in r.construct or "error-mapping" in r.construct or "keyerror-guard" in r.construct] + [r for r in c09_b(ctx) if "extra-handler" in r.construct]
    for r in res:
        r.rule = "C11-d"
    return res


@rule("C11-e")
def c11_e(ctx: Ctx):
    """remove() / clear() attempt the deletion and let the operating system report what is wrong: the deleting primitive is not placed behind an
    existence probe (os.path.exists / isdir / `job in project` answer False for *every* failing stat - EIO, EACCES, ESTALE -, which would turn an I/O
    error into 'nothing to remove' and report success while the data is still there)."""
    R = "C11-e"
    out = []
    # the re-key decides "this job is not initialised, nothing to move" from the ENOENT of the rename itself, never from a probe of the state point file
    sv = ctx.fn("signac.job:_StatePointDict._save")
    for e in [x for x in ctx.effects.direct(sv) if x.kind == "rename"]:
        facts = common.expand_facts(ctx, sv, common.facts_at(ctx, sv, e.node, "n"))
        gate = [(t, pol) for (t, pol) in facts if pol and any(x in t for x in ("os.path.exists(", "os.path.isdir(", "os.path.lexists(", "os.path.isfile(", ".isfile(", "_contains_job_id("))]
        k = f"{sv.qual}|rename-unconditional|{canon(e.node)[:40]}"
        if gate:
            out.append(ctx.viol(R, sv, e.node, f"the migration of the job directory ({e.prim}) runs only under the existence probe {gate[0][0]!r}: a stat that fails with EACCES / EIO makes an "
                                "initialised job look uninitialised, the re-key then happens in memory only - no exception, the data stays under the old id and check() reports nothing",
                                construct=k))
        else:
            out.append(ctx.ok(R, sv, e.node, f"{e.prim} of the re-key is attempted unconditionally (ENOENT of the rename means 'not initialised')", construct=k))
    for q in ("signac.job:Job.remove", "signac.job:Job.clear"):
        f = ctx.fn(q)
        dels = [e for e in ctx.effects.direct(f) if e.kind == "delete"]
        if not dels:
            out.append(ctx.inc(R, f, f.node, "no deleting primitive found", construct=q + "|delete-unconditional"))
            continue
        for e in dels:
            facts = common.expand_facts(ctx, f, common.facts_at(ctx, f, e.node, "n"))
            gate = [(t, pol) for (t, pol) in facts if pol and (
                any(x in t for x in ("os.path.exists(", "os.path.isdir(", "os.path.lexists(", "os.path.isfile(", ".isfile(", "_contains_job_id(")) or
                t.replace(" ", "").startswith("selfin") or "in self._project" in t)]
            k = f"{q}|delete-unconditional|{e.prim}"
            if gate and q == "signac.job:Job.remove":
                out.append(ctx.viol(R, f, e.node, f"{e.prim} runs only under the existence probe {gate[0][0]!r}: the probe answers False for every error of the underlying stat, not only for "
                                    "'does not exist', so on a failing file system remove() returns normally, forgets the directory, and the job's data is still on disk", construct=k))
            elif gate:
                out.append(ctx.info(R, f, e.node, f"{e.prim} under {gate[0][0]!r}", construct=k))
            else:
                out.append(ctx.ok(R, f, e.node, f"{e.prim} is attempted unconditionally; only ENOENT is tolerated by the handler (C11-a)", construct=k))
    return out


@rule("C11-f")
def c11_f(ctx: Ctx):
    """signac move is Job.move and nothing else (no multi-step fall-back that a fault leaves half done)."""
    from . import cli
    return cli.move_delegates(ctx, "C11-f")


@rule("C11-g")
def c11_g(ctx: Ctx):
    """The transfer step of an import never deletes what it transferred: with a moving import (copytree=os.replace / shutil.move) the destination is the only copy,
    and a failed init() afterwards leaves a directory that check() reports - not a deleted one."""
    R = "C11-g"
    f = ctx.prog.funcs.get("signac.import_export:_copy_to_job_workspace")
    k = "signac.import_export:_copy_to_job_workspace|no-delete"
    if f is None:
        return [ctx.inc(R, None, None, "_copy_to_job_workspace not found", construct=k)]
    dels = [e for e in ctx.effects.direct(f) if e.kind == "delete"]
    if dels:
        return [ctx.viol(R, f, dels[0].node, f"{dels[0].prim} in _copy_to_job_workspace: when the data was *moved* into the job directory this deletes its only copy", construct=k)]
    return [ctx.ok(R, f, f.node, "the transfer step deletes nothing", construct=k)]

RULES = [c11_a, c11_b, c11_c, c11_d, c11_e, c11_f, c11_g]
