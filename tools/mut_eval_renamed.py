#!/venv/bin/python
"""Kill matrix under alpha-renaming: apply each seeded change, then rename every plain local variable of the whole package
(tools/auto_benign.py rename-locals) and require that every property that detects the change still detects it.
usage: mut_eval_renamed.py [MUTANT-ID-PREFIX ...]"""
import os, sys, json, subprocess, shutil, tempfile, importlib.util
from concurrent.futures import ThreadPoolExecutor
VERIF = os.path.dirname(os.path.dirname(os.path.abspath(__file__)))
sys.path.insert(0, VERIF)
from sigstat import selftest as st
sys.argv, _argv = [sys.argv[0], "none"], sys.argv
spec = importlib.util.spec_from_loader("auto_benign", loader=None)
from sigstat import transforms as _tr
ab = {"__file__": os.path.join(VERIF, "tools", "auto_benign.py"), "__name__": "auto_benign"}
ab["transform"] = _tr.transform
expected = json.load(open(os.path.join(st.SEEDED, "expected.json")))
sel = _argv[1:]

def one(mid):
    props = expected[mid]
    tmp = st._scratch("/repo")
    try:
        r = subprocess.run(["patch", "-p1", "-s", "-f", "-i", os.path.join(st.SEEDED, mid, "patch.diff")], cwd=tmp, capture_output=True, text=True)
        if r.returncode != 0:
            return mid, "stale", {}
        try:
            ab["transform"]("rename-locals", os.path.join(tmp, "signac"))
        except Exception as e:
            return mid, f"transform failed: {e}", {}
        res = {}
        det = {}
        for p in props:
            code, lines = st._run_check(p, tmp)
            res[p] = code
            det[p] = lines
        return mid, "ok", (res, det)
    finally:
        shutil.rmtree(tmp, ignore_errors=True)

mids = sorted(m for m in expected if expected[m] and (not sel or any(m.startswith(s) for s in sel)))
lost = 0
with ThreadPoolExecutor(14) as ex:
    for mid, status, res in ex.map(one, mids):
        if status != "ok":
            print(mid, status); continue
        res, det = res
        miss = [p for p, c in res.items() if c != 1]
        if miss:
            lost += 1
            print(f"{mid:12s} no longer detected after renaming by {miss} (codes {[res[p] for p in miss]}); still by {[p for p,c in res.items() if c==1]}")
            for p in miss:
                for l in det.get(p, [])[:3]:
                    print("      ", p, l[:300])
print(f"{len(mids)} seeded changes re-checked under renaming; {lost} with a lost detection")
