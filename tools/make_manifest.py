#!/venv/bin/python
import json, os, sys, importlib
VERIF = os.path.dirname(os.path.dirname(os.path.abspath(__file__)))
sys.path.insert(0, VERIF)
props = [json.loads(l) for l in open(os.path.join(VERIF, 'properties.jsonl'))]
TECH = {
 "C01": "AST def-use chain of calc_id + constant folding of json.dumps options; who-computes scan; CFG must-pass guard for id re-derivation; deep-copy flow at open_job; handle-id origin (every id given to a Job handle derives from calc_id or a validated lookup); partial-bound validate flag as call configuration; schema-import consistency check compared as values",
 "C02": "call-graph effect containment for open_job; CFG path facts for save-if-absent and validate-after-write in init; full-id existence test before reuse of an id prefix (len range facts); who may assert _directory_known (existence established by CFG facts); CLI failure kinds by exception type",
 "C03": "regex-anchoring analysis (re._parser) of the listing filter; field-pairing (lazy fields reset) on CFG; temp-file create/consume pairing on CFG; listing loop yields every accepted entry exactly once; deletions applied to paths as listed (no link resolution); schema-import consistency check",
 "C04": "CFG must-pass rollback-before-raise; errno-table extraction at 4 sibling sites; path facts for the update_statepoint pre-check; id/cached-field pairing; wipe-only destination is a violation; resolved-callee identity for the move primitive; typed re-raise edges (class oracle) for the roll-back must-pass; CLI move delegates to Job.move",
 "C05": "constant folding of document constructor configuration and file-name agreement across sibling users; CFG ordering in getters / remove(); document registry always reset on re-key; document handle dropped on every continuation after rmtree (path search over n+x edges with edge facts); migrations never reset the document",
 "C06": "table agreement between sibling operator tables; exhaustiveness of operator dispatch; abstract evaluation of typed-key normalisation; def-use of the document-index decision; exhaustive scan of the filter (no early exit of the conjunction); late-binding lint; every-job-yielded rule over the desugared comprehension view; pairwise-zip lint on the simple filter syntax",
 "C07": "fact-guarded return analysis of JobsCursor; namespace-split lint (component vs text prefix); shape analysis of groupby filter construction; CFG order in _cast; JSON gating and tokenisation (shlex) in the CLI filter parser helper closure; pre-filter keyed by the keys as given (transitive reaching definitions); CLI selection told from none by identity; int-before-float in whichever function casts the token",
 "C08": "who-may-enumerate scan of _sp_cache; reaching-definition / must-precede (stale snapshot) analysis in update_cache; guard facts of reconcile steps; operator-precedence lint at the staleness test; sequence-argument lint",
 "C09": "CFG sanitiser rule (hash guard between read and use); who-may-read-unvalidated; may-raise sets vs handlers in the repair loop; effect containment of repair; reader default-content rule; desugared comprehension view for the repair loop; all/any(map()) as short-circuiting loops; partial-bound validate flag",
 "C10": "constant folding of write_concern; CFG ordering write->close->os.replace in dependency and update_cache; who-may-write scan for document/cache file names; a rename onto the cache file installs only a temporary written in the same function; migration renames only",
 "C11": "exception-handler classification (re-raise / ENOENT-only / nested clean-up / frozen table) with errno facts from the CFG; error-dropping call configurations; typed raise edges for builtin exceptions; probe-free re-key rule; CLI move delegates; import transfer step deletes nothing; handler classification also over signac.sync / signac.import_export",
 "C12": "call-configuration of reachable mkdirs; who-may-write the state point file; scan for disable_multithreading; reuse of C02/C10 path rules; abstract error-kind evaluation of guard clauses (which errno reaches which raise); contention errno tolerated (abstract error kinds through nested try statements); clone attempted then handled (no existence probe)",
 "C13": "argument-role (source/destination) analysis via reaching definitions; CFG path facts for exclude list completion; delete-primitive ownership table; role-based exclude-list completion; closure late-binding lint; CLI selection not computed in the destination, empty selection by identity",
 "C14": "must-facts at copy / overwrite sites (strategy consulted); path enumeration in ByKey; recursion accumulator def-use; handler breadth + restore order in backup context managers; gate by CFG facts (--key non-empty, max() ties); bulk shallow-update lint; dependency tightening; self-recursive helper of ByKey followed; Project.clone cannot receive dirs_exist_ok; CLI strategy origin and anchored key pattern; wrapper pass-through",
 "C15": "guard dominance (dry_run must-facts) for every mutating primitive in the proxies; alias-escape rule for _DocProxy; option-forwarding def-use; arity check of all resolved internal calls; derived-name option forwarding; propositional entailment of the fast-path guard; CLI option forwarding table (exclude, deep, dry_run, recursive, parallel) and selection discipline; comparator class found wherever it lives",
 "C16": "CFG must-pass-through (uniqueness check before copy); order-independence shape rule; path-prefix component-awareness lint; raise-before-yield reachability in import analysers; table agreement; doubled-separator and one-level tar nesting rules; accepted-type table; sentinel by role; one-shot iterator lint; extraction directory outside the workspace; consistency check compared as values; links-followed rule for export tree copies",
 "C17": "validate-before-mutate CFG ordering; selection-bypass def-use; walk-pruning and update-condition shape rules for the view analysis; separator coverage, dead-branch and tokenisation rules for the view path builder; both os.walk name lists read; view analysis in _analyze_view or _update_view; CLI view with empty selection",
 "C18": "abstract evaluation of typed index keys; constant folding / namespace barrier check; guard facts of exclude_const; set-algebra shape + None-conflation lint in diff_jobs; index builder iterates the listing; desugared comprehension view; CLI schema / diff selection discipline and exclude_const forwarding",
 "C19": "call-graph effect containment on init_project's success path; regex API + argument shape rules in get_job; no-symlink-resolution scan of discovery functions; guard-clause form of init_project; exists-before-search in discovery; only init / migrate create directories in the CLI; CLI PROJECT argument forwarded as given",
 "C20": "CFG must-precede of the version gate; path facts of the compatibility check; exception-hierarchy facts; registry completeness by constant folding; raise-after-mutation reachability in migrations; CFG loader exhaustion and version bump ordering; workspace directory rule; the loop moving legacy files does not stop at the first missing one",
}
checks = []
for p in props:
    pid = p['id']
    mod = importlib.import_module(f"sigstat.rules.{pid.lower()}")
    checks.append({
        "property_id": pid,
        "quick_cmd": f"./check {pid} --tier quick",
        "thorough_cmd": f"./check {pid} --tier thorough",
        "evidence_file": f"/verif/evidence/{pid}.json",
        "replay_cmd_template": "./check --explain {path}",
        "engine": "sigstat",
        "level_claimed": {"category": "other",
                          "text": ("Static analysis of the current source tree: structural necessary conditions of the property are decided on every path of the "
                                   "anchored functions and at every call site of the anchored APIs (what exactly: " + mod.EXPLANATION[:600] + " ...). "
                                   "A pass means no structural violation of these enumerated conditions; it is not a proof of the behavioural for-all statement. "
                                   "Not decided: " + getattr(mod, 'UNDECIDED', '')),
                          "design_ref": f"DESIGN.md section 4, {pid}"},
        "level_note": "Trusted: semantics of the Python standard library, configobj and synced_collections (only two of its functions are analysed, for C10/C12); "
                      "receiver types from the frozen table in sigstat/calls.py; implicit exceptions modelled only inside try blocks. "
                      "Thorough = quick analysis plus the checker self-test (seeded mutants must fire, benign variants must stay silent).",
        "technique": TECH[pid],
    })
m = {
 "version": 1,
 "setup_cmd": "true",
 "hooks": {"guard": "SIGNAC_VERIF", "enable": "not needed: the checks parse /repo's sources and never build or import them; there are no hooks in /repo",
           "baseline_off_cmd": "cd /repo && /venv/bin/python -m pytest -ra -q -p no:cacheprovider --timeout=900 --continue-on-collection-errors",
           "source_commits": [], "add_only": True},
 "engines": [{"name": "sigstat", "path": "/verif/sigstat", "serves_properties": [p['id'] for p in props],
              "kind_free_text": "repository-specific static analyser (stdlib ast only): load-time normalisation (pathlib -> os.path; expansion of helpers that are not in the baseline function inventory; reference functions behind a rename / move / method->function / new signature / inlining restored by unification with their stored reference source, edited successors analysed under the reference name; equivalent spellings folded), resolved program model, constant folder, statement CFG with condition facts (propositional entailment, infeasible-path pruning) and exception edges, "
                                "call resolution with receiver typing, file-system effect summaries, exception may-raise sets; rules per property in sigstat/rules/"}],
 "checks": checks,
 "not_applicable": [],
 "notes": "Family: static analysis. Every property has a claimed structural part and a stated undecided (behavioural) remainder - see evidence.coverage.undecided and DESIGN.md section 7. "
          "Exit codes: 0 held / 1 VIOLATION / 2 ANALYSIS-ERROR (anchor vanished, unknown shape or self-test failure; never reported as a violation). "
          "Known findings (genuine defects recorded, not repaired) are in known_findings.json; seeded breaking changes and benign variants used by the self-test are in seeded/.",
}
json.dump(m, open(os.path.join(VERIF, 'MANIFEST.json'), 'w'), indent=1)
print('MANIFEST.json written with', len(checks), 'checks')
