#!/venv/bin/python
"""Run every property check on every seeded mutant and freeze which properties detect which mutant (seeded/expected.json).
Also runs every check on every benign variant and reports any that is not silent."""
import os, sys, json, glob, subprocess, shutil, tempfile
from concurrent.futures import ThreadPoolExecutor
VERIF = os.path.dirname(os.path.dirname(os.path.abspath(__file__)))
sys.path.insert(0, VERIF)
from sigstat import selftest as st
PROPS = [f"C{i:02d}" for i in range(1, 21)]
def mut(mid):
    patch = os.path.join(st.SEEDED, mid, 'patch.diff')
    tmp = st._scratch('/repo')
    try:
        r = subprocess.run(['patch', '-p1', '-s', '-f', '-i', patch], cwd=tmp, capture_output=True, text=True)
        if r.returncode != 0: return mid, None
        out = {}
        for p in PROPS:
            code, lines = st._run_check(p, tmp)
            out[p] = code
        return mid, out
    finally:
        shutil.rmtree(tmp, ignore_errors=True)
def ben(path):
    var = json.load(open(path)); tmp = st._scratch('/repo')
    try:
        for e in var['edits']:
            p = os.path.join(tmp, e['file']); s = open(p).read()
            if s.count(e['old']) != 1: return var['id'], None
            open(p, 'w').write(s.replace(e['old'], e['new']))
        out = {}
        for p in PROPS:
            code, lines = st._run_check(p, tmp)
            if code != 0: out[p] = (code, lines[:2])
        return var['id'], out
    finally:
        shutil.rmtree(tmp, ignore_errors=True)
mids = sorted(d for d in os.listdir(st.SEEDED) if os.path.isfile(os.path.join(st.SEEDED, d, 'patch.diff')))
bens = sorted(glob.glob(os.path.join(st.SEEDED, 'benign', '*.json')))
with ThreadPoolExecutor(14) as ex:
    rm = list(ex.map(mut, mids)); rb = list(ex.map(ben, bens))
expected = {}
for mid, out in rm:
    if out is None: print('STALE', mid); continue
    det = [p for p, c in out.items() if c == 1]
    inc = [p for p, c in out.items() if c == 2]
    expected[mid] = det
    own = mid.split('-')[0]
    flag = '' if (not own.startswith('C') or own in det) else '  <-- not detected by own property'
    print(f'{mid:12s} detected_by={det} inconclusive={inc}{flag}')
bad = 0
for bid, out in rb:
    if out is None: print('STALE benign', bid); continue
    if out:
        bad += 1
        print(f'BENIGN-NOT-SILENT {bid}: {out}')
print(f'{len(expected)} mutants, {sum(1 for v in expected.values() if v)} detected; {len(rb)} benign, {bad} not silent')
if '--write' in sys.argv:
    json.dump(expected, open(os.path.join(st.SEEDED, 'expected.json'), 'w'), indent=1, sort_keys=True)
    print('expected.json written')
