"""Generic bug-pattern rules (Engler-style belief checks), parameterised by the functions a property is anchored in.

Each returns a list of Results under the rule id it is given.  All of them report a VIOLATION only for a positive
pattern; absence of the pattern is an OK instance per examined function."""
import ast

from ..core import dotted, kwarg, body_nodes, inline, stmt_key, canon, walk_no_nested, names_in, resolve_import_name
from ..cfg import cond_atoms
from . import common

LOGGING_CALLS = ("logger.", "logging.", "print(", "_print_err(", "warnings.warn(")


def _logging_only(stmts):
    """The statement list only logs / prints (no effect on results)."""
    for st in stmts:
        if isinstance(st, ast.Expr) and isinstance(st.value, ast.Call) and canon(st.value).startswith(LOGGING_CALLS):
            continue
        if isinstance(st, ast.Pass):
            continue
        if isinstance(st, ast.If) and _logging_only(st.body) and _logging_only(st.orelse):
            continue
        return False
    return True


def sentinel_discipline(ctx, R, table):
    """For (function, expression) pairs where None is the 'not given' sentinel and an empty value is meaningful
    (empty selection, empty state point, default 0): every decision on the expression must be an identity test with None.
    A truthiness test conflates the empty value with 'not given'."""
    out = []
    for (q, expr, why) in table:
        fi = ctx.prog.funcs.get(q)
        if fi is None:
            out.append(ctx.inc(R, None, None, f"function {q} not found", construct=f"{q}|sentinel:{expr}"))
            continue
        bad = []
        n_tests = 0
        tests = []
        for n in body_nodes(fi):
            if isinstance(n, (ast.If, ast.While)):
                tests.append((n.test, n, n.body, n.orelse))
            elif isinstance(n, ast.IfExp):
                tests.append((n.test, n, None, None))
            elif isinstance(n, ast.BoolOp) and isinstance(n.op, ast.Or):
                # `X or default` coalescing
                if canon(n.values[0]) == expr:
                    bad.append((n, f"`{canon(n)[:50]}` replaces an empty value like a missing one"))
            elif isinstance(n, ast.comprehension):
                for c in n.ifs:
                    tests.append((c, c, None, None))
        for (t, node, body, orelse) in tests:
            for (text, pol) in cond_atoms(t, True):
                if text == expr:
                    # pure truthiness of the sentinel-valued expression
                    if body is not None and _logging_only(body) and _logging_only(orelse or []):
                        continue
                    bad.append((node, f"truthiness test `{canon(t)[:50]}`"))
                elif text == f"{expr} is None":
                    n_tests += 1
                elif text.startswith("not ") and text[4:] == expr:
                    bad.append((node, f"truthiness test `{canon(t)[:50]}`"))
                elif isinstance(t, ast.BoolOp):
                    pass
            # conditions kept whole (a or b as a positive atom): look inside
            for sub in ast.walk(t):
                if isinstance(sub, ast.BoolOp):
                    for v in sub.values:
                        vv = v.operand if isinstance(v, ast.UnaryOp) and isinstance(v.op, ast.Not) else v
                        if canon(vv) == expr and not any(b[0] is node for b in bad):
                            if body is not None and _logging_only(body) and _logging_only(orelse or []):
                                continue
                            bad.append((node, f"truthiness test `{canon(t)[:50]}`"))
        k = f"{q}|sentinel:{expr}"
        if bad:
            node, what = bad[0]
            out.append(ctx.viol(R, fi, node, f"{what} on `{expr}`: {why}", construct=k))
        elif n_tests:
            out.append(ctx.ok(R, fi, fi.node, f"`{expr}` is only ever compared with None by identity ({n_tests} test(s)): an empty value is not mistaken for 'not given'", construct=k))
        else:
            out.append(ctx.ok(R, fi, fi.node, f"no truthiness decision on `{expr}`", construct=k, nontrivial=False))
    return out


def no_memoisation(ctx, R, quals, why):
    """The given functions (whose answers depend on the file system or on mutable arguments) are not memoised:
    no functools cache decorator, no store into a module-level or class-level container."""
    out = []
    for q in quals:
        fi = ctx.prog.funcs.get(q)
        if fi is None:
            out.append(ctx.inc(R, None, None, f"function {q} not found", construct=f"{q}|memo"))
            continue
        k = f"{q}|memo"
        dec = [d for d in fi.decorators if any(x in d for x in ("lru_cache", "functools.cache", "cache(", "cached_property")) or d == "cache"]
        if dec:
            out.append(ctx.viol(R, fi, fi.node, f"{fi.name} is memoised (@{dec[0]}): {why}", construct=k))
            continue
        # calls of memoised helpers
        hit = None
        for (n, tg, ext) in ctx.calls.callees(fi):
            for t in tg:
                if any(x in d for d in t.decorators for x in ("lru_cache", "functools.cache")) or "cache" in t.decorators:
                    hit = (n, t)
        if hit:
            out.append(ctx.viol(R, fi, hit[0], f"{fi.name} answers through the memoised helper {hit[1].name}: {why}", construct=k))
            continue
        # stores into module-level containers
        mod_names = set(fi.module.consts) | {st.targets[0].id for st in fi.module.tree.body if isinstance(st, ast.Assign) and len(st.targets) == 1 and isinstance(st.targets[0], ast.Name)}
        local = set(fi.params)
        from ..core import assigned_names
        local |= set(assigned_names(fi.node))
        st_hit = None
        for n in body_nodes(fi):
            tgt = None
            if isinstance(n, (ast.Assign, ast.AugAssign)):
                for t in (n.targets if isinstance(n, ast.Assign) else [n.target]):
                    if isinstance(t, ast.Subscript) and isinstance(t.value, ast.Name):
                        tgt = t.value.id
            elif isinstance(n, ast.Call) and isinstance(n.func, ast.Attribute) and isinstance(n.func.value, ast.Name) and n.func.attr in ("setdefault", "update", "add", "append"):
                tgt = n.func.value.id
            if tgt and tgt in mod_names and tgt not in local:
                st_hit = (n, tgt)
        if st_hit:
            out.append(ctx.viol(R, fi, st_hit[0], f"{fi.name} stores results in the module-level container `{st_hit[1]}`: {why}", construct=k))
        else:
            out.append(ctx.ok(R, fi, fi.node, f"{fi.name} is not memoised", construct=k, nontrivial=False))
    return out


def groupby_sorted(ctx, R, modules):
    """itertools.groupby only merges *adjacent* equal keys: its input must be sorted by the same key."""
    out = []
    for fi in ctx.prog.funcs.values():
        if fi.module.name not in modules:
            continue
        for n in body_nodes(fi):
            if not (isinstance(n, ast.Call) and resolve_import_name(fi.module, dotted(n.func) or "") == "itertools.groupby"):
                continue
            it = n.args[0] if n.args else None
            key = kwarg(n, "key") or (n.args[1] if len(n.args) > 1 else None)
            if isinstance(it, ast.Call) and isinstance(it.func, ast.Name) and it.func.id == "sorted":
                src = it
            else:
                src = common.inline(it, ctx.env(fi), depth=1) if it is not None else None
            ok = False
            if isinstance(src, ast.Call) and isinstance(src.func, ast.Name) and src.func.id == "sorted":
                k2 = kwarg(src, "key")
                ok = (key is None and k2 is None) or (key is not None and k2 is not None and canon(key) == canon(k2))
            if ok:
                out.append(ctx.ok(R, fi, n, "groupby input is sorted by the grouping key"))
            else:
                out.append(ctx.viol(R, fi, n, f"itertools.groupby({canon(it)[:30] if it is not None else ''}, ...) is applied to input that is not sorted by the same key: equal keys that are not adjacent "
                                    "form separate groups (and later groups overwrite earlier ones when collected into a mapping)"))
    return out


def no_nesting_move(ctx, R, quals):
    """shutil.move onto an existing directory moves the source *inside* it instead of failing: it must not create job directories."""
    out = []
    for q in quals:
        fi = ctx.prog.funcs.get(q)
        if fi is None:
            continue
        hits = []
        for n in body_nodes(fi):
            if isinstance(n, (ast.Name, ast.Attribute)) and resolve_import_name(fi.module, dotted(n) or "") in ("shutil.move", "os.renames"):
                hits.append(n)
        k = f"{q}|shutil.move"
        if hits:
            out.append(ctx.viol(R, fi, hits[0], f"{fi.qual.split(':')[-1]} uses {canon(hits[0])} to place a job directory: if the destination exists the source is nested inside it instead of "
                                "raising, so an existing job is silently modified and no DestinationExistsError is raised", construct=k))
        else:
            out.append(ctx.ok(R, fi, fi.node, "job directories are placed with a primitive that fails on an existing destination", construct=k, nontrivial=False))
    return out


def inplace_on_alias(ctx, R, quals, producer_attrs, why):
    """Sets obtained from index look-ups / other evaluators may be shared: they must not be mutated in place."""
    out = []
    fresh_calls = ("set", "frozenset", "list", "dict", "sorted")
    for q in quals:
        fi = ctx.prog.funcs.get(q)
        if fi is None:
            continue
        cfg = ctx.cfg(fi)
        bad = None
        n_mut = 0
        for n in body_nodes(fi):
            var = None
            if isinstance(n, ast.AugAssign) and isinstance(n.target, ast.Name) and isinstance(n.op, (ast.BitOr, ast.BitAnd, ast.Sub, ast.BitXor)):
                var = n.target.id
            elif isinstance(n, ast.Call) and isinstance(n.func, ast.Attribute) and isinstance(n.func.value, ast.Name) \
                    and n.func.attr in ("update", "intersection_update", "difference_update", "add", "discard", "remove", "clear", "symmetric_difference_update"):
                var = n.func.value.id
            if var is None:
                continue
            n_mut += 1
            # all assignments to var in the function
            defs = [a.value for a in body_nodes(fi) if isinstance(a, ast.Assign) and any(isinstance(t, ast.Name) and t.id == var for t in a.targets)]
            for d in defs:
                aliasing = False
                if isinstance(d, ast.Call):
                    if isinstance(d.func, ast.Name) and d.func.id in fresh_calls:
                        continue
                    if isinstance(d.func, ast.Attribute) and d.func.attr in ("union", "intersection", "difference", "copy", "symmetric_difference"):
                        continue
                    if isinstance(d.func, ast.Attribute) and d.func.attr in producer_attrs:
                        aliasing = True
                elif isinstance(d, (ast.Subscript, ast.Name, ast.Attribute)):
                    aliasing = not (isinstance(d, ast.Name) and d.id in ("None",))
                elif isinstance(d, (ast.Set, ast.SetComp, ast.List, ast.ListComp, ast.Dict, ast.Constant)):
                    continue
                if aliasing:
                    bad = (n, var, d)
        k = f"{q}|inplace-alias"
        if bad:
            n, var, d = bad
            out.append(ctx.viol(R, fi, n, f"`{stmt_key(n, 40)}` mutates `{var}` in place, but `{var}` may be bound to `{canon(d)[:40]}`, a set owned by someone else: {why}", construct=k))
        else:
            out.append(ctx.ok(R, fi, fi.node, f"{n_mut} in-place set operation(s), all on locally created sets", construct=k, nontrivial=n_mut > 0))
    return out


def coalesce_to_none(ctx, R, quals, why):
    """`<selection> or None` turns an empty selection into 'no selection'."""
    out = []
    for q in quals:
        fi = ctx.prog.funcs.get(q)
        if fi is None:
            out.append(ctx.inc(R, None, None, f"function {q} not found", construct=f"{q}|or-none"))
            continue
        hit = None
        for n in body_nodes(fi):
            if isinstance(n, ast.BoolOp) and isinstance(n.op, ast.Or) and isinstance(n.values[-1], ast.Constant) and n.values[-1].value is None \
                    and isinstance(n.values[0], (ast.Call, ast.Name, ast.Attribute)):
                # only a computed *selection of jobs* must stay empty when it is empty; an empty filter ({} / []) legitimately means 'no filter'
                src = common.inline_at(ctx, fi, n.values[0], n)
                sel = False
                for c in ast.walk(src):
                    if isinstance(c, ast.Call):
                        tq = common.targets_of(ctx, fi, c)
                        nm = c.func.attr if isinstance(c.func, ast.Attribute) else (c.func.id if isinstance(c.func, ast.Name) else "")
                        if any(t.endswith(("._find_job_ids", ".find_jobs", ":_find_with_filter", ":_find_with_filter_or_none")) for t in tq) or nm in ("_find_job_ids", "find_jobs", "_find_with_filter"):
                            sel = True
                if sel:
                    hit = n
        k = f"{q}|or-none"
        if hit is not None:
            out.append(ctx.viol(R, fi, hit, f"`{canon(hit)[:60]}`: {why}", construct=k))
        else:
            out.append(ctx.ok(R, fi, fi.node, "a computed selection is passed on unchanged (an empty one stays empty)", construct=k, nontrivial=False))
    return out


def no_memoisation_modules(ctx, R, modules, why):
    """Aggregated form of no_memoisation over all functions of the given modules."""
    quals = [f.qual for f in ctx.prog.funcs.values() if f.module.name in modules]
    res = no_memoisation(ctx, R, quals, why)
    bad = [r for r in res if r.status != "OK"]
    if bad:
        return bad
    return [ctx.ok(R, None, None, f"{len(quals)} functions of {', '.join(sorted(modules))}: none is memoised and none stores results in module-level containers",
                   construct="memo|" + ",".join(sorted(modules)))]


def nested_builder(ctx, R, q="signac._utility:_dotted_dict_to_nested_dicts"):
    """The dotted-key -> nested-dict helper merges into existing sub-mappings, keeps every value (None included) and never stores a
    recursively built sub-mapping wholesale (which would overwrite siblings under a common prefix)."""
    out = []
    fi = ctx.prog.funcs.get(q)
    if fi is None:
        return [ctx.inc(R, None, None, f"{q} not found", construct=q + "|shape")]
    desc = [c for c in body_nodes(fi) if isinstance(c, ast.Call) and isinstance(c.func, ast.Attribute) and c.func.attr == "setdefault"]
    rec_store = []
    for n in body_nodes(fi):
        if isinstance(n, ast.Assign) and isinstance(n.value, ast.Call) and q in common.targets_of(ctx, fi, n.value) and any(isinstance(t, ast.Subscript) for t in n.targets):
            rec_store.append(n)
        if isinstance(n, ast.Call) and isinstance(n.func, ast.Attribute) and n.func.attr == "update" and n.args \
                and any(isinstance(x, ast.Call) and q in common.targets_of(ctx, fi, x) for x in ast.walk(n.args[0])):
            rec_store.append(n)
        if isinstance(n, ast.Call) and isinstance(n.func, ast.Attribute) and n.func.attr == "update" and n.args and isinstance(n.args[0], ast.Name):
            d = common.reaching_def(ctx, fi, n.args[0].id, n)
            if d is not None and any(isinstance(x, ast.Call) and q in common.targets_of(ctx, fi, x) for x in ast.walk(d)):
                rec_store.append(n)
    shallow = [n for n in body_nodes(fi) if isinstance(n, ast.Call) and isinstance(n.func, ast.Attribute) and n.func.attr == "update" and n.args
               and not (isinstance(n.args[0], ast.Dict) and all(not isinstance(v, (ast.Dict, ast.Name)) for v in n.args[0].values))]
    rec_store = rec_store or shallow
    if not rec_store and not desc:
        # a sub-mapping wrapped around the value ({token: value}) and stored under the head key replaces whatever an earlier dotted key put there
        wrapped = {t.id for n in body_nodes(fi) if isinstance(n, ast.Assign) and isinstance(n.value, ast.Dict) and n.value.keys for t in n.targets if isinstance(t, ast.Name)}
        rec_store = [n for n in body_nodes(fi) if isinstance(n, ast.Assign) and any(isinstance(t, ast.Subscript) for t in n.targets)
                     and (isinstance(n.value, ast.Dict) and n.value.keys or (isinstance(n.value, ast.Name) and n.value.id in wrapped))]
    k = q + "|merge"
    if rec_store:
        out.append(ctx.viol(R, fi, rec_store[0], f"`{stmt_key(rec_store[0], 50)}` stores / merges a pre-built sub-mapping shallowly: two dotted keys that share a prefix of two or more levels "
                            "('c.x.a', 'c.x.b') overwrite each other, so nested state points lose keys", construct=k))
    elif desc:
        out.append(ctx.ok(R, fi, desc[0], "sub-mappings are created with setdefault and extended in place: keys sharing a prefix are merged", construct=k))
    else:
        out.append(ctx.inc(R, fi, fi.node, "nested-dict construction shape not recognised", construct=k))
    # no filtering by value
    stores = [n for n in body_nodes(fi) if isinstance(n, ast.Assign) and any(isinstance(t, ast.Subscript) for t in n.targets) and "value" in names_in(n.value)]
    k2 = q + "|keeps-all-values"
    cond = []
    for s in stores:
        facts = common.facts_at(ctx, fi, s, "n")
        cond += [f for f in facts if f[0].replace(" ", "") in ("value", "valueisNone") or "value is" in f[0] or f[0] == "not value"]
    conts = [n for n in body_nodes(fi) if isinstance(n, ast.Continue)]
    for c in conts:
        facts = common.facts_at(ctx, fi, c, "n")
        cond += [f for f in facts if "value" in f[0]]
    if cond:
        out.append(ctx.viol(R, fi, (stores or conts)[0], f"entries are kept or dropped depending on their value ({cond[0]}): a key whose value is None / falsy vanishes, so a diff merged with the "
                            "common part no longer reconstructs the state point", construct=k2))
    else:
        out.append(ctx.ok(R, fi, fi.node, "every (key, value) pair is stored, whatever the value", construct=k2))
    return out


def single_consumption(ctx, R, table):
    """A parameter that may be a one-shot iterable (generator, map/filter object) is consumed at most once before it is materialised:
    a validation loop added in front of the real use exhausts it, and the real use then sees an empty selection."""
    out = []
    CONSUMERS = ("all", "any", "list", "set", "tuple", "sorted", "sum", "max", "min", "frozenset", "dict", "enumerate", "iter", "next", "zip", "map", "filter")
    for (q, p, why) in table:
        fi = ctx.prog.funcs.get(q)
        if fi is None:
            out.append(ctx.inc(R, None, None, f"function {q} not found", construct=f"{q}|once:{p}"))
            continue
        uses = []
        rebound = None
        for n in body_nodes(fi):
            if isinstance(n, (ast.For, ast.comprehension)) and isinstance(n.iter, ast.Name) and n.iter.id == p:
                uses.append(n)
            elif isinstance(n, ast.Call):
                nm = n.func.id if isinstance(n.func, ast.Name) else (n.func.attr if isinstance(n.func, ast.Attribute) else "")
                direct = [a for a in list(n.args) + [k.value for k in n.keywords] if isinstance(a, ast.Name) and a.id == p]
                if direct:
                    uses.append(n)
            elif isinstance(n, ast.Assign) and any(isinstance(t, ast.Name) and t.id == p for t in n.targets):
                rebound = n
        # a re-binding that materialises the parameter (p = list(p) / {..for x in p}) makes later uses safe
        cfg = ctx.cfg(fi)
        k = f"{q}|once:{p}"
        if len(uses) <= 1:
            out.append(ctx.ok(R, fi, fi.node, f"`{p}` is consumed once", construct=k, nontrivial=bool(uses)))
            continue
        # order the uses; count those that can execute before the materialising re-binding (or all, if there is none)
        def before_rebind(u):
            if rebound is None:
                return True
            try:
                uid = ctx.node_ids(fi, u)
                rid = ctx.node_ids(fi, rebound)
            except Exception:
                return True
            if set(uid) & set(rid):
                return True  # the re-binding statement itself consumes it (that is the materialisation)
            return any(r in cfg.reachable([x], kinds="n") for x in uid for r in rid)
        early = [u for u in uses if before_rebind(u)]
        if len(early) >= 2:
            out.append(ctx.viol(R, fi, early[0], f"`{p}` is consumed {len(early)} times before being materialised (first at line {getattr(early[0], 'lineno', '?')}): {why}", construct=k))
        else:
            out.append(ctx.ok(R, fi, fi.node, f"`{p}` is materialised by its first use; later uses see the materialised value", construct=k))
    return out


_LIST_MUTATORS = ("append", "extend", "insert", "remove", "pop", "clear", "sort", "reverse", "update", "add", "discard", "setdefault", "popitem")


def param_not_mutated(ctx, R, table):
    """A container received as an argument belongs to the caller: it is modified in place only after the name has been re-bound to a
    fresh object on every path (reaching definitions at each mutation site).  table: (function, parameter, why)."""
    from . import common
    out = []
    for q, par, why in table:
        fi = ctx.prog.funcs.get(q)
        k = f"{q}|caller-owned:{par}"
        if fi is None or par not in fi.params:
            out.append(ctx.inc(R, fi, None, f"{q} has no parameter {par}", construct=k))
            continue
        muts = []
        for n in body_nodes(fi):
            if isinstance(n, ast.Call) and isinstance(n.func, ast.Attribute) and isinstance(n.func.value, ast.Name) and n.func.value.id == par and n.func.attr in _LIST_MUTATORS:
                muts.append(n)
            elif isinstance(n, ast.AugAssign) and isinstance(n.target, ast.Name) and n.target.id == par:
                muts.append(n)
            elif isinstance(n, (ast.Assign, ast.AugAssign, ast.Delete)):
                tg = n.targets if isinstance(n, (ast.Assign, ast.Delete)) else [n.target]
                if any(isinstance(t, ast.Subscript) and isinstance(t.value, ast.Name) and t.value.id == par for t in tg):
                    muts.append(n)
        bad = None
        for m in muts:
            for d in common.reaching_defs(ctx, fi, par, m):
                fresh = False
                if d == "<param>":
                    bad = bad or (m, "the caller's object")
                    continue
                if d == "<other>":
                    continue
                if isinstance(d, (ast.List, ast.ListComp, ast.Dict, ast.DictComp, ast.Set, ast.SetComp, ast.Tuple, ast.Constant, ast.BinOp)):
                    fresh = True
                elif isinstance(d, ast.Call) and isinstance(d.func, ast.Name) and d.func.id in ("list", "dict", "set", "sorted", "tuple"):
                    fresh = True
                elif isinstance(d, ast.Call) and isinstance(d.func, ast.Attribute) and d.func.attr in ("copy", "deepcopy"):
                    fresh = True
                elif isinstance(d, ast.Subscript) and isinstance(d.slice, ast.Slice):
                    fresh = True
                if not fresh and par in {x.id for x in ast.walk(d) if isinstance(x, ast.Name)} and isinstance(d, (ast.Name, ast.IfExp, ast.BoolOp)):
                    bad = bad or (m, f"`{canon(d)[:40]}`, which can be the caller's object")
        if bad:
            m, what = bad
            out.append(ctx.viol(R, fi, m, f"`{stmt_key(m, 50)}` modifies `{par}` in place while it can still be {what}: {why}", construct=k))
        else:
            out.append(ctx.ok(R, fi, fi.node, f"`{par}` is modified in place at {len(muts)} site(s), each reached only by a fresh copy", construct=k, nontrivial=bool(muts)))
    return out


_MUTABLE_CTORS = ("dict", "list", "set", "defaultdict", "OrderedDict", "deque", "Counter")
_INPLACE_METHODS = ("update", "append", "extend", "add", "pop", "popitem", "clear", "setdefault", "remove", "discard", "insert")


def no_shared_mutable_class_state(ctx, R, class_quals, why):
    """A mutable object bound in a class body is shared by every instance.  If a method also modifies `self.<name>` in place (item store,
    update / append / ...), state leaks between instances whenever the per-instance binding is missing (e.g. after unpickling with a reduced
    __getstate__, copy.copy before __init__ ...).  Such attributes must be bound per instance only."""
    out = []
    for cq in class_quals:
        ci = ctx.prog.classes.get(cq)
        k = f"{cq}|class-level-mutable"
        if ci is None:
            out.append(ctx.inc(R, None, None, f"class {cq} not found", construct=k))
            continue
        shared = {}
        for st in ci.node.body:
            if isinstance(st, (ast.Assign, ast.AnnAssign)) and getattr(st, "value", None) is not None:
                v = st.value
                mut = isinstance(v, (ast.Dict, ast.List, ast.Set, ast.DictComp, ast.ListComp, ast.SetComp)) or \
                    (isinstance(v, ast.Call) and (dotted(v.func) or "").split(".")[-1] in _MUTABLE_CTORS)
                if mut:
                    for t in (st.targets if isinstance(st, ast.Assign) else [st.target]):
                        if isinstance(t, ast.Name):
                            shared[t.id] = st
        hit = None
        for m in ci.methods.values():
            for n in body_nodes(m):
                tgt = None
                if isinstance(n, (ast.Assign, ast.AugAssign, ast.Delete)):
                    for t in (n.targets if isinstance(n, (ast.Assign, ast.Delete)) else [n.target]):
                        if isinstance(t, ast.Subscript):
                            tgt = t.value
                elif isinstance(n, ast.Call) and isinstance(n.func, ast.Attribute) and n.func.attr in _INPLACE_METHODS:
                    tgt = n.func.value
                if isinstance(tgt, ast.Attribute) and isinstance(tgt.value, ast.Name) and tgt.value.id in ("self", "cls") and tgt.attr in shared:
                    hit = hit or (m, n, tgt.attr)
        if hit:
            m, n, a = hit
            out.append(ctx.viol(R, m, n, f"`{a}` is bound to a mutable object in the body of {ci.name} (line {shared[a].lineno}) and modified in place here: every instance that has no "
                                f"binding of its own shares that one object: {why}", construct=k))
        else:
            out.append(ctx.ok(R, None, None, f"{ci.name}: no class-level mutable object is modified in place through an instance ({len(shared)} class-level mutable attribute(s))",
                              construct=k, nontrivial=False))
    return out


def loop_carried_locals(ctx, fi):
    """[(loop, name, read_node, witness)] for locals that are assigned inside a loop body and can be read in the body on a path from the top of an
    iteration that passes none of those assignments: the value then comes from before the loop or from the previous iteration.
    Augmented assignments (accumulators) and names only ever mutated by method calls are not assignments in this sense."""
    cfg = ctx.cfg(fi)
    out = []
    loops = [n for n in cfg.stmt_nodes() if isinstance(n.ast, (ast.For, ast.AsyncFor, ast.While)) and n.kind in ("loop", "test", "stmt", "for")]
    seen = set()
    for ln in loops:
        lp = ln.ast
        if id(lp) in seen:
            continue
        seen.add(id(lp))
        body_ids = set()
        for n in cfg.stmt_nodes():
            if n.ast is not lp and any(n.ast is x for st in lp.body for x in ast.walk(st)):
                body_ids.add(n.id)
        if not body_ids:
            continue
        tnames = set(common.target_names(lp.target)) if isinstance(lp, (ast.For, ast.AsyncFor)) else set()
        defs = {}
        for n in cfg.stmt_nodes():
            if n.id not in body_ids:
                continue
            a = n.ast
            names = []
            if isinstance(a, ast.Assign) and n.kind == "stmt":
                for t in a.targets:
                    names += common.target_names(t)
            elif isinstance(a, (ast.For, ast.AsyncFor)):
                names += common.target_names(a.target)
            elif isinstance(a, (ast.With, ast.AsyncWith)):
                for it in a.items:
                    if it.optional_vars is not None:
                        names += common.target_names(it.optional_vars)
            elif isinstance(a, ast.ExceptHandler) and a.name:
                names.append(a.name)
            elif isinstance(a, ast.AugAssign) and isinstance(a.target, ast.Name):
                defs.setdefault(a.target.id, set()).add(("aug", n.id))
            for nm in names:
                defs.setdefault(nm, set()).add(("def", n.id))
        # first statement(s) of an iteration
        starts = [n.id for n in cfg.stmt_nodes() if lp.body and n.ast is lp.body[0]] or []
        if not starts:
            continue
        for nm, ds in defs.items():
            if nm in tnames or any(k == "aug" for k, _ in ds):
                continue
            def_ids = {i for _, i in ds}
            for n in cfg.stmt_nodes():
                if n.id not in body_ids or n.id in def_ids and not isinstance(n.ast, (ast.For, ast.With)):
                    pass
                if n.id not in body_ids:
                    continue
                from ..cfg import own_exprs
                reads = [x for sub in own_exprs(n.ast) for x in walk_no_nested(sub) if isinstance(x, ast.Name) and x.id == nm and isinstance(x.ctx, ast.Load)]
                if not reads:
                    continue
                if n.id in starts and n.id not in def_ids:
                    out.append((lp, nm, reads[0], None))
                    break
                blocked = (def_ids - {n.id}) | (set(x.id for x in cfg.stmt_nodes()) - body_ids - {n.id})
                w = None
                for s in starts:
                    if s in def_ids and s != n.id:
                        continue
                    w = w or cfg.path(s, {n.id}, blocked=blocked - {s}, kinds="nx")
                if w is not None:
                    out.append((lp, nm, reads[0], w))
                    break
    return out


def _is_cursor(lp, nm):
    """Every assignment to nm inside the loop computes the new value from the old one (`v = v[n]`, `node = node.child(...)`, `p = up` with `up := dirname(p)`)
    or sets a constant latch: the variable is a cursor / accumulator by construction, not a per-item value."""
    assigns = [n for n in ast.walk(lp) if isinstance(n, ast.Assign) and any(nm in common.target_names(t) for t in n.targets)]
    if not assigns:
        return False
    bound = {}
    for n in ast.walk(lp):
        if isinstance(n, ast.NamedExpr) and isinstance(n.target, ast.Name):
            bound.setdefault(n.target.id, []).append(n.value)
        elif isinstance(n, ast.Assign):
            for t in n.targets:
                if isinstance(t, ast.Name):
                    bound.setdefault(t.id, []).append(n.value)
    for a in assigns:
        v = a.value
        if isinstance(v, ast.Constant) or nm in names_in(v):
            continue
        if isinstance(v, ast.Name) and v.id in bound and all(nm in names_in(x) for x in bound[v.id]):
            continue
        return False
    return True


def per_item_loops(ctx, R, table):
    """In a loop that produces one record / performs one action per job, everything read in an iteration is computed in that iteration (or is
    loop-invariant): a local that is assigned in the body but can be read before this iteration's assignment carries the previous job's
    value.  table: (function, why)."""
    out = []
    for q, why in table:
        fi = ctx.prog.funcs.get(q)
        k = f"{q}|per-item-loop"
        if fi is None:
            out.append(ctx.inc(R, None, None, f"function {q} not found", construct=k))
            continue
        fns = [fi] + list(fi.nested_all)
        hits = []
        nloops = 0
        for g in fns:
            nloops += sum(1 for n in body_nodes(g) if isinstance(n, (ast.For, ast.While)))
            for lp, nm, rd, w in loop_carried_locals(ctx, g):
                if _is_cursor(lp, nm):
                    continue
                hits.append((g, lp, nm, rd, w))
        if hits:
            g, lp, nm, rd, w = hits[0]
            out.append(ctx.viol(R, g, rd, f"`{nm}` is assigned inside the loop at line {lp.lineno} but can be read here on a path of the same iteration that passes no assignment "
                                f"(e.g. through an exception handler or a skipped branch): the value of the previous iteration (another job) is used: {why}",
                                construct=k, witness=ctx.cfg(g).describe_path(w) if w else None))
        else:
            out.append(ctx.ok(R, fi, fi.node, f"{nloops} loop(s): nothing is carried from one iteration to the next", construct=k, nontrivial=nloops > 0))
    return out


def walk_pruning_effective(ctx, R, modules):
    """os.walk honours in-place edits of its `dirnames` list only while the generator is live and top-down: a loop that prunes must iterate the
    os.walk(...) call itself (not sorted(...) / list(...) of it) and must not pass topdown=False."""
    out = []
    n_prune = 0
    for mq in modules:
        for fi in ctx.prog.functions_of_module(mq):
            for lp in [n for n in body_nodes(fi) if isinstance(n, (ast.For, ast.AsyncFor))]:
                walks = [c for c in ast.walk(lp.iter) if isinstance(c, ast.Call) and common.ext_name(ctx, fi, c) == "os.walk"]
                if not walks or not (isinstance(lp.target, ast.Tuple) and len(lp.target.elts) == 3 and isinstance(lp.target.elts[1], ast.Name)):
                    continue
                dn = lp.target.elts[1].id
                prunes = []
                for n in ast.walk(lp):
                    if isinstance(n, (ast.Delete, ast.Assign)) and any(isinstance(t, ast.Subscript) and canon(t.value) == dn for t in n.targets):
                        prunes.append(n)
                    if isinstance(n, ast.Call) and isinstance(n.func, ast.Attribute) and canon(n.func.value) == dn and n.func.attr in ("clear", "remove", "pop", "sort"):
                        prunes.append(n)
                if not prunes:
                    continue
                n_prune += 1
                k = f"{fi.qual}|walk-prune"
                td = kwarg(walks[0], "topdown")
                if walks[0] is not lp.iter:
                    out.append(ctx.viol(R, fi, lp, f"the loop prunes `{dn}` in place but iterates {canon(lp.iter)[:50]}, which has consumed os.walk before the first iteration: the pruning has no "
                                        "effect and the sub-directories of an identified job are visited (a nested state point file becomes a job of its own)", construct=k))
                elif td is not None and ctx.fold(td, fi) is not True:
                    out.append(ctx.viol(R, fi, lp, f"the loop prunes `{dn}` but walks with topdown={canon(td)}: the pruning has no effect", construct=k))
                else:
                    out.append(ctx.ok(R, fi, lp, f"`{dn}` is pruned in place on the live, top-down os.walk generator", construct=k))
    if not n_prune:
        out.append(ctx.info(R, None, None, "no pruning os.walk loop in " + ", ".join(modules), construct="walk-prune"))
    return out


_TEXT_SEARCH = ("split", "rsplit", "partition", "rpartition", "replace", "find", "rfind", "index", "rindex", "strip", "lstrip", "rstrip", "removeprefix")


def no_path_text_search(ctx, R, quals, why):
    """A path is taken apart by position (os.path.relpath / dirname / basename, slicing at a known length) or at separators, never by searching for the text of another
    path inside it: that text can occur more than once."""
    out = []
    for q in quals:
        fi = ctx.prog.funcs.get(q)
        k = f"{q}|path-text-search"
        if fi is None:
            out.append(ctx.inc(R, None, None, f"function {q} not found", construct=k))
            continue
        hit = None
        for c in body_nodes(fi):
            if isinstance(c, ast.Call) and isinstance(c.func, ast.Attribute) and c.func.attr in _TEXT_SEARCH and c.args:
                a = common.inline_at(ctx, fi, c.args[0], c)
                v = ctx.fold(a, fi)
                if isinstance(v, str) and len(v) <= 2:
                    continue  # a separator / single character
                t = canon(a)
                if t in ("os.sep", "os.path.sep", "os.altsep", "os.pardir", "os.curdir") or isinstance(a, ast.Constant):
                    continue
                if c.func.attr in ("strip", "lstrip", "rstrip") and isinstance(v, str):
                    continue
                if c.func.attr == "removeprefix":
                    continue  # anchored at position 0
                hit = hit or (c, t)
        if hit:
            c, t = hit
            out.append(ctx.viol(R, fi, c, f"`{canon(c)[:60]}` locates `{t[:30]}` by searching its text: {why}", construct=k))
        else:
            out.append(ctx.ok(R, fi, fi.node, "paths are decomposed by position / at separators only", construct=k, nontrivial=False))
    return out


def swapped_arguments(ctx, R, modules):
    """Cross-check of every resolved internal call: two positional arguments that are plain names must not be each other's parameter names
    (f(dst, src) for def f(src, dst)).  One aggregated instance per module."""
    out = []
    for mq in modules:
        n = 0
        hit = None
        for fi in ctx.prog.functions_of_module(mq):
            for c in body_nodes(fi):
                if not isinstance(c, ast.Call):
                    continue
                tg, ext = ctx.calls.resolve_call(fi, c)
                for t in tg:
                    if t.module.is_dep:
                        continue
                    params = [p for p in t.params if p not in ("self", "cls")]
                    argn = [a.id if isinstance(a, ast.Name) else None for a in c.args]
                    n += 1
                    for i, a in enumerate(argn):
                        if a and i < len(params) and a != params[i] and a in params:
                            j = params.index(a)
                            if j < len(argn) and argn[j] == params[i]:
                                hit = hit or (fi, c, t, params[i], params[j])
        k = f"{mq}|swapped-arguments"
        if hit:
            fi, c, t, p1, p2 = hit
            out.append(ctx.viol(R, fi, c, f"`{canon(c)[:60]}` passes `{p2}` where {t.qual.split(':')[-1]} expects `{p1}` and `{p1}` where it expects `{p2}`: the two roles are exchanged",
                                construct=k))
        else:
            out.append(ctx.ok(R, None, None, f"{mq}: {n} resolved internal calls, no pair of positional arguments exchanged with respect to the callee's parameter names", construct=k, nontrivial=n > 0))
    return out


_LOG_METHODS = ("debug", "info", "warning", "error", "critical", "more", "exception", "warn", "log")
_LAZY_ATTRS = ("document", "doc", "stores", "data", "statepoint", "sp")
_EFFECT_CALLS = ("next", "init", "open", "remove", "load", "save", "pop", "popitem", "clear", "update", "move", "reset", "sync", "clone")


def pure_logging(ctx, R, modules):
    """Diagnostics must not do work: the arguments of logging / warning calls neither evaluate the lazy job properties (job.document creates the job directory,
    job.statepoint may load and register) nor call anything that consumes an iterator or touches the file system."""
    out = []
    for mq in modules:
        n = 0
        hit = None
        for fi in ctx.prog.functions_of_module(mq):
            for c in body_nodes(fi):
                if not isinstance(c, ast.Call):
                    continue
                d = dotted(c.func) or ""
                is_log = (isinstance(c.func, ast.Attribute) and c.func.attr in _LOG_METHODS and "log" in canon(c.func.value).lower()) or d in ("_print_err", "warnings.warn")
                if not is_log:
                    continue
                n += 1
                for a in list(c.args) + [k.value for k in c.keywords]:
                    for x in ast.walk(a):
                        if isinstance(x, ast.Attribute) and x.attr in _LAZY_ATTRS and isinstance(x.ctx, ast.Load):
                            t = ctx.calls.type_of(x.value, fi)
                            if t in ("signac.job:Job", "signac.project:Project") or t is None and isinstance(x.value, ast.Name) and x.value.id in ("job", "src", "dst", "self", "project"):
                                hit = hit or (fi, c, f"evaluates the lazy property `{canon(x)}`")
                        if isinstance(x, ast.Call):
                            nm = (dotted(x.func) or canon(x.func)).split(".")[-1]
                            if nm in _EFFECT_CALLS:
                                hit = hit or (fi, c, f"calls `{canon(x)[:40]}`")
        k = f"{mq}|pure-logging"
        if hit:
            fi, c, what = hit
            out.append(ctx.viol(R, fi, c, f"the diagnostic `{canon(c)[:60]}` {what}: producing a log line changes state (creates a job directory / loads and registers a state point / "
                                "consumes an iterator), so behaviour depends on the log level and a dry run or a read-only query writes", construct=k))
        else:
            out.append(ctx.ok(R, None, None, f"{mq}: {n} logging / warning calls, none evaluates a lazy property or an effectful call", construct=k, nontrivial=n > 0))
    return out


def binary_data_io(ctx, R, quals, why):
    """signac's own data files (state points, documents, the cache) are JSON in UTF-8: they are read and written as bytes (`"rb"` / `"wb"` plus explicit
    encode() / decode()) or with an explicit encoding=, never in text mode with the locale's default encoding."""
    out = []
    for q in quals:
        fi = ctx.prog.funcs.get(q)
        k = f"{q}|binary-io"
        if fi is None:
            out.append(ctx.inc(R, None, None, f"function {q} not found", construct=k))
            continue
        fns = [fi]
        for c0 in body_nodes(fi):
            if isinstance(c0, ast.Call):
                for tq in common.targets_of(ctx, fi, c0):
                    g = ctx.prog.funcs.get(tq)
                    if g is not None and g is not fi and not g.module.is_dep and g.module.name.startswith("signac") and g not in fns \
                            and any(isinstance(x, ast.Call) and common.ext_name(ctx, g, x) in ("builtins.open", "io.open", "gzip.open", "json.loads", "json.load") for x in body_nodes(g)):
                        fns.append(g)
        opens = [c for g in fns for c in body_nodes(g) if isinstance(c, ast.Call) and common.ext_name(ctx, g, c) in ("builtins.open", "io.open", "gzip.open", "bz2.open", "lzma.open")]
        lenient = [c for g in fns for c in body_nodes(g) if isinstance(c, ast.Call) and isinstance(c.func, ast.Attribute) and c.func.attr in ("decode", "encode")
                   and (len(c.args) >= 2 or kwarg(c, "errors") is not None) and ctx.fold(c.args[1] if len(c.args) >= 2 else kwarg(c, "errors"), fi) not in ("strict",)]
        if lenient:
            out.append(ctx.viol(R, fi, lenient[0], f"`{canon(lenient[0])[:60]}` decodes a signac data file leniently: bytes that are not valid UTF-8 are dropped / replaced, so a damaged state point "
                                "file whose damage happens to fall on insignificant white space hashes to its id and is accepted as intact", construct=k))
            continue
        bad = None
        for c in opens:
            m = kwarg(c, "mode") or (c.args[1] if len(c.args) > 1 else None)
            mode = ctx.fold(m, fi) if m is not None else ("r" if common.ext_name(ctx, fi, c) in ("builtins.open", "io.open") else "rb")
            enc = kwarg(c, "encoding")
            if isinstance(mode, str) and "b" not in mode and enc is None:
                bad = bad or (c, mode)
        if bad:
            c, mode = bad
            out.append(ctx.viol(R, fi, c, f"`{canon(c)[:60]}` opens a signac data file in text mode {mode!r} without encoding=: the bytes are interpreted in the locale's encoding, {why}", construct=k))
        else:
            out.append(ctx.ok(R, fi, fi.node, f"{len(opens)} file open(s): binary or with explicit encoding", construct=k, nontrivial=bool(opens)))
    return out


def handler_order(ctx, R, modules):
    """In a try statement a handler for a class shadows every later handler for one of its subclasses (except LookupError before except KeyError): the later
    handler is dead and its case is answered by the earlier one.  One aggregated instance per module."""
    from ..exc import ExcFacts
    ex = ExcFacts(ctx)
    out = []
    for mq in modules:
        n = 0
        hit = None
        for fi in ctx.prog.functions_of_module(mq):
            for t in [x for x in body_nodes(fi) if isinstance(x, ast.Try)]:
                seen = []
                for h in t.handlers:
                    types = ex.handler_type_names(fi, h)
                    n += 1
                    for ty in types:
                        for (eh, ets) in seen:
                            if any(ex.catches([e], ty) for e in ets):
                                hit = hit or (fi, h, ty, ets)
                    seen.append((h, types))
        k = f"{mq}|handler-order"
        if hit:
            fi, h, ty, ets = hit
            out.append(ctx.viol(R, fi, h, f"`except {ty.split(':')[-1]}` comes after `except {', '.join(e.split(':')[-1] for e in ets)}`, which already catches it: this handler is dead code and its "
                                "case (e.g. 'no such job' -> KeyError) is reported by the earlier handler as something else ('several jobs match')", construct=k))
        else:
            out.append(ctx.ok(R, None, None, f"{mq}: {n} exception handlers, none shadowed by an earlier handler of the same try", construct=k, nontrivial=n > 0))
    return out


def strip_is_not_removeprefix(ctx, R, modules):
    """str.strip / lstrip / rstrip take a *set of characters*, not a prefix or suffix: with an argument of two or more characters they also eat leading / trailing
    characters of the payload ('.cache'.lstrip('./') == 'cache').  One aggregated instance per module."""
    out = []
    for mq in modules:
        n = 0
        hit = None
        for fi in ctx.prog.functions_of_module(mq):
            for c in body_nodes(fi):
                if isinstance(c, ast.Call) and isinstance(c.func, ast.Attribute) and c.func.attr in ("strip", "lstrip", "rstrip") and c.args:
                    n += 1
                    v = ctx.fold(c.args[0], fi)
                    if isinstance(v, str) and len(set(v)) >= 2 and not v.isspace():
                        hit = hit or (fi, c, v)
        k = f"{mq}|strip-charset"
        if hit:
            fi, c, v = hit
            out.append(ctx.viol(R, fi, c, f"`{canon(c)[:60]}` strips the character set {sorted(set(v))}, not the text {v!r}: names that begin / end with one of these characters lose them "
                                "(a hidden directory '.cache' becomes 'cache'), so files are stored under another path than the one they were read from", construct=k))
        else:
            out.append(ctx.ok(R, None, None, f"{mq}: {n} strip() call(s) with an argument, all with a single character", construct=k, nontrivial=n > 0))
    return out


def contextmanager_exit_on_error(ctx, R, modules):
    """A generator-based context manager (contextlib.contextmanager) that has something to do after the `yield` must do it also when the body of the `with`
    raises: the yield sits inside try/finally (or a try whose handlers clean up and re-raise) or inside another `with`."""
    out = []
    for mq in modules:
        for fi in ctx.prog.functions_of_module(mq):
            if not any("contextmanager" in d for d in fi.decorators):
                continue
            pm = ctx.parents(fi)
            cfg = ctx.cfg(fi)
            for y in [n for n in body_nodes(fi) if isinstance(n, ast.Yield)]:
                cur = pm.get(id(y))
                prot = False
                while cur is not None and cur is not fi.node:
                    if isinstance(cur, ast.Try) and (cur.finalbody or cur.handlers):
                        prot = True
                    if isinstance(cur, (ast.With, ast.AsyncWith)):
                        prot = True
                    cur = pm.get(id(cur))
                st = ctx.stmt_of(fi, y)
                after = False
                for nid in cfg.node_ids_for(st):
                    reach = cfg.reachable([nid], kinds="n") - {nid}
                    after = after or any(cfg.nodes[i].kind == "stmt" and not isinstance(cfg.nodes[i].ast, (ast.Pass,)) for i in reach)
                k = f"{fi.qual}|yield-protected|L{[x for x in body_nodes(fi) if isinstance(x, ast.Yield)].index(y)}"
                if prot or not after:
                    out.append(ctx.ok(R, fi, y, "the clean-up after the yield also runs when the with-body raises" if after else "nothing to clean up after the yield", construct=k, nontrivial=after))
                else:
                    out.append(ctx.viol(R, fi, y, f"{fi.name}() is a generator-based context manager with work after the `yield` but no try/finally around it: when the body of the `with` raises, "
                                        "the generator is closed at the yield and the clean-up (leaving buffered mode and flushing, removing a backup ...) never runs", construct=k))
    return out


def keyed_by_parameter(ctx, R, table):
    """A memo / registry that must distinguish its entries by the full key it is given: membership tests, additions and look-ups on the container use the parameter
    itself, not a reduced form of it (basename, lower-case, a prefix).  table: (function, container expression, parameter, why)."""
    out = []
    for q, cont, par, why in table:
        fi = ctx.prog.funcs.get(q)
        k = f"{q}|keyed-by:{par}"
        if fi is None or par not in fi.params:
            out.append(ctx.inc(R, fi, None, f"{q}: function or parameter {par} not found", construct=k))
            continue
        uses = []
        for n in body_nodes(fi):
            if isinstance(n, ast.Compare) and len(n.ops) == 1 and isinstance(n.ops[0], (ast.In, ast.NotIn)) and canon(n.comparators[0]).startswith(cont):
                uses.append((n, n.left))
            elif isinstance(n, ast.Call) and isinstance(n.func, ast.Attribute) and canon(n.func.value).startswith(cont) and n.func.attr in ("add", "setdefault", "get", "pop", "discard", "remove") and n.args:
                uses.append((n, n.args[0]))
            elif isinstance(n, ast.Subscript) and canon(n.value).startswith(cont):
                uses.append((n, n.slice))
        bad = None
        for n, key in uses:
            kv = common.inline_at(ctx, fi, key, n)
            if canon(kv) != par:
                bad = bad or (n, kv)
        if not uses:
            out.append(ctx.inc(R, fi, fi.node, f"no use of {cont} found", construct=k))
        elif bad:
            out.append(ctx.viol(R, fi, bad[0], f"`{canon(bad[0])[:50]}` keys {cont} by `{canon(bad[1])[:40]}`, a reduced form of `{par}`: {why}", construct=k))
        else:
            out.append(ctx.ok(R, fi, uses[0][0], f"{len(uses)} use(s) of {cont}, all keyed by `{par}` itself", construct=k))
    return out


def no_prefix_length_slicing(ctx, R, modules):
    """`path[len(prefix) + c:]` assumes that `path` literally starts with `prefix` followed by exactly c more characters; with a trailing separator, a './'
    or a differently normalised prefix the cut is off by one.  Paths are made relative with os.path.relpath.  One aggregated instance per module."""
    out = []
    for mq in modules:
        n = 0
        hit = None
        for fi in ctx.prog.functions_of_module(mq):
            for s in body_nodes(fi):
                if isinstance(s, ast.Subscript) and isinstance(s.slice, ast.Slice):
                    for bound in (s.slice.lower, s.slice.upper):
                        if bound is None:
                            continue
                        for c in ast.walk(bound):
                            if isinstance(c, ast.Call) and isinstance(c.func, ast.Name) and c.func.id == "len" and c.args and not isinstance(c.args[0], ast.Constant) \
                                    and canon(c.args[0]) != canon(s.value) and (names_in(c.args[0]) & set(fi.params) or names_in(s.value) & set(fi.params)):
                                n += 1
                                pth = any(w in canon(s).lower() for w in ("path", "root", "dir", "prefix", "src", "dst", "fn"))
                                if pth:
                                    hit = hit or (fi, s)
        k = f"{mq}|prefix-length-slicing"
        if hit:
            fi, s = hit
            out.append(ctx.viol(R, fi, s, f"`{canon(s)[:60]}` cuts a path at the length of another path: when that prefix ends with a separator (or is spelled differently from the walked path) "
                                "the cut is off by one character, existing entries are mis-identified", construct=k))
        else:
            out.append(ctx.ok(R, None, None, f"{mq}: no path is cut at the length of another path", construct=k, nontrivial=False))
    return out


def _evidently_set(ctx, fi, e, at, depth=0):
    """The value of expression `e` (at statement `at`) is certainly a set: literal / comprehension / set(...) / set algebra on such values /
    a local all of whose reaching definitions are."""
    if depth > 4:
        return False
    if isinstance(e, (ast.Set, ast.SetComp)):
        return True
    if isinstance(e, ast.Call):
        if isinstance(e.func, ast.Name) and e.func.id in ("set", "frozenset"):
            return True
        if isinstance(e.func, ast.Attribute) and e.func.attr in ("difference", "intersection", "union", "symmetric_difference", "copy"):
            return _evidently_set(ctx, fi, e.func.value, at, depth + 1)
        return False
    if isinstance(e, ast.BinOp) and isinstance(e.op, (ast.Sub, ast.BitAnd, ast.BitOr, ast.BitXor)):
        return _evidently_set(ctx, fi, e.left, at, depth + 1) and _evidently_set(ctx, fi, e.right, at, depth + 1)
    if isinstance(e, ast.Name) and e.id not in fi.params:
        try:
            defs = common.reaching_defs(ctx, fi, e.id, at)
        except Exception:
            return False
        return bool(defs) and all(isinstance(d, ast.AST) and _evidently_set(ctx, fi, d, at, depth + 1) for d in defs)
    return False


def sequence_arguments(ctx, R, modules):
    """A helper that slices one of its parameters (`p[i:j]`) needs a sequence: no resolved internal call site may hand it a value that is
    evidently a set (the failure only shows on the branch that slices, e.g. when there is more than one chunk)."""
    out = []
    slicers = {}
    for g in ctx.prog.funcs.values():
        if g.module.name not in modules:
            continue
        for n in body_nodes(g):
            if isinstance(n, ast.Subscript) and isinstance(n.slice, ast.Slice) and isinstance(n.value, ast.Name) and n.value.id in g.params and isinstance(n.ctx, ast.Load):
                # the parameter must not have been re-bound (e.g. p = list(p)) before
                try:
                    defs = common.reaching_defs(ctx, g, n.value.id, n)
                except Exception:
                    defs = ["?"]
                if defs == ["<param>"]:
                    slicers.setdefault(g.qual, set()).add(n.value.id)
    n_sites = 0
    for f in ctx.prog.funcs.values():
        if f.module.name not in modules:
            continue
        for (c, tg, _e) in ctx.calls.callees(f):
            if not isinstance(c, ast.Call):
                continue
            for t in tg:
                if t.qual not in slicers:
                    continue
                for p in slicers[t.qual]:
                    idx = t.params.index(p)
                    if t.cls is not None and t.params and t.params[0] in ("self", "cls") and not (isinstance(c.func, ast.Name)):
                        idx -= 1
                    a = kwarg(c, p) or (c.args[idx] if 0 <= idx < len(c.args) else None)
                    if a is None:
                        continue
                    n_sites += 1
                    k = f"{f.qual}|{t.name}({p}=)"
                    if _evidently_set(ctx, f, a, c):
                        out.append(ctx.viol(R, f, c, f"{t.name}() slices its parameter `{p}` but is handed {canon(a)[:40]}, which is a set: the call works while the helper takes its "
                                            "no-slicing shortcut (one chunk) and raises TypeError ('set' object is not subscriptable) as soon as it has to slice", construct=k))
                    else:
                        out.append(ctx.ok(R, f, c, f"{t.name}() slices `{p}`; the argument {canon(a)[:40]} is not a set", construct=k))
    if not n_sites:
        out.append(ctx.ok(R, None, None, "no internal helper slices a parameter that call sites supply", construct="|".join(modules) + "|slicers", nontrivial=False))
    return out


_EAGER = {"any", "all", "sum", "min", "max", "sorted", "list", "tuple", "set", "frozenset", "dict", "len", "next", "enumerate", "zip", "map", "filter", "reversed", "iter", "bool"}


def late_binding_in_loops(ctx, R, modules):
    """A generator expression written in a loop body evaluates its element and condition lazily: if it refers to a variable that the loop re-binds
    (the loop target or a local assigned in the body) and outlives the iteration (stored in an object, yielded, appended), it will later see the value
    of the *last* iteration. Only the first iterable of a generator expression is evaluated on the spot."""
    out = []
    n_gen = 0
    for f in ctx.prog.funcs.values():
        if f.module.name not in modules:
            continue
        pm = ctx.parents(f)
        for g in body_nodes(f):
            if not isinstance(g, ast.GeneratorExp):
                continue
            # enclosing loop (of this function)
            loop = None
            cur = pm.get(id(g))
            while cur is not None and cur is not f.node:
                if isinstance(cur, (ast.For, ast.While)):
                    loop = cur
                    break
                cur = pm.get(id(cur))
            if loop is None:
                continue
            n_gen += 1
            rebound = set()
            if isinstance(loop, ast.For):
                rebound |= set(common.target_names(loop.target))
            for st in loop.body:
                for x in walk_no_nested(st):
                    if isinstance(x, ast.Name) and isinstance(x.ctx, ast.Store):
                        rebound.add(x.id)
            own = {t for c in g.generators for t in common.target_names(c.target)}
            lazy_parts = [g.elt] + [i for c in g.generators for i in c.ifs] + [c.iter for c in g.generators[1:]]
            lazy_names = {x.id for p in lazy_parts for x in ast.walk(p) if isinstance(x, ast.Name)} - own
            captured = sorted(lazy_names & rebound)
            if not captured:
                continue
            par = pm.get(id(g))
            k = f"{f.qual}|late-binding|{'/'.join(captured)}"
            # consumed on the spot?
            if isinstance(par, ast.Call) and g in par.args and (
                    (isinstance(par.func, ast.Name) and par.func.id in _EAGER) or (isinstance(par.func, ast.Attribute) and par.func.attr in ("join", "extend", "update", "union", "intersection", "difference", "issubset", "issuperset"))):
                out.append(ctx.ok(R, f, g, f"generator expression over {captured} is consumed on the spot by {canon(par.func)}()", construct=k, nontrivial=False))
                continue
            if isinstance(par, (ast.For, ast.comprehension)) and getattr(par, "iter", None) is g:
                out.append(ctx.ok(R, f, g, "generator expression is iterated on the spot", construct=k, nontrivial=False))
                continue
            escapes = None
            if isinstance(par, ast.Assign) and len(par.targets) == 1 and isinstance(par.targets[0], ast.Name):
                nm = par.targets[0].id
                for st in loop.body:
                    for x in walk_no_nested(st):
                        if isinstance(x, ast.Name) and x.id == nm and isinstance(x.ctx, ast.Load):
                            up = pm.get(id(x))
                            if isinstance(up, ast.Call) and x in up.args and ((isinstance(up.func, ast.Name) and up.func.id in _EAGER) or (isinstance(up.func, ast.Attribute) and up.func.attr in ("join",))):
                                continue
                            if isinstance(up, (ast.For, ast.comprehension)) and getattr(up, "iter", None) is x:
                                continue
                            escapes = up
            elif isinstance(par, (ast.Call, ast.Yield, ast.Return, ast.Tuple, ast.List, ast.Dict, ast.keyword)):
                escapes = par
            if escapes is not None:
                out.append(ctx.viol(R, f, g, f"the generator expression `{canon(g)[:60]}` is built in a loop and refers to {captured}, which the loop re-binds; it is handed on "
                                    f"({type(escapes).__name__.lower()}: {canon(escapes)[:40]}) instead of being consumed in the same iteration, so whoever runs it later (e.g. a caller that "
                                    "collects all items first) evaluates it with the values of the last iteration", construct=k))
            else:
                out.append(ctx.ok(R, f, g, f"generator expression over {captured} does not leave the iteration", construct=k, nontrivial=False))
    # closures created per element of a comprehension: a lambda / nested function in the element that refers to the comprehension variable sees the value the
    # variable has when it is *called*; a list of such closures, or a generator of them that is drained ahead of their execution (thread pool imap / map, list()),
    # runs every closure with a later element
    for f in ctx.prog.funcs.values():
        if f.module.name not in modules:
            continue
        pm = ctx.parents(f)
        for comp in body_nodes(f):
            if not isinstance(comp, (ast.GeneratorExp, ast.ListComp, ast.SetComp)):
                continue
            tv = {t for c in comp.generators for t in common.target_names(c.target)}
            lams = [x for x in ast.walk(comp.elt) if isinstance(x, ast.Lambda)]
            cap = []
            for lam in lams:
                bound = {a.arg for a in lam.args.args + lam.args.kwonlyargs}
                used = {x.id for x in ast.walk(lam.body) if isinstance(x, ast.Name)} - bound
                if used & tv:
                    cap.append((lam, sorted(used & tv)))
            if not cap:
                continue
            n_gen += 1
            k = f"{f.qual}|closure-per-element|{'/'.join(cap[0][1])}"
            drained = isinstance(comp, (ast.ListComp, ast.SetComp))
            how = "the list is built completely before any closure runs"
            if not drained:
                # where does the generator go?
                par = pm.get(id(comp))
                names = set()
                if isinstance(par, ast.Assign):
                    names = {t.id for t in par.targets if isinstance(t, ast.Name)}
                for c in body_nodes(f):
                    if isinstance(c, ast.Call) and isinstance(c.func, ast.Attribute) and c.func.attr in ("imap", "imap_unordered", "map", "map_async", "starmap", "apply_async", "submit") \
                            and any((isinstance(a, ast.Name) and a.id in names) or a is comp for a in c.args):
                        drained, how = True, f"{canon(c.func)}() takes the tasks from the generator ahead of (and in another thread than) their execution"
                    if isinstance(c, ast.Call) and isinstance(c.func, ast.Name) and c.func.id in ("list", "tuple", "sorted") and any((isinstance(a, ast.Name) and a.id in names) or a is comp for a in c.args):
                        drained, how = True, f"{c.func.id}() materialises the closures before they run"
            if drained:
                out.append(ctx.viol(R, f, cap[0][0], f"`{canon(cap[0][0])[:60]}` is created per element and refers to the comprehension variable {cap[0][1]} when it is called, not when it is "
                                    f"created; {how}: several closures then run with the same (later) element - some elements are processed twice, others never", construct=k))
            else:
                out.append(ctx.ok(R, f, cap[0][0], "closures created per element are run one at a time as the generator is consumed", construct=k, nontrivial=False))
    if not any(r.status != "OK" for r in out):
        out = [ctx.ok(R, None, None, f"{n_gen} generator expression(s) inside loops: none that captures a re-bound loop variable outlives its iteration",
                      construct="|".join(modules) + "|late-binding", nontrivial=False)]
    return out


def no_glob_enumeration(ctx, R, modules, why):
    """Files of a job are enumerated completely (os.walk / os.listdir / os.scandir): shell-style patterns (`*`, `**`) do not match names that start
    with a dot unless include_hidden=True is given, so glob-based enumeration silently leaves out hidden files and directories."""
    out = []
    hits = 0
    for f in ctx.prog.funcs.values():
        if f.module.name not in modules:
            continue
        for c in body_nodes(f):
            if not isinstance(c, ast.Call):
                continue
            e = common.ext_name(ctx, f, c) or ""
            attr = c.func.attr if isinstance(c.func, ast.Attribute) else ""
            if e in ("glob.glob", "glob.iglob") or (attr in ("glob", "rglob") and not e.startswith("glob.")):
                ih = kwarg(c, "include_hidden")
                if ih is not None and ctx.fold(ih, f) is True:
                    continue
                pat = c.args[0] if c.args else None
                txt = canon(common.inline_at(ctx, f, pat, c)) if pat is not None else ""
                if "*" in txt or attr in ("rglob",):
                    hits += 1
                    out.append(ctx.viol(R, f, c, f"files are enumerated with the pattern {txt[:50]}: `*` / `**` skip names that start with a dot (include_hidden defaults to False), "
                                        f"so hidden files and everything below hidden directories are left out - {why}", construct=f"{f.qual}|glob-enumeration"))
    if not hits:
        out.append(ctx.ok(R, None, None, "no glob-pattern enumeration of job files (os.walk / listdir enumerate hidden entries too)", construct="|".join(modules) + "|glob-enumeration",
                          nontrivial=False))
    return out


def no_stamp_validated_cache(ctx, R, modules, why):
    """Content read from a file is not served from a cache whose freshness is judged by the file's time stamp / size: a rewrite of equal length within the
    time stamp granularity (coarse file systems, tools that preserve mtimes) leaves the stamp unchanged."""
    out = []
    hits = 0
    for f in ctx.prog.funcs.values():
        if f.module.name not in modules:
            continue
        stamps = [c for c in body_nodes(f) if (isinstance(c, ast.Call) and (common.ext_name(ctx, f, c) in ("os.stat", "os.fstat", "os.lstat", "os.path.getmtime", "os.path.getsize")))
                  or (isinstance(c, ast.Attribute) and c.attr in ("st_mtime", "st_mtime_ns", "st_size", "st_ctime", "st_ctime_ns"))]
        if not stamps:
            continue
        # containers that persist across calls: attributes of self / module-level names
        mod_names = set(f.module.consts)
        lookups = []
        for c in body_nodes(f):
            base = None
            if isinstance(c, ast.Call) and isinstance(c.func, ast.Attribute) and c.func.attr in ("get", "pop", "setdefault"):
                base = c.func.value
            elif isinstance(c, ast.Subscript) and isinstance(c.ctx, ast.Load):
                base = c.value
            if base is None:
                continue
            if (isinstance(base, ast.Attribute) and isinstance(base.value, ast.Name) and base.value.id in ("self", "cls")) or (isinstance(base, ast.Name) and base.id in mod_names):
                lookups.append((c, canon(base)))
        stores = {canon(t.value) for n in body_nodes(f) if isinstance(n, ast.Assign) for t in n.targets if isinstance(t, ast.Subscript)}
        cached = [(c, b) for (c, b) in lookups if b in stores]
        if not cached:
            continue
        stamp_names = set()
        for n in body_nodes(f):
            if isinstance(n, ast.Assign) and any(any(s is x for x in ast.walk(n.value)) for s in stamps):
                stamp_names |= {t.id for t in n.targets if isinstance(t, ast.Name)}
        cmp = [n for n in body_nodes(f) if isinstance(n, ast.Compare) and len(n.ops) == 1 and isinstance(n.ops[0], (ast.Eq, ast.NotEq, ast.LtE, ast.GtE, ast.Lt, ast.Gt))
               and (names_in(n) & stamp_names or any(any(s is x for x in ast.walk(n)) for s in stamps))]
        if cmp:
            hits += 1
            out.append(ctx.viol(R, f, cmp[0], f"{f.name} serves content from the cache {cached[0][1]} as long as `{canon(cmp[0])[:50]}` says the file is unchanged: a file rewritten with the "
                                f"same length within the time stamp granularity keeps its stamp - {why}", construct=f"{f.qual}|stamp-validated-cache"))
    if not hits:
        out.append(ctx.ok(R, None, None, "no cache of file content validated by time stamp / size", construct="|".join(modules) + "|stamp-validated-cache", nontrivial=False))
    return out


def one_shot_locals(ctx, R, modules):
    """A local bound to a one-shot iterator - a generator expression, map()/filter()/zip(), or a call of a generator function of the package - is consumed
    once: a membership test `x in it` advances the iterator up to the first match (and to the end when there is none), so asking it again - in the next
    loop iteration, in a second test, in a second loop - answers from what is left. One aggregated instance per module."""
    out = []
    for mq in modules:
        hit = None
        n_locals = 0
        for fi in ctx.prog.functions_of_module(mq):
            pm = None
            for a in body_nodes(fi):
                if not (isinstance(a, ast.Assign) and len(a.targets) == 1 and isinstance(a.targets[0], ast.Name)):
                    continue
                v = a.value
                one_shot = isinstance(v, ast.GeneratorExp) or (isinstance(v, ast.Call) and isinstance(v.func, ast.Name) and v.func.id in ("map", "filter", "zip", "iter")
                                                                 and not (v.func.id == "iter" and len(v.args) != 1))
                if not one_shot and isinstance(v, ast.Call):
                    for g in common.targets_of_funcs(ctx, fi, v):
                        if any(isinstance(x, (ast.Yield, ast.YieldFrom)) for st in g.node.body for x in walk_no_nested(st)) and not g.node.decorator_list:
                            one_shot = True
                if not one_shot:
                    continue
                nm = a.targets[0].id
                # other bindings of the name in the function make the picture unclear: only names bound once
                if sum(1 for x in body_nodes(fi) if isinstance(x, ast.Name) and x.id == nm and isinstance(x.ctx, ast.Store)) != 1:
                    continue
                n_locals += 1
                pm = pm or ctx.parents(fi)
                uses = []
                for x in body_nodes(fi):
                    if isinstance(x, ast.Name) and x.id == nm and isinstance(x.ctx, ast.Load):
                        par = pm.get(id(x))
                        in_loop = False
                        cur = par
                        while cur is not None and cur is not fi.node:
                            if isinstance(cur, (ast.For, ast.While)) and not (isinstance(cur, ast.For) and cur.iter is x):
                                in_loop = True
                            if isinstance(cur, (ast.ListComp, ast.SetComp, ast.DictComp, ast.GeneratorExp)) and not any(g.iter is x for g in cur.generators[:1]):
                                in_loop = True
                            cur = pm.get(id(cur))
                        member = isinstance(par, ast.Compare) and any(isinstance(o, (ast.In, ast.NotIn)) for o in par.ops) and any(c is x for c in par.comparators)
                        uses.append((x, member, in_loop))
                consuming = [u for u in uses]
                bad = None
                if any(m and lp for (_x, m, lp) in uses):
                    bad = [x for (x, m, lp) in uses if m and lp][0]
                elif len(consuming) >= 2 and any(m for (_x, m, _lp) in uses):
                    bad = [x for (x, m, _lp) in uses if m][0]
                if bad is not None and hit is None:
                    hit = (fi, bad, nm, canon(v)[:50])
        k = f"{mq}|one-shot-locals"
        if hit:
            fi, node, nm, src = hit
            out.append(ctx.viol(R, fi, node, f"`{nm}` is a one-shot iterator ({src}) but is asked `... in {nm}` repeatedly: each membership test consumes it up to the first match (or to the "
                                "end), so later tests miss elements that were passed by - the answer depends on the order of the questions", construct=k))
        else:
            out.append(ctx.ok(R, None, None, f"{mq}: no local one-shot iterator is used for repeated membership tests ({n_locals} one-shot local(s))", construct=k, nontrivial=False))
    return out


def no_pairwise_zip_of_slices(ctx, R, modules):
    """`zip(seq[0::2], seq[1::2])` pairs the elements of a sequence and silently drops the last one when the length is odd. Where an odd last element has a meaning
    of its own (a key-only token of the simple filter syntax means `$exists`), pairing must keep it (index loop, zip_longest). One aggregated instance per module."""
    out = []
    for mq in modules:
        hit = None
        for fi in ctx.prog.functions_of_module(mq):
            for c in body_nodes(fi):
                if isinstance(c, ast.Call) and isinstance(c.func, ast.Name) and c.func.id == "zip" and len(c.args) == 2 and not any(k.arg == "strict" for k in c.keywords):
                    a, b = c.args
                    if isinstance(a, ast.Subscript) and isinstance(b, ast.Subscript) and isinstance(a.slice, ast.Slice) and isinstance(b.slice, ast.Slice) \
                            and canon(a.value) == canon(b.value) and canon(a.slice.step or ast.Constant(value=1)) == canon(b.slice.step or ast.Constant(value=1)) \
                            and canon(a.slice.step or ast.Constant(value=1)) != "1" and canon(a.slice.lower or ast.Constant(value=0)) != canon(b.slice.lower or ast.Constant(value=0)):
                        hit = hit or (fi, c)
        k = f"{mq}|pairwise-zip"
        if hit:
            fi, c = hit
            out.append(ctx.viol(R, fi, c, f"`{canon(c)[:60]}` pairs the elements and drops the last one of an odd-length sequence: a trailing key-only token ('a 1 b' = a is 1 and b exists) "
                                "is silently ignored, so the simple syntax selects a superset of what the equivalent mapping selects", construct=k))
        else:
            out.append(ctx.ok(R, None, None, f"{mq}: no pairing of a sequence by zip of two strided slices", construct=k, nontrivial=False))
    return out
