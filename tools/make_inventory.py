#!/venv/bin/python
"""Freeze the names of all functions of the reference tree (/repo HEAD working tree) into sigstat/baseline_functions.json.
New functions (not in this inventory) are treated as freshly extracted helpers and expanded into their callers at load time (sigstat/inline.py)."""
import ast, json, os, sys
sys.path.insert(0, os.path.dirname(os.path.dirname(os.path.abspath(__file__))))
from sigstat.inline import enumerate_defs, module_globals, INVENTORY
repo = sys.argv[1] if len(sys.argv) > 1 else "/repo"
funcs = []
globs = []
pkg = os.path.join(repo, "signac")
for dp, dn, fns in os.walk(pkg):
    dn[:] = sorted(d for d in dn if d not in ("_vendor", "__pycache__"))
    for fn in sorted(fns):
        if fn.endswith(".py"):
            full = os.path.join(dp, fn)
            rel = os.path.relpath(full, repo)
            mod = rel[:-3].replace(os.sep, ".")
            if mod.endswith(".__init__"):
                mod = mod[:-9]
            tree = ast.parse(open(full).read())
            funcs += [d.qual for d in enumerate_defs(mod, tree)]
            globs += module_globals(mod, tree)
json.dump({"comment": "function inventory of the reference tree; see sigstat/inline.py", "functions": sorted(set(funcs)), "globals": sorted(set(globs))}, open(INVENTORY, "w"), indent=0)
print(len(set(funcs)), "functions")
