"""C02 - initialised jobs persist and reopen exactly; opening is lazy."""
import ast
import re

from ..engine import rule, Ctx
from ..core import UNKNOWN, dotted, kwarg, body_nodes, inline, stmt_key, canon, walk_no_nested
from . import common
from .c01 import c01_d

PROP = "C02"
FLOOR = 9
EXPLANATION = (
    "Decided (structural necessary conditions): (a) the call closure of Project.open_job and Job.__init__ (including "
    "property getters on typed receivers) contains no mutating file-system primitive and no document mutation: opening "
    "writes nothing; (b) in _StatePointDict.save every path to the write carries 'force' or a negative existence test of "
    "the state point file (save-if-absent), or the write is an exclusive create; (c) in Job.init the state point is saved "
    "only inside the handler of a failed validating load, every normal path after the save passes a second validating "
    "load before returning, the cache registration receives what load returned, and an early return without validation "
    "is only possible under validate_statepoint=False; (d) the mapping passed to open_job is deep-copied (C01-d); (e) a "
    "handle with directory_known=True is only constructed by open_job(id=...) on paths that established existence through "
    "the directory listing or _contains_job_id."
    ' Also: candidates for an abbreviated id are exactly the listed ids with that prefix (comprehension form, or a bisection range whose bounds are decided), and no mutable object bound in a class body is modified through an instance (C08-e).'
    ' The listing does not treat symbolic links differently from the membership test; the directory test establishes a job only for a full-length id.'
    " (j) `_directory_known` is asserted only where the existence of the directory was established - the constructor takes it from its caller, init() sets it after its test / creation, every other write clears it or sits behind the success of the operation that created the directory (C02-j); (k) the command line keeps 'unknown id' (KeyError) apart from 'ambiguous prefix' (LookupError) by exception type (C02-k)."
)
UNDECIDED = ("Type-exact round trip through the file, prefix resolution for every collision pattern and the KeyError / "
             "LookupError choice for every id are value-level and not decided.")

OPEN = "signac.project:Project.open_job"
JINIT = "signac.job:Job.__init__"
SAVE = "signac.job:_StatePointDict.save"
LOAD = "signac.job:_StatePointDict.load"
INIT = "signac.job:Job.init"


@rule("C02-a")
def c02_a(ctx: Ctx):
    """open_job / Job.__init__ write nothing: no mutating primitive in their call closure."""
    R = "C02-a"
    out = []
    for rootq in (OPEN, JINIT):
        root = ctx.fn(rootq)
        eff, cl = ctx.effects.transitive([root])
        bad = [e for e in eff if e.kind in common.MUTATING_KINDS]
        unk = [e for e in eff if e.kind == "unknown-open"]
        for e in bad:
            chain = common.call_chain(ctx, root, e.fi.qual) or [rootq, "...", e.fi.qual]
            out.append(ctx.viol(R, e.fi, e.node, f"{rootq.split(':')[-1]} can reach {e.prim} ({e.kind}) via {' -> '.join(c.split(':')[-1] for c in chain)}: opening a job must not write",
                                construct=f"{rootq}|{e.fi.qual}|{e.prim}", witness=chain))
        for e in unk:
            out.append(ctx.inc(R, e.fi, e.node, f"file opened with a non-constant mode in the closure of {rootq}"))
        if not bad and not unk:
            out.append(ctx.ok(R, root, root.node, f"call closure of {rootq.split(':')[-1]} ({len(cl)} functions, {len(eff)} effects) contains no mutating primitive",
                              construct=rootq + "|closure"))
        # opening by state point has no persistent side effect through the state point cache either:
        # an entry for a job that was never initialised would be written out by update_cache() and make open_job(id=...) succeed later
        for f in (root,):
            stores = [n for n in body_nodes(f) if (isinstance(n, ast.Assign) and any(isinstance(t, ast.Subscript) and canon(t.value).endswith("._sp_cache") for t in n.targets))
                      or (isinstance(n, ast.Call) and isinstance(n.func, ast.Attribute) and n.func.attr in ("_register", "setdefault") and ("_sp_cache" in canon(n.func.value) or n.func.attr == "_register"))]
            k = rootq + "|no-cache-registration"
            if stores:
                out.append(ctx.viol(R, f, stores[0], f"{rootq.split(':')[-1]} records the opened state point in the project's state point cache ({stmt_key(stores[0], 40)}) although nothing was "
                                    "initialised: the id of a job that does not exist can reach the persistent cache and open_job(id=...) then returns a handle instead of raising KeyError", construct=k))
            else:
                out.append(ctx.ok(R, f, f.node, "no state point is registered in the cache before the job is initialised", construct=k, nontrivial=False))
    return out


def _absent_or_force(atom_text, pol, force_params, fn_exprs):
    t = atom_text.replace(" ", "")
    if pol and t in force_params:
        return True
    if not pol:
        m = re.fullmatch(r"os\.path\.(isfile|exists|lexists)\((.+)\)", t)
        if m and m.group(2) in fn_exprs:
            return True
    return False


def _fact_ok(text, pol, force_params, fn_exprs):
    if _absent_or_force(text, pol, force_params, fn_exprs):
        return True
    if pol:
        try:
            e = ast.parse(text, mode="eval").body
        except SyntaxError:
            return False
        if isinstance(e, ast.BoolOp) and isinstance(e.op, ast.Or):
            from ..cfg import cond_atoms
            ok = True
            for v in e.values:
                atoms = cond_atoms(v, True)
                if not (len(atoms) == 1 and _absent_or_force(atoms[0][0], atoms[0][1], force_params, fn_exprs)):
                    ok = False
            return ok
    return False


@rule("C02-b")
def c02_b(ctx: Ctx):
    """_StatePointDict.save writes only if forced or the file is absent."""
    R = "C02-b"
    fi = ctx.fn(SAVE)
    out = []
    cfg = ctx.cfg(fi)
    writes = []
    for n in body_nodes(fi):
        if isinstance(n, ast.Call):
            tg, ext = ctx.calls.resolve_call(fi, n)
            if isinstance(n.func, ast.Attribute) and n.func.attr in ("_save", "_save_to_resource"):
                writes.append((n, "save"))
    for e in ctx.effects.direct(fi):
        if e.kind in ("open-write", "write", "rename"):
            writes.append((e.node, e.prim))
    if not writes:
        return [ctx.inc(R, fi, fi.node, "no write found in _StatePointDict.save")]
    force_params = {p for p in fi.params if p != "self"}
    fn_exprs = {"self.filename", "self._filename"}
    d = fi.default_of("force") if "force" in fi.params else None
    if d is not None:
        v = ctx.fold(d, fi)
        if v is False:
            out.append(ctx.ok(R, fi, fi.node, "force defaults to False", construct=SAVE + "|default"))
        elif v is UNKNOWN:
            out.append(ctx.inc(R, fi, fi.node, "default of force is not a constant", construct=SAVE + "|default"))
        else:
            out.append(ctx.viol(R, fi, fi.node, f"force defaults to {v!r}: init() rewrites valid state point files", construct=SAVE + "|default"))
    for n, what in writes:
        if "(x" in what or what.endswith("x)") or "xb" in what:
            out.append(ctx.ok(R, fi, n, f"{what}: exclusive create cannot overwrite an existing file"))
            continue
        st = ctx.stmt_of(fi, n)
        bad = None
        total = 0
        for nid in cfg.node_ids_for(st):
            paths, trunc = cfg.paths_to(nid)
            if trunc:
                bad = "too many paths"
            for path, facts in paths:
                total += 1
                facts = common.expand_facts(ctx, fi, facts)
                if not any(_fact_ok(t, p, force_params, fn_exprs) for (t, p) in facts):
                    bad = cfg.describe_path(path)
        if bad == "too many paths":
            out.append(ctx.inc(R, fi, n, "path enumeration truncated"))
        elif bad:
            out.append(ctx.viol(R, fi, n, "the state point file can be (re)written on a path that neither has force set nor found the file absent: "
                                "init() would rewrite a valid file", witness=bad))
        else:
            out.append(ctx.ok(R, fi, n, f"all {total} path(s) to the write carry 'force' or a negative existence test of the file"))
    return out


@rule("C02-c")
def c02_c(ctx: Ctx):
    """Job.init saves only after a failed validating load, validates again after saving, registers what load returned."""
    R = "C02-c"
    fi = ctx.fn(INIT)
    out = []
    cfg = ctx.cfg(fi)
    saves = common.stmts_containing_call_to(ctx, fi, quals=(SAVE,))
    loads = common.stmts_containing_call_to(ctx, fi, quals=(LOAD,))
    if not saves or not loads:
        return [ctx.inc(R, fi, fi.node, f"init(): found {len(saves)} save and {len(loads)} load statements")]
    load_ids = common.ids_of(ctx, fi, [s for s, _ in loads])
    pm = ctx.parents(fi)
    for st, call in saves:
        # (i) inside the handler of a try whose body loads
        hs = common.enclosing_handlers(ctx, fi, st)
        ok = False
        for h in hs:
            tr = pm.get(id(h))
            if isinstance(tr, ast.Try) and any(common.in_body_of(ctx, fi, ls, tr, ("body",)) for ls, _ in loads):
                ok = True
        if ok:
            out.append(ctx.ok(R, fi, st, "the state point is saved only inside the handler of a failed validating load"))
        else:
            out.append(ctx.viol(R, fi, st, "the state point is saved without a preceding failed validating load: an existing valid file is not trusted first"))
        # (ii) validate after write
        for sid in cfg.node_ids_for(st):
            w = cfg.must_pass_after(sid, load_ids, exits={cfg.exit}, kinds="n")
            if w is None:
                out.append(ctx.ok(R, fi, st, "every normal path from the save to the return passes a validating load"))
            else:
                out.append(ctx.viol(R, fi, st, "init() can return after saving without re-loading and validating the file: a pre-existing invalid or "
                                    "concurrently written file is accepted", witness=cfg.describe_path(w)))
        # (ii') ... nor fail: once save() came back normally (written, or kept because somebody else's file is there) the verdict is what the re-read says
        raises = {n.id for n in cfg.stmt_nodes() if isinstance(n.ast, ast.Raise)}
        stn = st if not isinstance(st, ast.If) else st
        for sid in cfg.node_ids_for(st):
            starts = [sid]
            w = cfg.path(sid, raises, blocked=set(load_ids), kinds="n", from_successors=not isinstance(st, ast.If))
            if isinstance(st, ast.If):
                # the save call is the test of an `if`: both outcomes continue normally
                w = cfg.path(sid, raises, blocked=set(load_ids), kinds="n", from_successors=True)
            if w is not None:
                out.append(ctx.viol(R, fi, cfg.nodes[w[-1]].ast, "init() can raise after save() returned normally without re-reading the file: when another process wrote a valid state point "
                                    "between the failed load and the save-if-absent, this process keeps that file and then fails with the stale error although the job is initialised",
                                    witness=cfg.describe_path(w), construct=INIT + "|raise-after-save"))
            else:
                out.append(ctx.ok(R, fi, st, "after save() returned normally init() cannot raise before the file was re-read", construct=INIT + "|raise-after-save"))
    # (iii) registration receives load's result and follows a load
    env = ctx.env(fi)
    regs = [n for n in body_nodes(fi) if isinstance(n, ast.Call) and isinstance(n.func, ast.Attribute) and n.func.attr == "_register"]
    load_vars = set()
    for ls, lc in loads:
        if isinstance(ls, ast.Assign) and len(ls.targets) == 1 and isinstance(ls.targets[0], ast.Name) and ls.value is lc:
            load_vars.add(ls.targets[0].id)
    for r in regs:
        if len(r.args) >= 2:
            a = r.args[1]
            if isinstance(a, ast.Name) and a.id in load_vars:
                st = ctx.stmt_of(fi, r)
                w = None
                for rid in cfg.node_ids_for(st):
                    w = w or cfg.must_pass_before(rid, load_ids, kinds="n")
                if w is None:
                    out.append(ctx.ok(R, fi, r, "the cache registration receives the validated value returned by load()"))
                else:
                    out.append(ctx.viol(R, fi, r, "the state point cache can be updated on a path without a validating load", witness=cfg.describe_path(w)))
            else:
                out.append(ctx.viol(R, fi, r, f"the project's state point cache receives {stmt_key(a, 40)}, not the value returned by the validating load()"))
    # (iv) early returns
    for n in cfg.stmt_nodes():
        if isinstance(n.ast, ast.Return):
            w = cfg.must_pass_before(n.id, load_ids, kinds="n")
            if w is None:
                continue
            paths, trunc = cfg.paths_to(n.id, kinds="n")
            bad = None
            for path, facts in paths:
                if any(i in load_ids for i in path):
                    continue
                if ("validate_statepoint", False) not in facts:
                    bad = path
            if bad:
                out.append(ctx.viol(R, fi, n.ast, "init() can return without loading/validating the state point although validate_statepoint is not False",
                                    witness=cfg.describe_path(bad)))
            else:
                out.append(ctx.ok(R, fi, n.ast, "early return without validation only under validate_statepoint=False"))
    d = fi.default_of("validate_statepoint")
    if d is not None:
        v = ctx.fold(d, fi)
        c = INIT + "|default:validate_statepoint"
        if v is True:
            out.append(ctx.ok(R, fi, fi.node, "validate_statepoint defaults to True", construct=c))
        elif v is UNKNOWN:
            out.append(ctx.inc(R, fi, fi.node, "default of validate_statepoint not constant", construct=c))
        else:
            out.append(ctx.viol(R, fi, fi.node, f"validate_statepoint defaults to {v!r}: init() no longer validates existing files", construct=c))
    return out


@rule("C02-d")
def c02_d(ctx: Ctx):
    """The caller's mapping is deep-copied at open_job (same obligation as C01-d)."""
    res = c01_d(ctx)
    for r in res:
        r.rule = "C02-d"
    return res


def _single_unpack(t, name):
    return isinstance(t, (ast.Tuple, ast.List)) and len(t.elts) == 1 and isinstance(t.elts[0], ast.Name) and t.elts[0].id == name


@rule("C02-e")
def c02_e(ctx: Ctx):
    """open_job(id=...) hands out a directory_known handle only after existence was established from the directory."""
    R = "C02-e"
    fi = ctx.fn(OPEN)
    out = []
    cfg = ctx.cfg(fi)
    idp = "id" if "id" in fi.params else None
    if not idp:
        return [ctx.inc(R, fi, fi.node, "open_job has no 'id' parameter")]
    for n in cfg.stmt_nodes():
        if not isinstance(n.ast, ast.Return) or n.ast.value is None:
            continue
        v = n.ast.value
        if not (isinstance(v, ast.Call) and JINIT in common.targets_of(ctx, fi, v)):
            continue
        dk = kwarg(v, "directory_known")
        if dk is None or ctx.fold(dk, fi) is not True:
            continue
        paths, trunc = cfg.paths_to(n.id, kinds="nx")
        if trunc:
            out.append(ctx.inc(R, fi, n.ast, "path enumeration truncated"))
            continue
        bad = None
        # the variable that becomes the handle's id (id_=<name>); along a path it may be a copy of the parameter (`full_id = id`)
        idarg = kwarg(v, "id_")
        idv = idarg.id if isinstance(idarg, ast.Name) else idp
        for path, facts in paths:
            facts = common.expand_facts(ctx, fi, facts)
            names = {idv}
            for i in reversed(path):
                a = cfg.nodes[i].ast
                if isinstance(a, ast.Assign) and isinstance(a.value, ast.Name) and any(isinstance(t, ast.Name) and t.id in names for t in a.targets):
                    names.add(a.value.id)
            established = any(t.replace(" ", "") == f"self._contains_job_id({nm})" and p for (t, p) in facts for nm in names)
            from_listing = False
            for i in path:
                a = cfg.nodes[i].ast
                if isinstance(a, ast.Assign) and any(isinstance(t, ast.Name) and t.id in names for t in a.targets) and isinstance(a.value, ast.Subscript):
                    from_listing = True
                if isinstance(a, ast.Assign) and any(_single_unpack(t, nm) for t in a.targets for nm in names) and isinstance(a.value, ast.Name):
                    from_listing = True
            if established and not from_listing:
                # the directory test only means "this job exists" for a full-length id: a shorter string ('', '.', '..', 'notes') may name something else below the workspace
                full = any((t.replace(" ", "") in (f"len({nm})<JOB_ID_LENGTH",) and not p) or (t.replace(" ", "") in (f"len({nm})>=JOB_ID_LENGTH", f"len({nm})==JOB_ID_LENGTH") and p)
                           for (t, p) in facts for nm in names)
                if not full:
                    short = path
                    out.append(ctx.viol(R, fi, n.ast, "open_job(id=...) accepts an id that is shorter than a full id because something of that name exists below the workspace (the existence "
                                        "test is reached by an abbreviation that matched no job): '', '.', '..' or a stray entry such as workspace/notes yield a Job handle whose path is "
                                        "that location instead of KeyError", witness=cfg.describe_path(short), construct=OPEN + "|exists-only-for-full-ids"))
            if not established:
                for i in path:
                    a = cfg.nodes[i].ast
                    if isinstance(a, ast.Assign) and any(isinstance(t, ast.Name) and t.id in names for t in a.targets) \
                            and isinstance(a.value, ast.Subscript):
                        established = True  # id = matches[0] : taken from the directory listing
                    if isinstance(a, ast.Assign) and any(_single_unpack(t, nm) for t in a.targets for nm in names) and isinstance(a.value, ast.Name):
                        established = True  # (id,) = matches : the only element of the listing matches
            if not established:
                bad = path
        if bad:
            out.append(ctx.viol(R, fi, n.ast, "open_job(id=...) can return a handle marked directory_known=True without having found the id in the workspace "
                                "(neither _contains_job_id nor a match from the listing): an unknown id does not raise KeyError",
                                witness=cfg.describe_path(bad)))
        else:
            out.append(ctx.ok(R, fi, n.ast, f"all {len(paths)} path(s) to the directory_known handle establish existence first"))
    if not out:
        out.append(ctx.inc(R, fi, fi.node, "no Job(..., directory_known=True) return found in open_job"))
    # abbreviated ids: a unique match is taken, several matches raise LookupError, none raises KeyError
    idlen0 = ctx.fold(ast.Name(id="JOB_ID_LENGTH", ctx=ast.Load()), fi)
    for tnode in [n for n in body_nodes(fi) if isinstance(n, ast.Compare) and len(n.ops) == 1 and common.pmatch("len(X) < N", n) is not None]:
        b = common.pmatch("len(X) < N", tnode)
        if canon(b["X"]) != idp:
            continue
        nv = ctx.fold(b["N"], fi)
        kt = OPEN + "|abbreviation-threshold" if "OPEN" in globals() else fi.qual + "|abbreviation-threshold"
        if isinstance(nv, int) and isinstance(idlen0, int) and nv != idlen0:
            out.append(ctx.viol(R, fi, tnode, f"ids shorter than {nv} characters are treated as abbreviations, but ids have {idlen0}: a unique prefix of {nv}..{idlen0 - 1} characters is taken for a "
                                "full id and raises KeyError instead of resolving", construct=kt))
        elif isinstance(nv, int):
            out.append(ctx.ok(R, fi, tnode, f"every id shorter than JOB_ID_LENGTH = {idlen0} is resolved as an abbreviation", construct=kt))
        else:
            out.append(ctx.inc(R, fi, tnode, f"abbreviation threshold {canon(b['N'])} does not fold", construct=kt))
    colls = set()
    idnames = {idp}
    for c in body_nodes(fi):
        if isinstance(c, ast.Call) and JINIT in common.targets_of(ctx, fi, c) and isinstance(kwarg(c, "id_"), ast.Name):
            idnames.add(kwarg(c, "id_").id)
    for n in cfg.stmt_nodes():
        a = n.ast
        unpack = isinstance(a, ast.Assign) and any(_single_unpack(t, nm) for t in a.targets for nm in idnames) and isinstance(a.value, ast.Name)
        if unpack:
            colls.add(canon(a.value))
            out.append(ctx.ok(R, fi, a, f"an abbreviated id is resolved by unpacking the single element of {canon(a.value)} (any other number of matches raises)"))
        if isinstance(a, ast.Assign) and any(isinstance(t, ast.Name) and t.id in idnames for t in a.targets) and isinstance(a.value, ast.Subscript):
            facts = common.expand_facts(ctx, fi, common.facts_at(ctx, fi, a, "nx"))
            coll = canon(a.value.value)
            colls.add(coll)
            if common.len_range(facts, coll) == (1, 1):
                out.append(ctx.ok(R, fi, a, f"an abbreviated id is resolved only when exactly one listed id matches (len({coll}) == 1)"))
            else:
                out.append(ctx.viol(R, fi, a, f"an abbreviated id is resolved to {canon(a.value)} without establishing that exactly one id matches (facts: {sorted(facts)}): "
                                    "an ambiguous prefix silently opens one of the candidates instead of raising LookupError"))
        if isinstance(a, ast.Raise) and a.exc is not None:
            nm = dotted(a.exc.func if isinstance(a.exc, ast.Call) else a.exc)
            if nm == "LookupError":
                facts = common.facts_at(ctx, fi, a, "nx")
                if any(pol and t.replace(" ", "").startswith("len(") and t.replace(" ", "").endswith(">1") for (t, pol) in facts):
                    out.append(ctx.ok(R, fi, a, "LookupError is raised when more than one listed id matches the abbreviation"))
                else:
                    out.append(ctx.viol(R, fi, a, f"LookupError is raised under {sorted(facts)}, not when several ids match"))
    matches = [n for n in body_nodes(fi) if isinstance(n, ast.Assign) and any(isinstance(t, ast.Name) and t.id in colls for t in n.targets)]
    for mdef in matches:
        v = mdef.value
        if isinstance(v, ast.ListComp) and v.generators:
            cond = " and ".join(canon(c) for c in v.generators[0].ifs).replace(" ", "")
            src = common.inline_at(ctx, fi, v.generators[0].iter, mdef)
            listed = any(isinstance(x, ast.Call) and any(q.endswith(("_find_job_ids", "_job_dirs")) for q in common.targets_of(ctx, fi, x)) for x in ast.walk(src))
            ev = canon(v.generators[0].target)
            if cond == f"{ev}.startswith({idp})" and canon(v.elt) == ev and listed:
                out.append(ctx.ok(R, fi, mdef, "candidates are the listed ids that start with the abbreviation"))
            elif not listed:
                out.append(ctx.viol(R, fi, mdef, f"candidates for an abbreviated id are taken from {canon(v.generators[0].iter)}, not from the directory listing"))
            else:
                out.append(ctx.viol(R, fi, mdef, f"candidates are selected by `{cond}`, not by `id_.startswith({idp})`: an abbreviation matches ids it is not a prefix of"))
        elif isinstance(v, ast.Subscript) and isinstance(v.slice, ast.Slice) and v.slice.lower is not None and v.slice.upper is not None:
            # a range of the sorted listing found by bisection: [bisect_left(L, p), <upper>) must contain every id that starts with p
            lo = common.inline_at(ctx, fi, v.slice.lower, mdef)
            hi = common.inline_at(ctx, fi, v.slice.upper, mdef)
            blo = common.pmatch("bisect_left(L, P)", lo) or common.pmatch("bisect.bisect_left(L, P)", lo)
            bhi_l = common.pmatch("bisect_left(L, P + C * K)", hi) or common.pmatch("bisect.bisect_left(L, P + C * K)", hi)
            bhi_r = common.pmatch("bisect_right(L, P + C * K)", hi) or common.pmatch("bisect.bisect_right(L, P + C * K)", hi) or common.pmatch("bisect(L, P + C * K)", hi)
            src = common.inline_at(ctx, fi, v.value, mdef)
            is_sorted = isinstance(src, ast.Call) and isinstance(src.func, ast.Name) and src.func.id == "sorted"
            if blo and (bhi_l or bhi_r) and is_sorted and canon(blo["P"]) == idp:
                b = bhi_l or bhi_r
                pad = ctx.fold(b["C"], fi)
                if bhi_l and isinstance(pad, str) and pad <= "f":
                    out.append(ctx.viol(R, fi, mdef, f"the candidates are the sorted ids in [bisect_left(p), bisect_left(p + {pad!r}*k)): the upper key is itself a possible id (all remaining digits "
                                        f"{pad!r}) and bisect_left excludes it, so the abbreviation of an id that ends in {pad!r}s raises KeyError instead of resolving"))
                elif (bhi_r and isinstance(pad, str) and pad >= "f") or (bhi_l and isinstance(pad, str) and pad > "f"):
                    out.append(ctx.ok(R, fi, mdef, "candidates are the sorted listed ids between the prefix and an upper key above every id with that prefix"))
                else:
                    out.append(ctx.inc(R, fi, mdef, f"bisection bounds not decided: {canon(hi)[:60]}"))
            else:
                out.append(ctx.inc(R, fi, mdef, f"candidates for an abbreviated id are computed as {canon(v)[:50]}: cannot show that exactly the listed ids with that prefix are considered"))
        else:
            out.append(ctx.inc(R, fi, mdef, f"candidates for an abbreviated id are computed as {canon(v)[:50]}: not the recognised `[i for i in <listing> if i.startswith({idp})]`, "
                               "cannot show that exactly the listed ids with that prefix are considered"))
    if colls and not matches:
        out.append(ctx.inc(R, fi, fi.node, "definition of the candidate list for abbreviated ids not found"))
    return out


@rule("C02-f")
def c02_f(ctx: Ctx):
    """Id / prefix resolution uses the directory listing, never an enumeration of the state point cache (same obligation as C08-a)."""
    from .c08 import c08_a, c08_e
    from .c03 import c03_h
    res = c08_a(ctx) + c08_e(ctx) + c03_h(ctx)
    for r in res:
        r.rule = "C02-f"
    return res


SENTINELS_C02 = [
    ("signac.job:Job.statepoint", "self._cached_statepoint", "the empty state point {} is a valid state point; treated as 'unknown' it is (re)loaded from a file that does not exist and init() fails"),
    ("signac.job:Job.cached_statepoint", "self._cached_statepoint", "the empty state point {} is valid; treated as 'unknown' it triggers a workspace look-up that raises KeyError for an uninitialised job"),
    ("signac.job:Job.__init__", "statepoint", "open_job({}) must open the job of the empty state point, not raise 'Either statepoint or id_ must be provided'"),
    ("signac.job:Job.__init__", "id_", "an id is 'not given' only if it is None"),
    ("signac.project:Project.open_job", "statepoint", "open_job({}) must open the job of the empty state point"),
    ("signac.project:Project.open_job", "id", "an id is 'not given' only if it is None"),
]


@rule("C02-g")
def c02_g(ctx: Ctx):
    """None is the only 'not given' sentinel for state points and ids: no truthiness decisions (the empty state point {} is valid)."""
    from .lints import sentinel_discipline
    return sentinel_discipline(ctx, "C02-g", SENTINELS_C02)


@rule("C02-h")
def c02_h(ctx: Ctx):
    """init() is idempotent also when somebody else creates the directory first (C12-a); a failed lazy load is not forgotten (from C09-a)."""
    from .c12 import c12_a
    from .c09 import c09_a
    from .c05 import c05_a
    res = c12_a(ctx) + [r for r in c09_a(ctx) if "flag-after-load" in r.construct] + [r for r in c05_a(ctx) if "abs-path" in r.construct]
    for r in res:
        r.rule = "C02-h"
    return res


@rule("C02-i")
def c02_i(ctx: Ctx):
    """Whole-module cross-checks: no exchanged positional arguments in resolved internal calls; diagnostics (logging / warnings) do no work."""
    from .lints import swapped_arguments, pure_logging, handler_order
    return handler_order(ctx, "C02-i", ["signac.__main__", "signac.project", "signac.job"]) + swapped_arguments(ctx, "C02-i", ['signac.job', 'signac.project']) + pure_logging(ctx, "C02-i", ['signac.job', 'signac.project', 'signac.__main__'])


@rule("C02-j")
def c02_j(ctx: Ctx):
    """The flag `_directory_known` (init(validate_statepoint=False) and the document / stores getters skip creating the job directory when it is set) is
    asserted only where the existence of the directory was established: the constructor takes it from its caller (C02-e), init() sets it after the
    directory test / creation. Every other write in the job module must clear it - or sit behind the success of the operation that created the directory
    (the re-key's rename: `should_init`)."""
    R = "C02-j"
    out = []
    JOBCLS = "signac.job:Job"
    n_sites = 0

    def value_kind(fi, v):
        """'false' | 'true' | ('param', name) | 'other'"""
        f = ctx.fold(v, fi)
        if f is False:
            return "false"
        if f is True:
            return "true"
        if isinstance(v, ast.Name) and v.id in fi.params:
            return ("param", v.id)
        return "other"

    def established(fi, node):
        facts = common.facts_at(ctx, fi, node, "nx")      # also on the paths that come out of exception handlers
        if any(pol and ("should_init" in t.replace(" ", "") and "not" not in t) for (t, pol) in facts):
            return True
        if any(pol and "os.path.isdir(" in t for (t, pol) in facts):
            return True
        return False

    def judge(fi, node, kind, via):
        k = f"{fi.qual}|asserts-directory:{via}"
        if kind == "false":
            out.append(ctx.ok(R, fi, node, "the flag is cleared", construct=k, nontrivial=False))
        elif fi.qual == JOBCLS + ".init":
            out.append(ctx.ok(R, fi, node, "init() sets the flag (after its directory test / creation; ordering decided by C02-b/C02-c)", construct=k))
        elif fi.qual == JOBCLS + ".__init__" and isinstance(kind, tuple):
            out.append(ctx.ok(R, fi, node, "the constructor takes the flag from its caller (decided at open_job: C02-e)", construct=k))
        elif established(fi, node):
            out.append(ctx.ok(R, fi, node, "the flag is set behind the success of the operation that created / found the directory", construct=k))
        else:
            out.append(ctx.viol(R, fi, node, f"`{canon(node)[:70]}` marks the job directory as known to exist ({via}) on a path where nothing established that - e.g. the re-key of a job "
                                "that was never initialised falls through with ENOENT and moves nothing: the document / stores getters then skip init(), the first write "
                                "fails with FileNotFoundError (or BufferedError) and nothing is persisted", construct=k))

    for fi in ctx.prog.functions_of_module("signac.job"):
        for n in body_nodes(fi):
            if isinstance(n, ast.Assign) and any(isinstance(t, ast.Attribute) and t.attr == "_directory_known" for t in n.targets):
                n_sites += 1
                kind = value_kind(fi, n.value)
                if isinstance(kind, tuple) and fi.qual != JOBCLS + ".__init__":
                    # a helper that sets the flag from its parameter: judged at its call sites
                    pname = kind[1]
                    for g in ctx.prog.funcs.values():
                        if g.module.is_dep:
                            continue
                        for c in body_nodes(g):
                            if isinstance(c, ast.Call) and fi.qual in common.targets_of(ctx, g, c):
                                a = common.arg_for_param(fi, c, pname)
                                if a is None:
                                    d = fi.default_of(pname)
                                    a = d
                                if a is None:
                                    out.append(ctx.inc(R, g, c, f"value handed to {fi.name}({pname}=...) not found", construct=f"{g.qual}|asserts-directory:{fi.name}"))
                                    continue
                                judge(g, c, value_kind(g, a), f"{fi.name}({pname}={canon(a)})")
                else:
                    judge(fi, n, kind, "assignment")
    if not n_sites:
        out.append(ctx.inc(R, None, None, "no write of _directory_known found in signac.job"))
    return out


@rule("C02-k")
def c02_k(ctx: Ctx):
    """The command line resolves (abbreviated) ids through Project.open_job(id=...) and keeps its two failures apart by the exception *type*: KeyError (no such job)
    is handled before - and separately from - LookupError (ambiguous prefix); the kind of failure is not re-derived from the length of the id."""
    R = "C02-k"
    f = ctx.prog.funcs.get("signac.__main__:_open_job_by_id")
    k = "signac.__main__:_open_job_by_id|failure-kinds"
    if f is None:
        return [ctx.inc(R, None, None, "_open_job_by_id not found", construct=k)]
    opens = [c for c in body_nodes(f) if isinstance(c, ast.Call) and isinstance(c.func, ast.Attribute) and c.func.attr == "open_job"]
    if not opens:
        return [ctx.inc(R, f, f.node, "no open_job call", construct=k)]
    pm = ctx.parents(f)
    cur = pm.get(id(opens[0]))
    tr = None
    while cur is not None:
        if isinstance(cur, ast.Try):
            tr = cur
            break
        cur = pm.get(id(cur))
    if tr is None:
        return [ctx.inc(R, f, opens[0], "open_job is not inside a try", construct=k)]
    types = []
    for h in tr.handlers:
        ts = [dotted(t) or "" for t in (h.type.elts if isinstance(h.type, ast.Tuple) else [h.type])] if h.type is not None else ["<bare>"]
        types.append(ts)
    first_key = next((i for i, ts in enumerate(types) if ts == ["KeyError"]), None)
    first_lookup = next((i for i, ts in enumerate(types) if any(t in ("LookupError", "Exception", "<bare>", "BaseException") for t in ts)), None)
    # one handler for LookupError that tells the two apart by `isinstance(<error>, KeyError)` is the same discipline
    dispatch = any(isinstance(c, ast.Call) and isinstance(c.func, ast.Name) and c.func.id == "isinstance" and len(c.args) == 2 and "KeyError" in canon(c.args[1])
                   for h in tr.handlers for st in h.body for c in ast.walk(st))
    if dispatch and first_key is None:
        return [ctx.ok(R, f, tr, "the handler tells KeyError (unknown id) from the other LookupErrors by isinstance", construct=k)]
    if first_key is None or (first_lookup is not None and first_lookup < first_key):
        return [ctx.viol(R, f, tr, f"the failures of open_job(id=...) are handled by {types}: 'no job with this id' (KeyError) is not handled on its own before the ambiguity (LookupError), "
                         "so an abbreviated id that matches nothing is reported as ambiguous (or the other way round)", construct=k)]
    return [ctx.ok(R, f, tr, "KeyError (unknown id) is handled before and apart from LookupError (ambiguous prefix)", construct=k)]


RULES = [c02_a, c02_b, c02_c, c02_d, c02_e, c02_f, c02_g, c02_h, c02_i, c02_j, c02_k]
