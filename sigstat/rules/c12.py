"""C12 - concurrent processes initialise jobs and write documents without corruption."""
import ast
import re

from ..engine import rule, Ctx
from ..core import UNKNOWN, dotted, kwarg, body_nodes, inline, stmt_key, canon, walk_no_nested
from ..exc import ExcFacts
from . import common
from .c10 import c10_a, c10_b
from .c02 import c02_b, c02_c

PROP = "C12"
FLOOR = 10
EXPLANATION = (
    "Decided (structural necessary conditions, no interleaving is explored): (a) every directory creation reachable from "
    "Job.init and Project.__init__ tolerates a concurrent creator (os.makedirs(..., exist_ok=True), or os.mkdir inside a "
    "handler for the exists case); (b) the state point file is never created in place: inside signac/job.py it is written "
    "only through the synced_collections writer (which writes a temporary and os.replace()s it when write_concern or the "
    "default thread-support mode is active), no signac code switches that mode off (disable_multithreading) and no code "
    "opens the state point file for writing directly; save-if-absent and validate-after-write hold (C02-b, C02-c); "
    "(c) documents are written atomically (C10-a/b); (d) the job listing does not raise when the workspace directory is "
    "missing or being created."
    ' (e) No caller makes Job.init() conditional on an existence test of the job directory.'
    ' (f) In _StatePointDict.save the clean-up deletion of the state point file is unreachable for EEXIST / EACCES (handler evaluated for abstract error kinds); (g) no signac collection brings its own _save_to_resource staging under a fixed name, and the document accessors write nothing.'
    ' C12-f also decides that EEXIST / EACCES of the state point write are tolerated (not re-raised), following the abstract error through nested try statements, in save() or - when save() was written out - in init(). (h) project-level sync attempts the clone and handles DestinationExistsError instead of probing first (C12-h).'
)
UNDECIDED = ("Interleavings are not explored: freedom from races, 'every process completes without error' and the final "
             "content being that of some sequential execution are not decided.")
ASSUMPTIONS = ["POSIX platform: synced_collections' JSON backend has _supports_threading=True, hence tmp+os.replace writes by default."]

INIT = "signac.job:Job.init"
PINIT = "signac.project:Project.__init__"


@rule("C12-a")
def c12_a(ctx: Ctx):
    """Directory creation reachable from Job.init / Project.__init__ tolerates concurrent creation."""
    R = "C12-a"
    out = []
    ex = ExcFacts(ctx)
    eff, cl = ctx.effects.transitive([ctx.fn(INIT), ctx.fn(PINIT)])
    mk = [e for e in eff if e.kind == "mkdir"]
    if not mk:
        return [ctx.inc(R, None, None, "no directory creation reachable from Job.init / Project.__init__", construct="mkdir-sites")]
    for e in mk:
        if e.prim == "os.makedirs":
            v = kwarg(e.node, "exist_ok") or (e.node.args[2] if len(e.node.args) > 2 else None)
            fv = ctx.fold(v, e.fi) if v is not None else False
            if fv is True:
                out.append(ctx.ok(R, e.fi, e.node, "os.makedirs(..., exist_ok=True)"))
                continue
            if fv is UNKNOWN:
                out.append(ctx.inc(R, e.fi, e.node, "exist_ok is not a constant"))
                continue
        # mkdir / makedirs without exist_ok: must be inside a try that handles the exists case
        pm = ctx.parents(e.fi)
        cur = pm.get(id(e.node))
        handled = False
        while cur is not None:
            if isinstance(cur, ast.Try) and common.in_body_of(ctx, e.fi, e.node, cur, ("body",)):
                for h in cur.handlers:
                    if ex.catches(ex.handler_type_names(e.fi, h), "FileExistsError") and common.reraises_on_all_paths(ctx, e.fi, h) is not None:
                        handled = True
            cur = pm.get(id(cur))
        if handled:
            out.append(ctx.ok(R, e.fi, e.node, f"{e.prim} inside a handler for the already-exists case"))
        else:
            out.append(ctx.viol(R, e.fi, e.node, f"{e.prim} without exist_ok=True: a process that loses the race between the isdir() check and the creation "
                                "fails with FileExistsError although the directory it wanted exists"))
    # check-then-raise: a failure decided by probing the file system again after an earlier probe / failed step is a race with concurrent creators
    for q in (INIT, PINIT):
        g = ctx.fn(q)
        for r in [n for n in body_nodes(g) if isinstance(n, ast.Raise)]:
            facts = common.facts_at(ctx, g, r, "nx")
            probes = [(t, pol) for (t, pol) in facts if pol and any(x in t for x in ("os.path.lexists(", "os.path.exists(", "os.path.isfile(", "os.path.islink("))]
            negdir = [(t, pol) for (t, pol) in facts if (not pol) and "os.path.isdir(" in t]
            kk = f"{q}|check-then-raise|{stmt_key(r, 30)}"
            import re as _re

            def _arg(t):
                m = _re.search(r"os\.path\.\w+\((.*)\)$", t)
                return m.group(1).replace(" ", "") if m else None
            same_path = any(_arg(tp) is not None and _arg(tp) == _arg(tn) for (tp, _a) in probes for (tn, _b) in negdir)
            sp_probe = any("statepoint" in tp.lower() or "FN_STATE_POINT" in tp for (tp, _a) in probes)
            if (q == PINIT and same_path) or (q == INIT and sp_probe):
                out.append(ctx.viol(R, g, r, f"{q.split(':')[-1]} raises because a second look at the file system says {probes[0][0]!r}: between the first observation (directory / file missing, "
                                    "load failed) and this probe another process may have created exactly what is being tested for, and a healthy concurrent start-up is reported as an error",
                                    construct=kk))
    # check-then-act: the directory helper must not turn 'somebody else created it meanwhile' into an error
    mk = ctx.fn("signac._utility:_mkdir_p")
    rs = [n for n in body_nodes(mk) if isinstance(n, ast.Raise)]
    if rs:
        facts = common.facts_at(ctx, mk, rs[0], "n")
        out.append(ctx.viol(R, mk, rs[0], f"_mkdir_p raises explicitly after testing the path ({sorted(facts)}): between the isdir() test and this second test another process may have created "
                            "the directory, and its creation is reported as FileExistsError to a process that only wanted the directory to exist"))
    else:
        out.append(ctx.ok(R, mk, mk.node, "_mkdir_p contains no check-then-raise: concurrent creation is left to os.makedirs(exist_ok=True)"))
    return out


@rule("C12-b")
def c12_b(ctx: Ctx):
    """The state point file appears atomically: only the dependency's writer touches it, and its atomic mode is not switched off."""
    R = "C12-b"
    out = []
    # 1. direct writes of the state point file in signac.job
    n = 0
    for f in ctx.prog.functions_of_module("signac.job"):
        env = ctx.env(f)
        for e in ctx.effects.direct(f):
            if e.kind in ("open-write", "unknown-open") and e.target is not None:
                t = canon(inline(e.target, env))
                if "filename" in t or "FN_STATE_POINT" in t:
                    n += 1
                    out.append(ctx.viol(R, f, e.node, f"{e.prim} on {t}: the state point file is created in place, so another process's init() can read it empty, "
                                        "skip its own save (file exists) and fail"))
    sv = ctx.fn("signac.job:_StatePointDict.save")
    via = [c for c in body_nodes(sv) if isinstance(c, ast.Call) and isinstance(c.func, ast.Attribute) and c.func.attr == "_save"
           and isinstance(c.func.value, ast.Call) and isinstance(c.func.value.func, ast.Name) and c.func.value.func.id == "super"]
    if via:
        out.append(ctx.ok(R, sv, via[0], "the state point file is written through the synced_collections writer (super()._save())"))
    elif n == 0:
        out.append(ctx.inc(R, sv, sv.node, "save() does not write through super()._save() (unknown writer)"))
    # 2. atomic mode not switched off anywhere in signac (module level included)
    hits = []
    for m in ctx.prog.modules.values():
        if m.is_dep:
            continue
        for x in ast.walk(m.tree):
            if isinstance(x, ast.Call) and isinstance(x.func, ast.Attribute) and x.func.attr == "disable_multithreading":
                hits.append((m, x))
    if hits:
        for m, x in hits:
            out.append(ctx._mk("VIOLATION", R, None, None, f"{m.rel}:{x.lineno}: {stmt_key(x, 60)} switches off the thread-support mode that makes "
                               "synced_collections write a temporary and os.replace() it; state points (write_concern=False) are then truncated and rewritten in place",
                               construct=f"{m.name}|disable_multithreading"))
    else:
        out.append(ctx.ok(R, None, None, "no signac module calls disable_multithreading(): the dependency's tmp+os.replace mode stays on",
                          construct="signac|disable_multithreading"))
    # 2b. no signac collection class overrides the dependency's thread-support switch
    for cq, ci in ctx.prog.classes.items():
        if ci.module.is_dep:
            continue
        for attr in ("_supports_threading", "_threading_support_is_active"):
            if attr in ci.attrs:
                v = ctx.fold(ci.attrs[attr], None, ci.module)
                if v is True:
                    out.append(ctx.ok(R, None, None, f"{cq}.{attr} = True", construct=f"{cq}|{attr}"))
                else:
                    out.append(ctx._mk("VIOLATION", R, None, None, f"{ci.module.rel}:{ci.node.lineno}: class {ci.name} sets {attr} = {canon(ci.attrs[attr])}: this switches off the mode in which "
                                       "synced_collections writes a temporary and os.replace()s it, so state points (write_concern=False) are truncated and rewritten in place and a concurrent init() "
                                       "can read an empty file", construct=f"{cq}|{attr}"))
    # 3. the dependency flag
    ci = ctx.prog.classes.get("synced_collections.backends.collection_json:JSONCollection")
    if ci and "_supports_threading" in ci.attrs:
        txt = canon(ci.attrs["_supports_threading"])
        if txt in ("not ON_WINDOWS", "True"):
            out.append(ctx.ok(R, None, None, f"dependency: JSONCollection._supports_threading = {txt}", construct="dep|_supports_threading"))
        else:
            out.append(ctx.inc(R, None, None, f"dependency: JSONCollection._supports_threading = {txt}", construct="dep|_supports_threading"))
    else:
        out.append(ctx.inc(R, None, None, "dependency class JSONCollection not found", construct="dep|_supports_threading"))
    for r in c02_b(ctx) + c02_c(ctx):
        r.rule = R
        out.append(r)
    return out


@rule("C12-c")
def c12_c(ctx: Ctx):
    """Documents are written atomically (C10-a, C10-b)."""
    out = []
    for r in c10_a(ctx) + c10_b(ctx):
        r.rule = "C12-c"
        out.append(r)
    return out


@rule("C12-d")
def c12_d(ctx: Ctx):
    """Job listing tolerates a missing workspace: raises only for a broken link or a non-ENOENT error."""
    R = "C12-d"
    fi = ctx.fn("signac.project:Project._job_dirs")
    out = []
    hs = [n for n in body_nodes(fi) if isinstance(n, ast.ExceptHandler)]
    if not hs:
        return [ctx.viol(R, fi, fi.node, "listing the workspace is not protected against a missing directory: len(project) / iteration raise while another process is creating it")]
    for h in hs:
        raises = [x for st in h.body for x in walk_no_nested(st) if isinstance(x, ast.Raise)]
        for r in raises:
            facts = common.facts_at(ctx, fi, r, "nx")
            enoent_false = any((not pol) and t.replace(" ", "").endswith(".errno==errno.ENOENT") for (t, pol) in facts)
            link = any(pol and "islink" in t for (t, pol) in facts)
            if enoent_false or link:
                out.append(ctx.ok(R, fi, r, "raises only for a broken workspace link or an error other than ENOENT"))
            else:
                out.append(ctx.viol(R, fi, r, f"the listing raises although the workspace may merely not exist yet (facts: {sorted(facts)})"))
        if not raises:
            out.append(ctx.ok(R, fi, h, "the handler never raises"))
    return out


@rule("C12-e")
def c12_e(ctx: Ctx):
    """No caller makes Job.init() conditional on the job directory not existing: init() itself is the idempotent, racing-creator-tolerant step (save-if-absent + validation)."""
    R = "C12-e"
    out = []
    for g in ctx.prog.funcs.values():
        if g.module.is_dep or not g.module.name.startswith("signac"):
            continue
        for c in body_nodes(g):
            if not (isinstance(c, ast.Call) and isinstance(c.func, ast.Attribute) and c.func.attr == "init" and not c.args and INIT in common.targets_of(ctx, g, c)):
                continue
            recv = canon(c.func.value)
            vs = kwarg(c, "validate_statepoint")
            if vs is not None and ctx.fold(vs, g) is False and g.qual not in ("signac.job:Job.document", "signac.job:Job.stores", "signac.job:Job.open", "signac.job:Job.__enter__"):
                out.append(ctx.viol(R, g, c, f"{recv}.init(validate_statepoint=False) outside the lazy accessors: that mode returns as soon as the job directory exists, so a directory that "
                                    "another process (or a crashed one) created without its state point file is reported as an initialised job and never completed",
                                    construct=f"{g.qual}|init-validates|{recv}"))
                continue
            facts = common.facts_at(ctx, g, c, "nx")
            gate = [(t, pol) for (t, pol) in facts if
                    t.replace(" ", "").startswith(recv + "in") or t.replace(" ", "").startswith(recv + "notin")
                    or (("os.path.exists(" in t or "os.path.isdir(" in t or "os.path.lexists(" in t) and (recv + ".path" in t or recv + ".ws" in t or recv + ".fn(" in t))
                    or recv + ".isfile(" in t]
            k = f"{g.qual}|init-call|{recv}"
            if gate:
                out.append(ctx.viol(R, g, c, f"{recv}.init() runs only under the existence test {gate[0][0]!r}: a job directory that another process has just created (or left behind by a "
                                    "crash) without its state point file is then taken for an initialised job and never completed, the caller reports success and the next reader gets "
                                    "JobsCorruptedError; init() must be called unconditionally, it is idempotent", construct=k))
            else:
                out.append(ctx.ok(R, g, c, f"{recv}.init() is not conditional on an existence test of the job", construct=k))
    if not out:
        out.append(ctx.inc(R, None, None, "no Job.init() call site found"))
    return out


@rule("C12-g")
def c12_g(ctx: Ctx):
    """(1) signac's collections do not bring their own file writer: a `_save_to_resource` override that stages the data under a fixed name (`<file>~`) makes two
    processes that initialise the same job share the temporary - the second rename fails with ENOENT and the clean-up of save() deletes the winner's file; the
    dependency's writer uses a unique temporary. (2) Reading a document does not write: the document accessors construct the collection and nothing else
    (a 'create the empty file on first access' step is a check-then-write that replaces what another process wrote in between by {})."""
    R = "C12-g"
    out = []
    n = 0
    for ci in ctx.prog.classes.values():
        if ci.module.is_dep or not ci.module.name.startswith("signac"):
            continue
        ov = ci.methods.get("_save_to_resource")
        if ov is None:
            continue
        n += 1
        k = ov.qual + "|own-writer"
        opens = [e for e in ctx.effects.transitive([ov])[0] if e.kind in ("open-write", "unknown-open")]
        unique = any(isinstance(c, ast.Call) and any(x in canon(c.func) for x in ("uuid", "mkstemp", "NamedTemporaryFile", "getpid", "token_hex"))
                     for g in ctx.calls.closure([ov]).values() if not g.module.is_dep for c in body_nodes(g))
        if opens and not unique:
            e = opens[0]
            out.append(ctx.viol(R, e.fi, e.node, f"{ci.name} overrides _save_to_resource with its own writer that stages the data in {canon(e.target)[:40] if e.target is not None else 'a file'} "
                                "built from the target name alone: concurrent writers of the same file (two processes initialising one job) share the temporary, one rename fails with ENOENT "
                                "and the error path of save() removes the other writer's complete file", construct=k))
        elif opens:
            out.append(ctx.ok(R, ov, ov.node, "own writer stages under a unique temporary name", construct=k))
        else:
            out.append(ctx.inc(R, ov, ov.node, f"{ci.name} overrides _save_to_resource", construct=k))
    if not n:
        out.append(ctx.ok(R, None, None, "no signac collection class overrides the dependency's file writer (_save_to_resource)", construct="own-writer|none", nontrivial=False))
    for q in ("signac.job:Job.document", "signac.project:Project.document"):
        f = ctx.fn(q)
        k = q + "|accessor-does-not-write"
        bad = [c for c in body_nodes(f) if isinstance(c, ast.Call) and isinstance(c.func, ast.Attribute) and c.func.attr in ("_save", "save", "reset", "update", "clear", "setdefault", "pop")
               and "_document" in canon(common.inline_at(ctx, f, c.func.value, c))]
        bad += [e.node for e in ctx.effects.direct(f) if e.kind in ("open-write", "write", "rename", "delete")]
        if bad:
            out.append(ctx.viol(R, f, bad[0], f"the document accessor writes (`{canon(bad[0])[:40]}`): a process that only reads job.doc can replace a document another process has completed "
                                "in the meantime (existence test, then write) - no error, the data is silently gone", construct=k))
        else:
            out.append(ctx.ok(R, f, f.node, "the document accessor constructs the collection and writes nothing", construct=k))
    return out


EXC_ERRNOS = {"FileExistsError": {"EEXIST"}, "PermissionError": {"EACCES", "EPERM"}, "FileNotFoundError": {"ENOENT"}, "IsADirectoryError": {"EISDIR"},
              "NotADirectoryError": {"ENOTDIR"}}


def _eval_err_test(t, errvar, kind):
    """Truth value of a handler's test for an abstract error: kind = errno name ('EEXIST', ...) for an OSError, 'OTHER' for an OSError with another errno,
    'NONOS' for an exception that is not an OSError. -> True / False / None (unknown)"""
    if isinstance(t, ast.UnaryOp) and isinstance(t.op, ast.Not):
        v = _eval_err_test(t.operand, errvar, kind)
        return None if v is None else (not v)
    if isinstance(t, ast.BoolOp):
        vals = [_eval_err_test(v, errvar, kind) for v in t.values]
        if isinstance(t.op, ast.And):
            if any(v is False for v in vals):
                return False
            return True if all(v is True for v in vals) else None
        if any(v is True for v in vals):
            return True
        return False if all(v is False for v in vals) else None
    if isinstance(t, ast.Call) and isinstance(t.func, ast.Name) and t.func.id == "isinstance" and len(t.args) == 2 and isinstance(t.args[0], ast.Name) and t.args[0].id == errvar:
        names = [canon(x).split(".")[-1] for x in (t.args[1].elts if isinstance(t.args[1], ast.Tuple) else [t.args[1]])]
        if kind == "NONOS":
            return True if any(n in ("Exception", "BaseException") for n in names) else (False if all(n in ("OSError", "IOError", "EnvironmentError") or n in EXC_ERRNOS for n in names) else None)
        if any(n in ("OSError", "IOError", "EnvironmentError", "Exception", "BaseException") for n in names):
            return True
        if all(n in EXC_ERRNOS for n in names):
            return any(kind in EXC_ERRNOS[n] for n in names)
        return None
    if isinstance(t, ast.Compare) and len(t.ops) == 1 and canon(t.left) == f"{errvar}.errno":
        if kind == "NONOS":
            return None
        c = t.comparators[0]
        names = [canon(x).split(".")[-1] for x in (c.elts if isinstance(c, (ast.Tuple, ast.List, ast.Set)) else [c])]
        if not all(n.isupper() for n in names):
            return None
        op = t.ops[0]
        hit = kind in names
        if isinstance(op, (ast.In, ast.Eq)):
            return hit
        if isinstance(op, (ast.NotIn, ast.NotEq)):
            return not hit
    return None


def _reaches(stmts, errvar, kind, is_target):
    """Can a statement satisfying is_target be executed when the handler body `stmts` runs for the abstract error `kind`?  (ifs on the error are decided,
    everything else is followed; nested try bodies are entered)  -> (reached, falls_through)"""
    for s in stmts:
        if any(is_target(x) for x in ast.walk(s)) and not isinstance(s, (ast.If, ast.Try, ast.With, ast.For, ast.While)):
            return True, True
        if isinstance(s, (ast.Return, ast.Raise, ast.Continue, ast.Break)):
            return False, False
        if isinstance(s, ast.If):
            v = _eval_err_test(s.test, errvar, kind)
            branches = [s.body] if v is True else ([s.orelse] if v is False else [s.body, s.orelse])
            falls = False
            for b in branches:
                r, ft = _reaches(b, errvar, kind, is_target)
                if r:
                    return True, True
                falls = falls or ft
            if not falls:
                return False, False
        elif isinstance(s, ast.Try):
            for b in [s.body, s.orelse, s.finalbody] + [h.body for h in s.handlers]:
                r, _ = _reaches(b, errvar, kind, is_target)
                if r:
                    return True, True
        elif isinstance(s, (ast.With, ast.For, ast.While)):
            r, _ = _reaches(s.body, errvar, kind, is_target)
            if r:
                return True, True
    return False, True


@rule("C12-f")
def c12_f(ctx: Ctx):
    """The loser of an initialisation race never deletes the winner's state point file: in _StatePointDict.save the clean-up `os.remove(<state point file>)` is
    not reachable for EEXIST / EACCES (what the final rename or the open report when another process holds or has just created the file)."""
    R = "C12-f"
    # the conditional write of the state point file: _StatePointDict.save, or (when it was written out at its only user) Job.init
    f = ctx.prog.funcs.get("signac.job:_StatePointDict.save") or ctx.fn("signac.job:Job.init")
    out = []
    ex = ExcFacts(ctx)
    k = "signac.job:_StatePointDict.save|no-delete-on-contention"
    rems = {id(e.node) for e in ctx.effects.direct(f) if e.kind == "delete"}
    if not rems:
        return [ctx.ok(R, f, f.node, "save() never deletes the state point file", construct=k, nontrivial=False)]
    tries = [t for t in body_nodes(f) if isinstance(t, ast.Try) and any(id(x) in rems for h in t.handlers for st in h.body for x in ast.walk(st))]
    if not tries:
        return [ctx.inc(R, f, f.node, "the state point file is deleted outside the handlers of the write", construct=k)]
    for tr in tries:
        bad = []
        # the try statements the error of the write travels through, innermost first: tries nested in the body of `tr` (under if / with), then `tr` itself
        chain = [tr]
        cur = tr
        while True:
            inner = [t for st in cur.body for t in ast.walk(st) if isinstance(t, ast.Try) and common.in_body_of(ctx, f, t, cur, ("body",))]
            inner = [t for t in inner if not any(t is not o and any(t is x for x in ast.walk(o)) for o in inner)]
            if len(inner) != 1:
                break
            cur = inner[0]
            chain.insert(0, cur)
        for kind in ("EEXIST", "EACCES"):
            exc = {"EEXIST": "FileExistsError", "EACCES": "PermissionError"}[kind]
            for t in chain:
                sel = None
                for h in t.handlers:
                    if h.type is None or ex.catches(ex.handler_type_names(f, h), exc):
                        sel = h
                        break
                if sel is None:
                    continue        # not caught here: travels on to the enclosing try
                r, _ = _reaches(sel.body, sel.name or "_", kind, lambda x: id(x) in rems)
                if r:
                    bad.append(kind)
                    break
                # does the handler hand this error on (bare `raise` / `raise <the error>` reachable for this kind)?
                rr, _ = _reaches(sel.body, sel.name or "_", kind, lambda x: isinstance(x, ast.Raise) and (x.exc is None or (isinstance(x.exc, ast.Name) and x.exc.id == (sel.name or "_"))))
                if not rr:
                    break           # swallowed or replaced here: outer handlers never see it
        # ... and the loser is not failed either: EEXIST / EACCES of the write are tolerated (the subsequent load validates what the winner wrote)
        raised = []
        for kind in ("EEXIST", "EACCES"):
            exc = {"EEXIST": "FileExistsError", "EACCES": "PermissionError"}[kind]
            for t in chain:
                sel = None
                for h in t.handlers:
                    if h.type is None or ex.catches(ex.handler_type_names(f, h), exc):
                        sel = h
                        break
                if sel is None:
                    continue
                rr, _ = _reaches(sel.body, sel.name or "_", kind, lambda x: isinstance(x, ast.Raise))
                if rr:
                    raised.append(kind)
                break
        kt = "signac.job:_StatePointDict.save|contention-tolerated"
        if raised:
            out.append(ctx.viol(R, f, tr, f"the handler of the failed state point write raises for errno {sorted(set(raised))}: a process that loses the initialisation race (its rename / open "
                                "collides with the winner's file) fails with PermissionError / FileExistsError although the job is validly initialised", construct=kt))
        else:
            out.append(ctx.ok(R, f, tr, "EEXIST / EACCES of the state point write are tolerated (the load that follows validates the file)", construct=kt))
        if bad:
            out.append(ctx.viol(R, f, tr, f"the handler of the failed state point write deletes the file also for errno {sorted(bad)}: that is what a process gets whose rename / open "
                                "collides with another process initialising the same job, so the loser removes the winner's valid state point file and the job directory is left "
                                "without one (JobsCorruptedError for everybody)", construct=k))
        else:
            out.append(ctx.ok(R, f, tr, "the state point file is deleted only for errors other than EEXIST / EACCES (contention with another writer)", construct=k))
    return out


@rule("C12-h")
def c12_h(ctx: Ctx):
    """Project-level sync decides "clone or merge" by attempting the clone and handling DestinationExistsError - not by looking first: between a look (`job in
    destination`, isdir) and the copy another process may initialise the same job, and the sync then aborts instead of merging."""
    R = "C12-h"
    q = "signac.sync:sync_projects.<locals>._clone_or_sync"
    f = ctx.prog.funcs.get(q)
    k = q + "|attempt-then-handle"
    if f is None:
        return [ctx.inc(R, None, None, "_clone_or_sync not found", construct=k)]
    clones = [c for c in body_nodes(f) if isinstance(c, ast.Call) and isinstance(c.func, ast.Attribute) and c.func.attr == "clone"]
    if not clones:
        return [ctx.inc(R, f, f.node, "no .clone() call in _clone_or_sync", construct=k)]
    ex = ExcFacts(ctx)
    out = []
    for c in clones:
        pm = ctx.parents(f)
        cur = pm.get(id(c))
        handled = False
        while cur is not None:
            if isinstance(cur, ast.Try) and common.in_body_of(ctx, f, c, cur, ("body",)) and any(ex.catches(ex.handler_type_names(f, h), "signac.errors:DestinationExistsError") for h in cur.handlers):
                handled = True
            cur = pm.get(id(cur))
        facts = common.facts_at(ctx, f, c, "n")
        probes = [t for (t, _pol) in facts if " in " in t or "os.path.isdir(" in t or "os.path.exists(" in t or "_contains_job_id(" in t]
        if not handled:
            out.append(ctx.viol(R, f, c, "the clone is not inside a try that handles DestinationExistsError: a job that another process initialises in the destination while the sync runs "
                                "makes the whole sync fail instead of being merged", construct=k))
        elif probes:
            out.append(ctx.viol(R, f, c, f"the clone is attempted only if `{probes[0][:50]}`: the answer can be out of date when the copy starts", construct=k))
        else:
            out.append(ctx.ok(R, f, c, "the clone is attempted unconditionally; an existing destination is handled by merging", construct=k))
    return out

RULES = [c12_a, c12_b, c12_c, c12_d, c12_e, c12_f, c12_g, c12_h]
