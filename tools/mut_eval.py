#!/venv/bin/python
"""Apply each candidate/seeded patch to a scratch copy of /repo/signac and run the checks on it.
usage: mut_eval.py <dir-with-*/m*/patch.diff or seeded dir> [PROP ...]"""
import os, sys, subprocess, shutil, tempfile, json, glob
from concurrent.futures import ThreadPoolExecutor
VERIF = os.path.dirname(os.path.dirname(os.path.abspath(__file__)))
def props_available():
    return sorted(f[:-3].upper() for f in os.listdir(os.path.join(VERIF, 'sigstat', 'rules')) if f.startswith('c') and f[1:3].isdigit())
def run_one(patch, props):
    tmp = tempfile.mkdtemp(prefix='sigstat-mut-')
    try:
        shutil.copytree('/repo/signac', os.path.join(tmp, 'signac'))
        r = subprocess.run(['patch', '-p1', '-s', '-i', patch], cwd=tmp, capture_output=True, text=True)
        if r.returncode != 0:
            return patch, {'_apply': 'FAILED ' + r.stdout[:200]}
        res = {}
        for p in props:
            r = subprocess.run([os.path.join(VERIF, 'check'), p, '--repo', tmp, '--evidence-dir', os.path.join(tmp, 'ev'), '--no-selftest'],
                               capture_output=True, text=True, cwd=VERIF)
            lines = [l for l in r.stdout.splitlines() if l.startswith(('VIOLATION rule', 'ANALYSIS-ERROR rule'))]
            res[p] = (r.returncode, lines)
        return patch, res
    finally:
        shutil.rmtree(tmp, ignore_errors=True)
def main():
    root = sys.argv[1]
    props = [a.upper() for a in sys.argv[2:]] or props_available()
    patches = sorted(glob.glob(os.path.join(root, '*', '*', 'patch.diff')) + glob.glob(os.path.join(root, '*', 'patch.diff')))
    with ThreadPoolExecutor(14) as ex:
        for patch, res in ex.map(lambda p: run_one(p, props), patches):
            name = os.path.relpath(os.path.dirname(patch), root)
            if '_apply' in res:
                print(f'{name:12s} APPLY-FAILED'); continue
            det = [p for p, (c, _) in res.items() if c == 1]
            inc = [p for p, (c, _) in res.items() if c == 2]
            print(f'{name:12s} detected_by={det} inconclusive={inc}')
            for p, (c, lines) in res.items():
                for l in lines[:3]:
                    print('      ', p, l[:230])
main()
