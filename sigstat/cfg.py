"""sigstat.cfg - statement-level control flow graph with condition facts.

Hand built for the statement kinds signac uses (If / For / While / Try with
handlers, else and finally / With / Return / Raise / Break / Continue / Match).

Edges carry
  * kind:  'n'  normal flow
           'x'  exception raised by the source statement and caught by a
                handler of an enclosing try (implicit or explicit raise)
           'u'  exception that no handler of the enclosing function is known to
                catch (implicit, type unknown) - followed only on request
  * facts: tuple of (canonical condition text, truth value) established by
           taking the edge (branch conditions, decomposed over and/or/not).

`finally` bodies are duplicated per continuation kind (normal / raise / return)
so that no path enters a finally normally and leaves it exceptionally.
"""
from __future__ import annotations

import ast
from dataclasses import dataclass, field
from typing import Dict, List, Optional, Tuple, Set, Iterable, Callable

from .core import canon, names_in, walk_no_nested

Fact = Tuple[str, bool]


@dataclass
class Node:
    id: int
    kind: str  # entry exit rexit stmt test for with handler join
    ast: Optional[ast.AST] = None
    tag: str = ""  # '', 'fin-raise', 'fin-return', ...

    @property
    def lineno(self):
        return getattr(self.ast, "lineno", 0)


def cond_atoms(test: ast.AST, pol: bool, env=None) -> List[Fact]:
    """Decompose a branch condition into atomic facts."""
    if isinstance(test, ast.UnaryOp) and isinstance(test.op, ast.Not):
        return cond_atoms(test.operand, not pol, env)
    if isinstance(test, ast.BoolOp):
        if (isinstance(test.op, ast.And) and pol) or (isinstance(test.op, ast.Or) and not pol):
            out = []
            for v in test.values:
                out.extend(cond_atoms(v, pol, env))
            return out
        return [(canon(test, env), pol)]
    if isinstance(test, ast.Compare) and len(test.ops) == 1:
        op = test.ops[0]
        l, r = test.left, test.comparators[0]
        flip = {ast.IsNot: ast.Is, ast.NotEq: ast.Eq, ast.NotIn: ast.In}
        for neg, posi in flip.items():
            if isinstance(op, neg):
                t = ast.Compare(left=l, ops=[posi()], comparators=[r])
                return [(canon(ast.fix_missing_locations(ast.copy_location(t, test)), env), not pol)]
        return [(canon(test, env), pol)]
    if isinstance(test, ast.NamedExpr):
        return cond_atoms(test.value, pol, env) + [(canon(test.target, env), pol)]
    return [(canon(test, env), pol)]


class CFG:
    def __init__(self, fnode: ast.AST, env=None, exc_oracle=None):
        self.fnode = fnode
        self.env = env  # single-assignment env used to canonicalise facts (optional)
        # exc_oracle(type_expr) -> (class name, set of names of all its base classes incl. itself, is_builtin) or None; and .related(a, b) for user classes
        self.exc_oracle = exc_oracle
        self.nodes: List[Node] = []
        self.succ: Dict[int, List[Tuple[int, str, Tuple[Fact, ...]]]] = {}
        self.pred: Dict[int, List[Tuple[int, str, Tuple[Fact, ...]]]] = {}
        self.entry = self._new("entry")
        self.exit = self._new("exit")
        self.rexit = self._new("rexit")
        self._exc_cache: Dict[Tuple, int] = {}
        self._exc_caught: Dict[Tuple, bool] = {}
        self._ret_cache: Dict[Tuple, int] = {}
        self.ast_nodes: Dict[int, List[int]] = {}  # id(ast stmt) -> node ids (finally copies => several)
        fr = self._seq(fnode.body, [(self.entry, "n", ())], ())
        self._connect(fr, self.exit)

    # -- construction helpers ---------------------------------------------
    def _new(self, kind, a=None, tag=""):
        n = Node(len(self.nodes), kind, a, tag)
        self.nodes.append(n)
        self.succ[n.id] = []
        self.pred[n.id] = []
        if a is not None:
            self.ast_nodes.setdefault(id(a), []).append(n.id)
        return n.id

    def _edge(self, a, b, kind="n", facts=()):
        e = (b, kind, tuple(facts))
        if e not in self.succ[a]:
            self.succ[a].append(e)
            self.pred[b].append((a, kind, tuple(facts)))

    def _connect(self, frontier, target):
        for (p, k, f) in frontier:
            self._edge(p, target, k, f)

    # frames: ('try', handlers_entry_ids, has_catch_all, key) | ('fin', finalbody, key) | ('loop', brk_list, cont_target, key)
    def _exc_target(self, stack) -> Tuple[int, bool]:
        """Node an exception raised under `stack` flows to, and whether the way there is 'caught'."""
        key = tuple(fr[-1] for fr in stack)
        if key in self._exc_cache:
            return self._exc_cache[key], self._exc_caught[key]
        res = None
        caught = False
        for i in range(len(stack) - 1, -1, -1):
            fr = stack[i]
            if fr[0] == "try":
                d = self._new("join", None, "dispatch")
                for h in fr[1]:
                    self._edge(d, h, "x", ())
                if not fr[2]:
                    outer, _ = self._exc_target(stack[:i])
                    self._edge(d, outer, "u", ())
                res, caught = d, True
                break
            if fr[0] == "fin":
                j = self._new("join", None, "fin-raise")
                out = self._seq(fr[1], [(j, "n", ())], stack[:i], tag="fin-raise")
                outer, c2 = self._exc_target(stack[:i])
                # leaving a finally that was entered exceptionally re-raises
                for (p, k, f) in out:
                    self._edge(p, outer, "x" if c2 else "u", f)
                res, caught = j, c2
                break
        if res is None:
            res, caught = self.rexit, False
        self._exc_cache[key] = res
        self._exc_caught[key] = caught
        return res, caught

    def _ret_target(self, stack) -> int:
        key = tuple(fr[-1] for fr in stack)
        if key in self._ret_cache:
            return self._ret_cache[key]
        res = None
        for i in range(len(stack) - 1, -1, -1):
            fr = stack[i]
            if fr[0] == "fin":
                j = self._new("join", None, "fin-return")
                out = self._seq(fr[1], [(j, "n", ())], stack[:i], tag="fin-return")
                outer = self._ret_target(stack[:i])
                self._connect(out, outer)
                res = j
                break
        if res is None:
            res = self.exit
        self._ret_cache[key] = res
        return res

    def _raise_edges(self, nid, stack, explicit=False):
        tgt, caught = self._exc_target(stack)
        if tgt == self.rexit:
            self._edge(nid, tgt, "x" if explicit else "u", ())
        else:
            self._edge(nid, tgt, "x" if (caught or explicit) else "u", ())

    def _typed_raise_target(self, st: ast.Raise, stack):
        """Target of `raise <BuiltinError>(...)` when it can be decided from the class hierarchy of the built-in exceptions: the first enclosing handler
        that catches the class, or the exceptional exit. None (= use the conservative edges) for re-raises, non-built-in classes, handlers that name
        non-built-in classes, and when a finally block lies in between."""
        import builtins
        e = st.exc
        hframes = [fr for fr in stack if fr[0] == "handler"]
        if e is None or (isinstance(e, ast.Name) and hframes and hframes[-1][1].name == e.id and st.cause is None):
            return self._reraise_target(stack)
        nm = e.func if isinstance(e, ast.Call) else e
        if not isinstance(nm, ast.Name):
            return None
        cls = getattr(builtins, nm.id, None)
        if not (isinstance(cls, type) and issubclass(cls, BaseException)):
            return None
        for i in range(len(stack) - 1, -1, -1):
            fr = stack[i]
            if fr[0] == "fin":
                return None
            if fr[0] != "try":
                continue
            for hid in fr[1]:
                h = self.nodes[hid].ast
                if h.type is None:
                    return hid
                names = h.type.elts if isinstance(h.type, ast.Tuple) else [h.type]
                for t in names:
                    if not isinstance(t, ast.Name):
                        return None
                    hc = getattr(builtins, t.id, None)
                    if not (isinstance(hc, type) and issubclass(hc, BaseException)):
                        # a handler for a class that is not built in (signac.errors.*): an instance of exactly the built-in class `cls` is caught by it only if
                        # `cls` derives from that class - a built-in class never derives from a user-defined one
                        continue
                    if issubclass(cls, hc):
                        return hid
        return self.rexit

    def _reraise_target(self, stack):
        """Target of a bare `raise` / `raise <handler variable>` inside `except T1, T2 as e:` - the object in flight is an instance of some subclass of a Ti.
        With the class oracle: the first enclosing handler (outside the handler we are in) that surely catches every such instance; handlers that can
        never catch one are passed by; as soon as a handler may or may not catch it the conservative edges are used (None)."""
        if self.exc_oracle is None:
            return None
        idx = max(i for i, fr in enumerate(stack) if fr[0] == "handler")
        h0 = stack[idx][1]
        if h0.type is None:
            return None
        flying = []
        for t in (h0.type.elts if isinstance(h0.type, ast.Tuple) else [h0.type]):
            info = self.exc_oracle(t)
            if info is None:
                return None
            flying.append(info)
        for i in range(idx - 1, -1, -1):
            fr = stack[i]
            if fr[0] == "fin":
                return None
            if fr[0] != "try":
                continue
            for hid in fr[1]:
                h = self.nodes[hid].ast
                if h.type is None:
                    return hid
                for t in (h.type.elts if isinstance(h.type, ast.Tuple) else [h.type]):
                    hi = self.exc_oracle(t)
                    if hi is None:
                        return None
                    hname = hi[0]
                    if all(hname in f[1] for f in flying):
                        return hid                      # a base class of everything in flight
                    if any(hname in f[1] or f[0] in hi[1] or self.exc_oracle.related(hname, f[0]) for f in flying):
                        return None                     # narrower than / overlapping with what is in flight: may or may not catch
        return self.rexit

    def _in_try(self, stack):
        return any(fr[0] in ("try", "fin") for fr in stack)

    _uid = 0

    def _key(self):
        CFG._uid += 1
        return CFG._uid

    def _seq(self, stmts, frontier, stack, tag=""):
        for st in stmts:
            frontier = self._stmt(st, frontier, stack, tag)
        return frontier

    def _simple(self, st, frontier, stack, tag, kind="stmt"):
        n = self._new(kind, st, tag)
        self._connect(frontier, n)
        if not _may_raise(st):
            return n
        if self._in_try(stack):
            self._raise_edges(n, stack)
        else:
            self._edge(n, self.rexit, "u", ())
        return n

    def _stmt(self, st, frontier, stack, tag):
        if isinstance(st, ast.Return):
            n = self._new("stmt", st, tag)
            self._connect(frontier, n)
            if self._in_try(stack):
                self._raise_edges(n, stack)
            self._edge(n, self._ret_target(stack), "n", ())
            return []
        if isinstance(st, ast.Raise):
            n = self._new("stmt", st, tag)
            self._connect(frontier, n)
            tt = self._typed_raise_target(st, stack)
            if tt is not None:
                # an explicit raise of a built-in exception class under handlers that name built-in classes only: it goes to the handler that catches it, or out
                self._edge(n, tt, "x", ())
            else:
                self._raise_edges(n, stack, explicit=True)
            return []
        if isinstance(st, ast.If):
            t = self._simple(st, frontier, stack, tag, "test")
            a = self._seq(st.body, [(t, "n", tuple(cond_atoms(st.test, True, self.env)))], stack, tag)
            b = self._seq(st.orelse, [(t, "n", tuple(cond_atoms(st.test, False, self.env)))], stack, tag)
            return a + b
        if isinstance(st, ast.While):
            t = self._simple(st, frontier, stack, tag, "test")
            brk: List = []
            const_true = isinstance(st.test, ast.Constant) and bool(st.test.value)
            loop = ("loop", brk, t, self._key())
            body = self._seq(st.body, [(t, "n", tuple(cond_atoms(st.test, True, self.env)))], stack + (loop,), tag)
            self._connect(body, t)
            out = [] if const_true else [(t, "n", tuple(cond_atoms(st.test, False, self.env)))]
            out = self._seq(st.orelse, out, stack, tag) if st.orelse else out
            return out + brk
        if isinstance(st, (ast.For, ast.AsyncFor)):
            h = self._simple(st, frontier, stack, tag, "for")
            brk = []
            loop = ("loop", brk, h, self._key())
            body = self._seq(st.body, [(h, "n", ())], stack + (loop,), tag)
            self._connect(body, h)
            out = [(h, "n", ())]
            out = self._seq(st.orelse, out, stack, tag) if st.orelse else out
            return out + brk
        if isinstance(st, (ast.With, ast.AsyncWith)):
            w = self._simple(st, frontier, stack, tag, "with")
            return self._seq(st.body, [(w, "n", ())], stack, tag)
        if isinstance(st, ast.Break) or isinstance(st, ast.Continue):
            n = self._new("stmt", st, tag)
            self._connect(frontier, n)
            fr_list = [(n, "n", ())]
            for i in range(len(stack) - 1, -1, -1):
                fr = stack[i]
                if fr[0] == "fin":
                    fr_list = self._seq(fr[1], fr_list, stack[:i], tag="fin-break")
                elif fr[0] == "loop":
                    if isinstance(st, ast.Break):
                        fr[1].extend(fr_list)
                    else:
                        self._connect(fr_list, fr[2])
                    break
            return []
        if isinstance(st, ast.Try) or (hasattr(ast, "TryStar") and isinstance(st, getattr(ast, "TryStar"))):
            t = self._new("try", st, tag)  # the try: line itself (no effect)
            self._connect(frontier, t)
            base = stack
            if st.finalbody:
                base = stack + (("fin", st.finalbody, self._key()),)
            # handler entry nodes first (body needs them as exception targets)
            h_entries = []
            for h in st.handlers:
                h_entries.append(self._new("handler", h, tag))
            catch_all = any(
                h.type is None or (isinstance(h.type, ast.Name) and h.type.id in ("Exception", "BaseException"))
                for h in st.handlers
            )
            if st.handlers:
                body_stack = base + (("try", h_entries, catch_all, self._key()),)
            else:
                body_stack = base
            out = self._seq(st.body, [(t, "n", ())], body_stack, tag)
            if st.orelse:
                out = self._seq(st.orelse, out, base, tag)
            for h, he in zip(st.handlers, h_entries):
                out = out + self._seq(h.body, [(he, "n", ())], base + (("handler", h, self._key()),), tag)
            if st.finalbody:
                out = self._seq(st.finalbody, out, stack, tag)
            return out
        if hasattr(ast, "Match") and isinstance(st, ast.Match):
            m = self._simple(st, frontier, stack, tag, "test")
            out = []
            exhaustive = False
            for case in st.cases:
                out += self._seq(case.body, [(m, "n", ())], stack, tag)
                if isinstance(case.pattern, ast.MatchAs) and case.pattern.pattern is None and case.guard is None:
                    exhaustive = True
            if not exhaustive:
                out.append((m, "n", ()))
            return out
        # simple statements (Expr, Assign, ..., FunctionDef, ClassDef, Assert, ...)
        n = self._simple(st, frontier, stack, tag)
        return [(n, "n", ())]

    # -- queries -----------------------------------------------------------
    def node_ids_for(self, a: ast.AST) -> List[int]:
        return list(self.ast_nodes.get(id(a), []))

    def stmt_nodes(self) -> Iterable[Node]:
        return (n for n in self.nodes if n.ast is not None)

    def find_nodes(self, pred: Callable[[Node], bool]) -> List[int]:
        return [n.id for n in self.nodes if n.ast is not None and pred(n)]

    def nodes_containing(self, pred_ast: Callable[[ast.AST], bool]) -> List[int]:
        """Nodes whose own statement (header only for compound statements) contains an AST node matching pred."""
        out = []
        for n in self.nodes:
            if n.ast is None:
                continue
            for sub in own_exprs(n.ast):
                if any(pred_ast(x) for x in walk_no_nested(sub)):
                    out.append(n.id)
                    break
        return out

    def reachable(self, starts: Iterable[int], blocked: Set[int] = frozenset(), kinds="nx", forward=True,
                  include_start=False) -> Set[int]:
        g = self.succ if forward else self.pred
        seen: Set[int] = set()
        todo = []
        for s in starts:
            if include_start:
                if s not in blocked:
                    todo.append(s)
            else:
                for (b, k, _) in g[s]:
                    if k in kinds and b not in blocked:
                        todo.append(b)
        while todo:
            n = todo.pop()
            if n in seen:
                continue
            seen.add(n)
            for (b, k, _) in g[n]:
                if k in kinds and b not in blocked and b not in seen:
                    todo.append(b)
        return seen

    def path(self, start: int, goal_set: Set[int], blocked: Set[int] = frozenset(), kinds="nx",
             from_successors=False) -> Optional[List[int]]:
        """Shortest path (BFS) start -> any goal avoiding blocked nodes."""
        from collections import deque

        prev: Dict[int, Optional[int]] = {}
        dq = deque()
        if from_successors:
            for (b, k, _) in self.succ[start]:
                if k in kinds and b not in blocked and b not in prev:
                    prev[b] = start
                    dq.append(b)
            prev.setdefault(start, None)
        else:
            prev[start] = None
            dq.append(start)
        while dq:
            n = dq.popleft()
            if n in goal_set and (n != start or not from_successors or prev.get(n) is not None):
                out = [n]
                while prev[out[-1]] is not None and len(out) < 10000:
                    out.append(prev[out[-1]])
                    if out[-1] == start:
                        break
                return list(reversed(out))
            for (b, k, _) in self.succ[n]:
                if k in kinds and b not in blocked and b not in prev:
                    prev[b] = n
                    dq.append(b)
        return None

    def must_pass_before(self, target: int, through: Set[int], kinds="nx") -> Optional[List[int]]:
        """None if every path entry->target passes a node of `through`; else a witness path."""
        if target in through:
            return None
        return self.path(self.entry, {target}, blocked=set(through), kinds=kinds)

    def must_pass_after(self, start: int, through: Set[int], exits: Optional[Set[int]] = None, kinds="nx") -> Optional[List[int]]:
        """None if every path start->exit passes a node of `through`; else a witness path."""
        exits = exits if exits is not None else {self.exit, self.rexit}
        return self.path(start, set(exits), blocked=set(through), kinds=kinds, from_successors=True)

    def describe_path(self, path: List[int], rel: str = "") -> List[str]:
        out = []
        for nid in path:
            n = self.nodes[nid]
            if n.ast is None:
                out.append(n.kind + (f"[{n.tag}]" if n.tag else ""))
            else:
                from .core import stmt_key
                out.append(f"L{n.lineno}:{stmt_key(n.ast, 70)}")
        return out

    # -- must-facts ----------------------------------------------------------
    @staticmethod
    def _gen_facts(n: "Node"):
        """facts established by the statement itself: `x = True / False / None` (plain names and attribute chains)"""
        a = n.ast
        if n.kind == "stmt" and isinstance(a, ast.Assign) and isinstance(a.value, ast.Constant) and (a.value.value is None or isinstance(a.value.value, bool)):
            out = []
            for t in a.targets:
                from .core import dotted
                d = dotted(t) if isinstance(t, (ast.Name, ast.Attribute)) else None
                if d:
                    if a.value.value is None:
                        out.append((f"{d} is None", True))
                        out.append((d, False))
                    else:
                        out.append((d, bool(a.value.value)))
                        if a.value.value is True:
                            out.append((f"{d} is None", False))
            return out
        return []

    def must_facts(self, kinds="nx") -> Dict[int, Optional[frozenset]]:
        """Forward intersection dataflow of condition facts.  IN[n] = facts holding on every
        path (over edges of the given kinds) from entry to n, after killing facts whose
        variables are re-bound."""
        IN: Dict[int, Optional[frozenset]] = {n.id: None for n in self.nodes}
        IN[self.entry] = frozenset()
        kill = {n.id: _killed_names(n) for n in self.nodes}
        work = [self.entry]
        out_cache: Dict[int, frozenset] = {}

        gen = {n.id: frozenset(self._gen_facts(n)) for n in self.nodes}

        def OUT(nid):
            facts = IN[nid]
            ks = kill[nid]
            if not ks:
                return facts
            return frozenset(f for f in facts if not _fact_mentions(f, ks)) | gen[nid]

        while work:
            n = work.pop()
            o = OUT(n)
            for (b, k, ef) in self.succ[n]:
                if k not in kinds:
                    continue
                new = o | frozenset(ef)
                # contradictory facts cannot arise on a feasible path; keep both (harmless)
                cur = IN[b]
                merged = new if cur is None else (cur & new)
                if cur is None or merged != cur:
                    IN[b] = merged
                    work.append(b)
        return IN

    def paths_to(self, target: int, start: Optional[int] = None, kinds="nx", limit: int = 4000):
        """Enumerate acyclic-ish paths (each edge at most once per path) start -> target,
        yielding (node list, fact list in order with kills applied)."""
        start = self.entry if start is None else start
        results = []
        count = 0
        stack = [(start, [start], [], frozenset())]
        while stack and count < limit:
            n, path, facts, used = stack.pop()
            if n == target and len(path) > 1:
                results.append((path, facts))
                count += 1
                continue
            ks = _killed_names(self.nodes[n])
            if ks:
                dying = [f for f in facts if _fact_mentions(f, ks)]
                keep = [f for f in facts if not _fact_mentions(f, ks)]
                # what the dying (compound) facts imply about conditions that do not mention the re-bound names survives
                derived = []
                if any((" and " in t or " or " in t or t.startswith("not ")) for (t, _p) in dying):
                    atoms = set()
                    for (t, _p) in dying:
                        try:
                            _prop_atoms(_prop(ast.parse(t, mode="eval").body), atoms)
                        except SyntaxError:
                            pass
                    for at in sorted(atoms):
                        if _fact_mentions((at, True), ks) or (at, True) in keep or (at, False) in keep:
                            continue
                        for pol in (True, False):
                            if entails(facts, at, pol):
                                derived.append((at, pol))
                facts = keep + derived + self._gen_facts(self.nodes[n])
            for (b, k, ef) in self.succ[n]:
                if k not in kinds:
                    continue
                e = (n, b)
                if e in used:
                    continue
                # an edge whose condition contradicts what the path has established cannot be taken
                if any((t, not p) in facts for (t, p) in ef):
                    continue
                stack.append((b, path + [b], facts + list(ef), used | {e}))
        return results, (count >= limit)


_RAISING = (ast.Call, ast.Subscript, ast.Attribute, ast.BinOp, ast.Compare, ast.Await, ast.Yield, ast.YieldFrom,
            ast.Starred, ast.ListComp, ast.DictComp, ast.SetComp, ast.GeneratorExp, ast.UnaryOp)


def _may_raise(st: ast.AST) -> bool:
    """False only for statements that evidently cannot raise (binding constants / names to plain names, pass, def)."""
    if isinstance(st, (ast.Pass, ast.Global, ast.Nonlocal)):
        return False
    if isinstance(st, (ast.FunctionDef, ast.AsyncFunctionDef)) and not st.decorator_list:
        return False
    if isinstance(st, (ast.Assign, ast.AnnAssign)):
        tg = st.targets if isinstance(st, ast.Assign) else [st.target]
        if all(isinstance(t, ast.Name) for t in tg) and st.value is not None:
            return any(isinstance(x, _RAISING) or (isinstance(x, ast.Name) and False) for x in ast.walk(st.value))
    if isinstance(st, ast.If) or isinstance(st, ast.While):
        return any(isinstance(x, _RAISING) for x in ast.walk(st.test))
    if isinstance(st, ast.Expr) and isinstance(st.value, ast.Constant):
        return False
    return True


def own_exprs(st: ast.AST) -> List[ast.AST]:
    """The expressions evaluated by the CFG node of this statement itself (header of compound statements)."""
    if isinstance(st, (ast.If, ast.While)):
        return [st.test]
    if isinstance(st, (ast.For, ast.AsyncFor)):
        return [st.iter, st.target]
    if isinstance(st, (ast.With, ast.AsyncWith)):
        out = []
        for it in st.items:
            out.append(it.context_expr)
            if it.optional_vars is not None:
                out.append(it.optional_vars)
        return out
    if isinstance(st, ast.Try):
        return []
    if isinstance(st, ast.ExceptHandler):
        return [st.type] if st.type is not None else []
    if isinstance(st, (ast.FunctionDef, ast.AsyncFunctionDef, ast.ClassDef)):
        return list(st.decorator_list)
    if hasattr(ast, "Match") and isinstance(st, ast.Match):
        return [st.subject]
    return [st]


def _killed_names(n: Node) -> Set[str]:
    a = n.ast
    if a is None:
        return set()
    out: Set[str] = set()

    def tgt(t):
        if isinstance(t, ast.Name):
            out.add(t.id)
        elif isinstance(t, ast.Attribute):
            from .core import dotted
            d = dotted(t)
            if d:
                out.add(d)
        elif isinstance(t, ast.Subscript):
            from .core import dotted
            d = dotted(t.value)
            if d:
                out.add(d + "[")
        elif isinstance(t, (ast.Tuple, ast.List)):
            for e in t.elts:
                tgt(e)
        elif isinstance(t, ast.Starred):
            tgt(t.value)

    if isinstance(a, ast.Assign):
        for t in a.targets:
            tgt(t)
    elif isinstance(a, (ast.AugAssign, ast.AnnAssign)):
        tgt(a.target)
    elif isinstance(a, (ast.For, ast.AsyncFor)):
        tgt(a.target)
    elif isinstance(a, (ast.With, ast.AsyncWith)):
        for it in a.items:
            if it.optional_vars is not None:
                tgt(it.optional_vars)
    elif isinstance(a, ast.ExceptHandler) and a.name:
        out.add(a.name)
    elif isinstance(a, ast.Delete):
        for t in a.targets:
            tgt(t)
    elif isinstance(a, (ast.FunctionDef, ast.AsyncFunctionDef, ast.ClassDef)):
        out.add(a.name)
    for sub in own_exprs(a):
        for x in walk_no_nested(sub):
            if isinstance(x, ast.NamedExpr):
                tgt(x.target)
    return out


def _fact_mentions(f: Fact, names: Set[str]) -> bool:
    text = f[0]
    import re

    for n in names:
        if n.endswith("["):
            if n in text:
                return True
            continue
        if re.search(r"(?<![\w.])" + re.escape(n) + r"(?![\w])", text):
            return True
    return False


# -- propositional reasoning over branch facts ------------------------------------------------------------------
def _prop(node):
    """boolean structure of a condition: ('not', x) | ('and', [..]) | ('or', [..]) | ('atom', text, polarity)"""
    if isinstance(node, ast.UnaryOp) and isinstance(node.op, ast.Not):
        return ("not", _prop(node.operand))
    if isinstance(node, ast.BoolOp):
        return ("and" if isinstance(node.op, ast.And) else "or", [_prop(v) for v in node.values])
    if isinstance(node, ast.Compare) and len(node.ops) == 1:
        flip = {ast.IsNot: ast.Is, ast.NotEq: ast.Eq, ast.NotIn: ast.In}
        for neg, posi in flip.items():
            if isinstance(node.ops[0], neg):
                t = ast.Compare(left=node.left, ops=[posi()], comparators=node.comparators)
                return ("not", ("atom", canon(ast.fix_missing_locations(ast.copy_location(t, node)))))
    if isinstance(node, ast.NamedExpr):
        return _prop(node.value)
    return ("atom", canon(node))


def _prop_atoms(p, acc):
    if p[0] == "atom":
        acc.add(p[1])
    elif p[0] == "not":
        _prop_atoms(p[1], acc)
    else:
        for x in p[1]:
            _prop_atoms(x, acc)


def _prop_eval(p, val):
    if p[0] == "atom":
        return val[p[1]]
    if p[0] == "not":
        return not _prop_eval(p[1], val)
    if p[0] == "and":
        return all(_prop_eval(x, val) for x in p[1])
    return any(_prop_eval(x, val) for x in p[1])


def entails(facts, text, pol=True, max_atoms=12):
    """Do the branch facts (atomic and compound (text, polarity) pairs, as the CFG records them) imply that the condition `text` has truth value
    `pol`?  Decided by enumerating the truth assignments of the atoms (conditions are treated as uninterpreted propositions; the facts of one path
    are consistent by construction because assignments kill the facts that mention the assigned name).  None if too many atoms."""
    import itertools
    try:
        goal = _prop(ast.parse(text, mode="eval").body)
    except SyntaxError:
        return False
    forms = []
    for (t, p) in facts:
        try:
            f = _prop(ast.parse(t, mode="eval").body)
        except SyntaxError:
            continue
        forms.append(f if p else ("not", f))
    atoms = set()
    _prop_atoms(goal, atoms)
    rel = []
    # only facts that share atoms (transitively) with the goal matter
    frontier = set(atoms)
    pool = list(forms)
    changed = True
    while changed:
        changed = False
        for f in list(pool):
            a = set()
            _prop_atoms(f, a)
            if a & frontier:
                rel.append(f)
                pool.remove(f)
                if not a <= frontier:
                    frontier |= a
                changed = True
    names = sorted(frontier)
    if len(names) > max_atoms:
        return None
    sat = False
    for bits in itertools.product((False, True), repeat=len(names)):
        val = dict(zip(names, bits))
        if all(_prop_eval(f, val) for f in rel):
            sat = True
            if _prop_eval(goal, val) != pol:
                return False
    return sat
