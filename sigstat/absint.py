"""sigstat.absint - a small abstract evaluator over *shapes*.

Some obligations quantify over a value whose influence on the code is only through finitely many shapes (a scalar, or a
sequence of length 0..4; None or not None).  For those the branch can be evaluated abstractly once per shape: values are
symbolic terms, sequence shapes are tuples of symbols, tests over shapes (isinstance, len comparisons, `is None`) are
decided, everything else stays symbolic.  Nothing of the analysed program is executed; the evaluator walks the syntax tree
and gives up (Unknown) on every construct it does not model, so a verdict is only ever derived from fully modelled paths.
"""
from __future__ import annotations

import ast
from dataclasses import dataclass
from typing import Dict, List, Optional, Tuple


class Unknown:
    def __repr__(self):
        return "?"


UNK = Unknown()


@dataclass(frozen=True)
class Sym:
    name: str

    def __repr__(self):
        return self.name


@dataclass(frozen=True)
class Seq:
    items: tuple
    kind: str = "list"  # list | tuple

    def __repr__(self):
        return "[" + ", ".join(map(repr, self.items)) + "]"


@dataclass(frozen=True)
class Const:
    value: object

    def __repr__(self):
        return repr(self.value)


@dataclass(frozen=True)
class App:
    fn: str
    args: tuple

    def __repr__(self):
        return f"{self.fn}({', '.join(map(repr, self.args))})"


class Raised(Exception):
    def __init__(self, exc):
        self.exc = exc


class GiveUp(Exception):
    def __init__(self, why, node=None):
        self.why = why
        self.node = node


# conversions that keep the value (for the purpose of "which input reaches which parameter")
TRANSPARENT = {"float", "int", "abs", "str"}
SEQ_TYPES = {"list": "list", "tuple": "tuple"}


class Evaluator:
    def __init__(self, env: Dict[str, object]):
        self.env = dict(env)
        self.closures: Dict[str, Tuple[ast.FunctionDef, Dict[str, object]]] = {}

    # -- expressions ---------------------------------------------------------
    def ev(self, e: ast.AST):
        if isinstance(e, ast.Constant):
            return Const(e.value)
        if isinstance(e, ast.Name):
            if e.id in self.env:
                return self.env[e.id]
            return Sym("global:" + e.id)
        if isinstance(e, (ast.Tuple, ast.List)):
            items = []
            for x in e.elts:
                if isinstance(x, ast.Starred):
                    v = self.ev(x.value)
                    if not isinstance(v, Seq):
                        raise GiveUp("star of a non-sequence shape", x)
                    items.extend(v.items)
                else:
                    items.append(self.ev(x))
            return Seq(tuple(items), "tuple" if isinstance(e, ast.Tuple) else "list")
        if isinstance(e, ast.Subscript):
            v = self.ev(e.value)
            if isinstance(v, Const) and isinstance(v.value, (str, bytes, tuple)):
                if isinstance(e.slice, ast.Slice):
                    return Const(v.value[slice(self._const_or_none(e.slice.lower), self._const_or_none(e.slice.upper), self._const_or_none(e.slice.step))])
                i = self.ev(e.slice)
                if isinstance(i, Const) and isinstance(i.value, int):
                    try:
                        return Const(v.value[i.value])
                    except IndexError:
                        raise Raised("IndexError")
            if isinstance(v, Seq):
                if isinstance(e.slice, ast.Slice):
                    lo = self._const_or_none(e.slice.lower)
                    hi = self._const_or_none(e.slice.upper)
                    st = self._const_or_none(e.slice.step)
                    return Seq(tuple(v.items[slice(lo, hi, st)]), v.kind)
                i = self.ev(e.slice)
                if isinstance(i, Const) and isinstance(i.value, int):
                    try:
                        return v.items[i.value]
                    except IndexError:
                        raise Raised("IndexError")
            raise GiveUp("subscript of a non-sequence shape", e)
        if isinstance(e, ast.UnaryOp) and isinstance(e.op, ast.Not):
            return Const(not self.truth(e.operand))
        if isinstance(e, ast.UnaryOp) and isinstance(e.op, ast.USub):
            v = self.ev(e.operand)
            if isinstance(v, Const) and isinstance(v.value, (int, float)):
                return Const(-v.value)
            return App("neg", (v,))
        if isinstance(e, ast.BoolOp):
            vals = [self.truth(v) for v in e.values]
            return Const(all(vals) if isinstance(e.op, ast.And) else any(vals))
        if isinstance(e, ast.IfExp):
            return self.ev(e.body) if self.truth(e.test) else self.ev(e.orelse)
        if isinstance(e, ast.Compare):
            return Const(self._compare(e))
        if isinstance(e, ast.BinOp) and isinstance(e.op, ast.Add):
            a, b = self.ev(e.left), self.ev(e.right)
            if isinstance(a, Seq) and isinstance(b, Seq):
                return Seq(a.items + b.items, a.kind)
            if isinstance(a, Const) and isinstance(b, Const):
                try:
                    return Const(a.value + b.value)
                except Exception:
                    pass
            return App("add", (a, b))
        if isinstance(e, ast.BinOp) and isinstance(e.op, ast.Mult):
            a, b = self.ev(e.left), self.ev(e.right)
            if isinstance(a, Seq) and isinstance(b, Const) and isinstance(b.value, int):
                return Seq(a.items * b.value, a.kind)
            return App("mul", (a, b))
        if isinstance(e, ast.Call):
            return self._call(e)
        raise GiveUp(f"expression {type(e).__name__} not modelled", e)

    def _const_or_none(self, e):
        if e is None:
            return None
        v = self.ev(e)
        if isinstance(v, Const) and (v.value is None or isinstance(v.value, int)):
            return v.value
        raise GiveUp("non-constant slice bound", e)

    def _call(self, e: ast.Call):
        f = e.func
        if isinstance(f, ast.Name):
            if f.id == "len" and len(e.args) == 1:
                v = self.ev(e.args[0])
                if isinstance(v, Const) and isinstance(v.value, (str, bytes, tuple, list, dict)):
                    return Const(len(v.value))
                if isinstance(v, Seq):
                    return Const(len(v.items))
                if isinstance(v, Sym):
                    raise Raised("TypeError")  # len() of a scalar
                raise GiveUp("len of unknown shape", e)
            if f.id == "isinstance" and len(e.args) == 2:
                v = self.ev(e.args[0])
                names = [x.id for x in ([e.args[1]] if isinstance(e.args[1], ast.Name) else getattr(e.args[1], "elts", [])) if isinstance(x, ast.Name)]
                if not names:
                    raise GiveUp("isinstance against an unmodelled type", e)
                if isinstance(v, Seq):
                    if all(n in ("list", "tuple", "Sequence", "float", "int", "str", "Number", "dict", "Mapping") for n in names):
                        return Const(v.kind in names or "Sequence" in names)
                    raise GiveUp("isinstance against an unmodelled type", e)
                if isinstance(v, Sym):
                    if all(n in ("list", "tuple", "Sequence", "dict", "Mapping") for n in names):
                        return Const(False)
                    raise GiveUp("isinstance of a scalar against a scalar type", e)
                raise GiveUp("isinstance of unknown shape", e)
            if f.id in ("list", "tuple") and len(e.args) == 1:
                v = self.ev(e.args[0])
                if isinstance(v, Seq):
                    return Seq(v.items, f.id)
                raise GiveUp("list() of a non-sequence", e)
            if f.id in TRANSPARENT and len(e.args) == 1 and not e.keywords:
                v = self.ev(e.args[0])
                if isinstance(v, Seq):
                    raise Raised("TypeError")
                if isinstance(v, Const) and isinstance(v.value, (int, float)) and f.id == "float":
                    return Const(float(v.value))
                return v
            if f.id in ("ValueError", "TypeError", "KeyError", "RuntimeError"):
                return App(f.id, ())
            if f.id == "partial" and e.args and isinstance(e.args[0], (ast.Name, ast.Attribute)) and not any(k.arg is None for k in e.keywords):
                # functools.partial(fn, *args, **kw): remembered symbolically (the rule reads the bound arguments)
                fn_name = ast.unparse(e.args[0]).split(".")[-1]
                return App("partial:" + fn_name, tuple(self.ev(a) for a in e.args[1:]) + tuple(("kw", k.arg, self.ev(k.value)) for k in e.keywords))
        if isinstance(f, ast.Attribute) and f.attr in ("startswith", "endswith", "strip", "lower", "upper") and all(isinstance(a, ast.Constant) for a in e.args):
            v = self.ev(f.value)
            if isinstance(v, Const) and isinstance(v.value, str):
                return Const(getattr(v.value, f.attr)(*[a.value for a in e.args]))
        raise GiveUp("call not modelled: " + ast.unparse(e)[:40], e)

    def _compare(self, e: ast.Compare) -> bool:
        left = self.ev(e.left)
        res = True
        for op, rc in zip(e.ops, e.comparators):
            right = self.ev(rc)
            if isinstance(op, (ast.Is, ast.IsNot)) and isinstance(right, Const) and right.value is None:
                isnone = isinstance(left, Const) and left.value is None
                if not isinstance(left, (Const, Sym, Seq)):
                    raise GiveUp("identity test on unknown", e)
                r = isnone if isinstance(op, ast.Is) else not isnone
            elif isinstance(left, Const) and isinstance(right, Const):
                a, b = left.value, right.value
                try:
                    r = {ast.Eq: a == b, ast.NotEq: a != b}.get(type(op))
                    if r is None:
                        r = {ast.Lt: lambda: a < b, ast.LtE: lambda: a <= b, ast.Gt: lambda: a > b, ast.GtE: lambda: a >= b,
                             ast.In: lambda: a in b, ast.NotIn: lambda: a not in b}[type(op)]()
                except Exception:
                    raise GiveUp("comparison not decidable", e)
            elif isinstance(left, Const) and isinstance(right, Seq) and isinstance(op, (ast.In, ast.NotIn)) and all(isinstance(x, Const) for x in right.items):
                r = (left.value in [x.value for x in right.items])
                r = r if isinstance(op, ast.In) else not r
            else:
                raise GiveUp("comparison over symbolic values", e)
            res = res and r
            left = right
        return res

    def truth(self, e: ast.AST) -> bool:
        v = self.ev(e)
        if isinstance(v, Const):
            return bool(v.value)
        if isinstance(v, Seq):
            return len(v.items) > 0
        raise GiveUp("truth value of a symbolic scalar", e)

    # -- statements ----------------------------------------------------------
    def assign(self, target: ast.AST, v):
        if isinstance(target, ast.Name):
            self.env[target.id] = v
            return
        if isinstance(target, (ast.Tuple, ast.List)):
            if not isinstance(v, Seq):
                if isinstance(v, Sym):
                    raise Raised("TypeError")
                raise GiveUp("unpacking a non-sequence", target)
            stars = [i for i, t in enumerate(target.elts) if isinstance(t, ast.Starred)]
            if not stars:
                if len(v.items) != len(target.elts):
                    raise Raised("ValueError")
                for t, x in zip(target.elts, v.items):
                    self.assign(t, x)
                return
            if len(stars) == 1:
                i = stars[0]
                after = len(target.elts) - i - 1
                if len(v.items) < len(target.elts) - 1:
                    raise Raised("ValueError")
                for t, x in zip(target.elts[:i], v.items[:i]):
                    self.assign(t, x)
                self.assign(target.elts[i].value, Seq(tuple(v.items[i:len(v.items) - after]), "list"))
                for t, x in zip(target.elts[i + 1:], v.items[len(v.items) - after:] if after else ()):
                    self.assign(t, x)
                return
        raise GiveUp("assignment target not modelled", target)

    def run(self, stmts: List[ast.stmt]):
        """Evaluate a statement list; raises Raised / GiveUp; returns ("fall", None) or ("return", value)."""
        for s in stmts:
            if isinstance(s, ast.Assign):
                v = self.ev(s.value)
                for t in s.targets:
                    self.assign(t, v)
            elif isinstance(s, ast.AnnAssign) and s.value is not None:
                self.assign(s.target, self.ev(s.value))
            elif isinstance(s, ast.If):
                r = self.run(s.body if self.truth(s.test) else s.orelse)
                if r[0] != "fall":
                    return r
            elif isinstance(s, ast.Raise):
                name = "Exception"
                if s.exc is not None:
                    f = s.exc.func if isinstance(s.exc, ast.Call) else s.exc
                    name = ast.unparse(f)
                raise Raised(name)
            elif isinstance(s, ast.Return):
                return ("return", self.ev(s.value) if s.value is not None else Const(None))
            elif isinstance(s, ast.FunctionDef):
                self.closures[s.name] = (s, None)
                self.env[s.name] = Sym("closure:" + s.name)
            elif isinstance(s, ast.Expr) and isinstance(s.value, ast.Constant):
                continue
            elif isinstance(s, ast.Pass):
                continue
            elif isinstance(s, ast.Try):
                try:
                    r = self.run(s.body)
                    if r[0] != "fall":
                        return r
                except Raised as ex:
                    for h in s.handlers:
                        names = [] if h.type is None else [ast.unparse(x) for x in (h.type.elts if isinstance(h.type, ast.Tuple) else [h.type])]
                        if h.type is None or ex.exc in names or "Exception" in names:
                            r = self.run(h.body)
                            if r[0] != "fall":
                                return r
                            break
                    else:
                        raise
            else:
                raise GiveUp(f"statement {type(s).__name__} not modelled", s)
        return ("fall", None)
