"""C08 - the state point cache is transparent, and update_cache makes it exact."""
import ast

from ..engine import rule, Ctx
from ..core import UNKNOWN, dotted, kwarg, body_nodes, inline, stmt_key, canon, walk_no_nested, names_in  # noqa
from . import common
from .c03 import _own

PROP = "C08"
FLOOR = 10
EXPLANATION = (
    "Decided (structural necessary conditions): (a) the in-memory cache Project._sp_cache is enumerated (iterated, "
    "set()/list()/len(), keys/items/values) only by the three maintenance functions _update_in_memory_cache, update_cache "
    "and _read_cache; listing, length, membership, prefix resolution and queries use it at most for keyed lookup, i.e. the "
    "job listing always comes from the directory; (b) in update_cache the decision to rewrite the file compares the *id sets* "
    "of the file content and of the in-memory cache, and every cache-derived operand of that comparison is defined after "
    "the call that reconciles the cache with the workspace; (c) what is serialised is self._sp_cache after the reconcile "
    "call, and _update_in_memory_cache removes `cached - listed` and adds `listed - cached`, neither step being conditional "
    "on the other set being non-empty; values added come from the validating workspace reader."
    ' (e) No mutable object bound in a class body (Project, Job, JobsCursor, _StatePointDict) is modified through an instance; (f) the cache-filling loops carry nothing from one id to the next.'
    ' A helper that slices a parameter is never handed a value that is evidently a set; in _read_cache the file content overrides entries already in memory.'
)
UNDECIDED = "Equality of query results with a fresh / stale / deleted cache file over histories is behavioural and not decided."

UPD = "signac.project:Project.update_cache"
MEM = "signac.project:Project._update_in_memory_cache"
MAINT = {UPD, MEM, "signac.project:Project._read_cache"}


def _is_cache(e):
    return isinstance(e, ast.Attribute) and e.attr == "_sp_cache"


@rule("C08-a")
def c08_a(ctx: Ctx):
    """Listing never comes from the cache: _sp_cache is enumerated only by the maintenance functions."""
    R = "C08-a"
    out = []
    n_keyed = 0
    for fi in ctx.prog.funcs.values():
        if fi.module.is_dep or fi.module.name == "signac.__main__":
            continue
        pm = ctx.parents(fi)
        for n in body_nodes(fi):
            if not _is_cache(n):
                continue
            par = pm.get(id(n))
            enum = None
            if isinstance(par, (ast.For, ast.comprehension)) and par.iter is n:
                enum = "iteration"
            elif isinstance(par, ast.Call) and n in par.args and isinstance(par.func, ast.Name) and par.func.id in (
                    "set", "list", "tuple", "len", "sorted", "iter", "dict", "frozenset", "enumerate", "max", "min", "any", "all", "next"):
                enum = par.func.id + "()"
            elif isinstance(par, ast.Attribute) and par.attr in ("keys", "items", "values", "copy"):
                enum = "." + par.attr + "()"
            elif isinstance(par, ast.Starred) or (isinstance(par, ast.Dict)):
                enum = "unpacking"
            if enum is None:
                n_keyed += 1
                continue
            # enumeration that only feeds a log message is not a listing
            cur, in_log = par, False
            while cur is not None and not isinstance(cur, ast.stmt):
                if isinstance(cur, ast.Call) and canon(cur.func).startswith(("logger.", "logging.", "warnings.")):
                    in_log = True
                cur = pm.get(id(cur))
            if in_log:
                n_keyed += 1
                continue
            root = fi
            while root.parent is not None:
                root = root.parent
            if root.qual in MAINT:
                out.append(ctx.ok(R, fi, n, f"{enum} of _sp_cache inside cache maintenance ({root.name})"))
            else:
                out.append(ctx.viol(R, fi, n, f"{fi.qual.split(':')[-1]} enumerates the state point cache ({enum}): the cache is a superset that may hold removed or "
                                    "foreign ids, so listings / prefix matches / counts taken from it differ from the workspace when the cache file is stale"))
    out.append(ctx.ok(R, None, None, f"{n_keyed} other uses of _sp_cache are keyed lookups / stores", construct="_sp_cache|keyed", nontrivial=False))
    # membership in the cache is not evidence that a job exists (the cache is a superset)
    n_mem = 0
    for fi in ctx.prog.funcs.values():
        if fi.module.is_dep or fi.module.name == "signac.__main__":
            continue
        root = fi
        while root.parent is not None:
            root = root.parent
        for n in body_nodes(fi):
            if isinstance(n, ast.Compare) and len(n.ops) == 1 and isinstance(n.ops[0], (ast.In, ast.NotIn)) and _is_cache(n.comparators[0]):
                n_mem += 1
                if root.qual in MAINT:
                    out.append(ctx.ok(R, fi, n, "membership test on _sp_cache inside cache maintenance"))
                else:
                    out.append(ctx.viol(R, fi, n, f"{fi.qual.split(':')[-1]} takes `{canon(n)[:40]}` as evidence about a job: the cache keeps ids of removed jobs (and of jobs that were only opened), "
                                        "so the answer differs between a fresh, a stale and a deleted cache file"))
    # the listing functions read the directory
    jd = ctx.fn("signac.project:Project._job_dirs")
    if any(common.ext_name(ctx, jd, c) in ("os.listdir", "os.scandir") for c in body_nodes(jd) if isinstance(c, ast.Call)):
        out.append(ctx.ok(R, jd, jd.node, "_job_dirs lists the workspace directory"))
    else:
        out.append(ctx.viol(R, jd, jd.node, "_job_dirs does not list the workspace directory"))
    return out


@rule("C08-b")
def c08_b(ctx: Ctx):
    """update_cache decides on the reconciled cache and compares id sets."""
    R = "C08-b"
    fi = ctx.fn(UPD)
    cfg = ctx.cfg(fi)
    out = []
    rec = common.ids_of(ctx, fi, [s for s, _ in common.stmts_containing_call_to(ctx, fi, quals=(MEM,))])
    if not rec:
        return [ctx.viol(R, fi, fi.node, "update_cache never reconciles the in-memory cache with the workspace")]
    opens = [e for e in ctx.effects.direct(fi) if e.kind == "open-write"]
    if not opens:
        return [ctx.inc(R, fi, fi.node, "no cache file write")]
    pm = ctx.parents(fi)
    guard = None
    cur = pm.get(id(opens[0].node))
    while cur is not None:
        if isinstance(cur, ast.If) and common.in_body_of(ctx, fi, opens[0].node, cur, ("body",)):
            guard = cur
            break
        cur = pm.get(id(cur))
    if guard is None:
        return [ctx.info(R, fi, opens[0].node, "the cache file is rewritten unconditionally (always exact, second call not a no-op)")]
    # operands derived from _sp_cache
    def sp_derived(e, at):
        v = common.inline_at(ctx, fi, e, at)
        return any(_is_cache(x) for x in ast.walk(v))
    test = guard.test
    comps = [c for c in ast.walk(test) if isinstance(c, ast.Compare)]
    found = False
    # a one-directional set comparison misses ids that exist only on the other side
    onedir = [c for c in ast.walk(test) if isinstance(c, ast.Call) and isinstance(c.func, ast.Attribute) and c.func.attr in ("issubset", "issuperset", "isdisjoint", "difference", "intersection")
              and (sp_derived(c.func.value, guard) or any(sp_derived(a, guard) for a in c.args))]
    onedir += [c for c in comps if len(c.ops) == 1 and isinstance(c.ops[0], (ast.LtE, ast.GtE, ast.Lt, ast.Gt)) and any(sp_derived(o, guard) for o in [c.left] + list(c.comparators))
               and not any(canon(o).startswith("len(") for o in [c.left] + list(c.comparators))]
    if onedir:
        found = True
        out.append(ctx.viol(R, fi, onedir[0], f"the rewrite decision uses the one-directional set test `{canon(onedir[0])[:60]}`: ids that exist only on one side (a job removed from the workspace "
                            "is still listed in the file, or a new one is missing) do not trigger a rewrite, and the stale file keeps answering open_job(id=...)"))
    for c in comps:
        ops = [c.left] + list(c.comparators)
        if not any(sp_derived(o, guard) for o in ops):
            continue
        found = True
        # every name in the operand that is bound from _sp_cache must be bound after the reconcile call
        for o in ops:
            for nm in [x for x in ast.walk(o) if isinstance(x, ast.Name)]:
                d = common.reaching_def(ctx, fi, nm.id, guard)
                if d is None or not any(_is_cache(x) for x in ast.walk(common.inline_at(ctx, fi, d, guard))):
                    continue
                # locate the defining statement
                for n in cfg.stmt_nodes():
                    if isinstance(n.ast, ast.Assign) and n.ast.value is d:
                        w = cfg.must_pass_before(n.id, rec, kinds="n")
                        if w is None:
                            out.append(ctx.ok(R, fi, n.ast, f"'{nm.id}' (ids of the in-memory cache) is taken after the cache was reconciled with the workspace"))
                        else:
                            out.append(ctx.viol(R, fi, n.ast, f"'{nm.id}' snapshots the in-memory cache before _update_in_memory_cache(): in a fresh session it equals the "
                                                "file content, so a stale cache file compares equal to itself and is never rewritten", witness=cfg.describe_path(w)))
            if any(_is_cache(x) for x in ast.walk(o)):
                for gid in cfg.node_ids_for(guard):
                    w = cfg.must_pass_before(gid, rec, kinds="n")
                    if w is None:
                        out.append(ctx.ok(R, fi, guard, "self._sp_cache is read in the condition after the reconcile call"))
                    else:
                        out.append(ctx.viol(R, fi, guard, "the rewrite condition reads self._sp_cache before it was reconciled", witness=cfg.describe_path(w)))
        # id sets, not counts
        txt = [canon(common.inline_at(ctx, fi, o, guard)).replace(" ", "") for o in ops]
        if any(t.startswith("len(") for t in txt):
            out.append(ctx.viol(R, fi, c, f"the rewrite decision compares sizes ({canon(c)}): after one removal and one addition (or a re-key) the counts agree while the ids differ, "
                                "and the stale file is kept"))
        elif all(t.startswith(("set(", "frozenset(", "sorted(")) or t.endswith(".keys()") for t in txt) and isinstance(c.ops[0], (ast.NotEq, ast.Eq)):
            out.append(ctx.ok(R, fi, c, "the rewrite decision compares the id sets of file content and in-memory cache"))
        else:
            out.append(ctx.inc(R, fi, c, f"comparison shape not recognised: {canon(c)}"))
        # the other side is the file content
        other = [o for o in ops if not sp_derived(o, guard)]
        if other:
            v = common.inline_at(ctx, fi, other[0], guard)
            if any(isinstance(x, ast.Call) and isinstance(x.func, ast.Attribute) and x.func.attr == "_read_cache" for x in ast.walk(v)):
                out.append(ctx.ok(R, fi, c, "the other operand is the content read from the cache file"))
            else:
                out.append(ctx.inc(R, fi, c, f"the other operand ({canon(other[0])}) is not recognisably the file content"))
        else:
            out.append(ctx.viol(R, fi, c, "both operands of the rewrite decision derive from the in-memory cache: the file content is not consulted"))
    if not found:
        out.append(ctx.inc(R, fi, guard, "the condition guarding the cache write does not compare anything derived from _sp_cache"))
    return out


@rule("C08-c")
def c08_c(ctx: Ctx):
    """What is written is the reconciled cache; reconciliation removes and adds unconditionally of each other."""
    R = "C08-c"
    out = []
    fi = ctx.fn(UPD)
    cfg = ctx.cfg(fi)
    rec = common.ids_of(ctx, fi, [s for s, _ in common.stmts_containing_call_to(ctx, fi, quals=(MEM,))])
    dumps = [c for c in body_nodes(fi) if isinstance(c, ast.Call) and common.ext_name(ctx, fi, c) in ("json.dumps", "json.dump")]
    if not dumps:
        out.append(ctx.inc(R, fi, fi.node, "no json.dumps in update_cache"))
    for d in dumps:
        a = d.args[0] if d.args else None
        if a is not None and _is_cache(common.inline_at(ctx, fi, a, d)):
            bad = None
            for nid in ctx.node_ids(fi, d):
                bad = bad or cfg.must_pass_before(nid, rec, kinds="n")
            if bad is None:
                out.append(ctx.ok(R, fi, d, "the serialised value is self._sp_cache, read after reconciliation"))
            else:
                out.append(ctx.viol(R, fi, d, "the cache is serialised on a path that skipped reconciliation", witness=cfg.describe_path(bad)))
        else:
            out.append(ctx.viol(R, fi, d, f"the cache file receives {stmt_key(a, 40) if a is not None else '?'} instead of the reconciled in-memory cache"))
    m = ctx.fn(MEM)
    env = ctx.env(m)
    defs = {}
    for n in body_nodes(m):
        if isinstance(n, ast.Assign) and len(n.targets) == 1 and isinstance(n.targets[0], ast.Name):
            defs[n.targets[0].id] = n

    # roles from the returned pair: (ids to add, ids to remove)
    rts = [r for r in body_nodes(m) if isinstance(r, ast.Return) and isinstance(r.value, ast.Tuple) and len(r.value.elts) == 2 and all(isinstance(e, ast.Name) for e in r.value.elts)]
    TA, TR = (rts[0].value.elts[0].id, rts[0].value.elts[1].id) if rts else ("to_add", "to_remove")

    def kind(e):
        v = inline(e, env)
        t = canon(v)
        if "_sp_cache" in t:
            return "cached"
        if "_job_dirs" in t or "listdir" in t:
            return "listed"
        return None

    def diff_dir(e):
        v = e
        if isinstance(v, ast.Call) and isinstance(v.func, ast.Attribute) and v.func.attr == "difference" and len(v.args) == 1:
            return kind(v.func.value), kind(v.args[0])
        if isinstance(v, ast.BinOp) and isinstance(v.op, ast.Sub):
            return kind(v.left), kind(v.right)
        return None, None
    dels = [n for n in body_nodes(m) if isinstance(n, ast.Delete) and any(isinstance(t, ast.Subscript) and _is_cache(t.value) for t in n.targets)]
    dels += [n for n in body_nodes(m) if isinstance(n, ast.Call) and isinstance(n.func, ast.Attribute) and n.func.attr == "pop" and _is_cache(n.func.value)]
    if not dels:
        out.append(ctx.viol(R, m, m.node, "_update_in_memory_cache never removes ids that are no longer in the workspace"))
    pm = ctx.parents(m)
    for d in dels:
        cur = pm.get(id(d))
        lp = None
        while cur is not None:
            if isinstance(cur, ast.For):
                lp = cur
                break
            cur = pm.get(id(cur))
        src = lp.iter if lp is not None else None
        dd = diff_dir(inline(src, env)) if src is not None else (None, None)
        if dd == ("cached", "listed"):
            out.append(ctx.ok(R, m, d, "ids in `cached - listed` are removed from the in-memory cache"))
        else:
            out.append(ctx.inc(R, m, d, f"removal loop iterates {canon(src) if src is not None else '?'} ({dd})"))
        facts = common.facts_at(ctx, m, d, "n")
        gating = [f for f in facts if f[1] and (TA in f[0] or TR in f[0])]
        bad = [f for f in gating if TR not in f[0]]
        if bad:
            out.append(ctx.viol(R, m, d, f"removal of stale ids happens only when {bad[0][0]} holds: with removals only (nothing to add) stale ids stay in the cache and are written to the file"))
        else:
            out.append(ctx.ok(R, m, d, "removal is not conditional on there being something to add"))
    # additions
    adder = m.nested.get("_add")
    stores = []
    for f in [m] + list(m.nested_all):
        for n in body_nodes(f):
            if isinstance(n, ast.Assign) and any(isinstance(t, ast.Subscript) and _is_cache(t.value) for t in n.targets):
                stores.append((f, n))
    if not stores:
        out.append(ctx.viol(R, m, m.node, "_update_in_memory_cache never adds ids that are new in the workspace"))
    for f, n in stores:
        v = n.value
        if isinstance(v, ast.Call) and "signac.project:Project._get_statepoint_from_workspace" in common.targets_of(ctx, f, v):
            va = kwarg(v, "validate") or (v.args[1] if len(v.args) > 1 else None)
            if va is None or ctx.fold(va, f) is True:
                out.append(ctx.ok(R, f, n, "added entries are read from the workspace with validation"))
            else:
                out.append(ctx.viol(R, f, n, "added entries are read without validation: a damaged state point file poisons the persistent cache"))
        else:
            out.append(ctx.inc(R, f, n, f"added value is {stmt_key(v, 40)}"))
    if TA in defs:
        dd = diff_dir(defs[TA].value)
        if dd == ("listed", "cached"):
            out.append(ctx.ok(R, m, defs[TA], "to_add = listed - cached"))
        else:
            out.append(ctx.viol(R, m, defs[TA], f"to_add is {canon(defs[TA].value)}: not `ids listed in the workspace minus cached ids`"))
        maps = [c for c in body_nodes(m) if isinstance(c, ast.Call) and isinstance(c.func, ast.Attribute) and c.func.attr in ("map", "imap", "starmap")]
        for c in maps:
            facts = common.facts_at(ctx, m, c, "n")
            bad = [f for f in facts if f[1] and TR in f[0] and TA not in f[0]]
            if bad:
                out.append(ctx.viol(R, m, c, f"new ids are added only when {bad[0][0]} holds"))
            else:
                out.append(ctx.ok(R, m, c, "additions are not conditional on there being something to remove"))
    if TR in defs:
        dd = diff_dir(defs[TR].value)
        if dd == ("cached", "listed"):
            out.append(ctx.ok(R, m, defs[TR], "to_remove = cached - listed"))
        else:
            out.append(ctx.viol(R, m, defs[TR], f"to_remove is {canon(defs[TR].value)}: not `cached ids minus ids listed in the workspace`"))
    if TA not in defs or TR not in defs:
        out.append(ctx.inc(R, m, m.node, "the sets of ids to add / to remove (the returned pair) were not found"))
    return out


@rule("C08-d")
def c08_d(ctx: Ctx):
    """The snapshot of the file content is a separate object from the in-memory cache; chunked reading covers every id."""
    R = "C08-d"
    out = []
    rc = ctx.fn("signac.project:Project._read_cache")
    rets = [r for r in body_nodes(rc) if isinstance(r, ast.Return) and r.value is not None]
    rnames = {canon(r.value) for r in rets}
    alias = [n for n in body_nodes(rc) if isinstance(n, ast.Assign) and any(_is_cache(t) for t in n.targets) and canon(n.value) in rnames]
    alias += [n for n in body_nodes(rc) if isinstance(n, ast.Assign) and _is_cache(n.value) and any(canon(t) in rnames for t in n.targets)]
    alias += [r for r in rets if _is_cache(r.value)]
    if alias:
        out.append(ctx.viol(R, rc, alias[0], f"_read_cache makes the returned file content and self._sp_cache the same object ({stmt_key(alias[0], 40)}): update_cache then compares the reconciled "
                            "cache with itself, never rewrites a stale file and reports 'up to date'"))
    else:
        upd = [c for c in body_nodes(rc) if isinstance(c, ast.Call) and isinstance(c.func, ast.Attribute) and c.func.attr == "update" and _is_cache(c.func.value)]
        # dict-union spellings: self._sp_cache = self._sp_cache | cache / {**self._sp_cache, **cache} / self._sp_cache |= cache  (right operand wins)
        kprec = rc.qual + "|file-content-wins"
        unions = []
        for n in body_nodes(rc):
            if isinstance(n, ast.Assign) and any(_is_cache(t) for t in n.targets):
                v = n.value
                if isinstance(v, ast.BinOp) and isinstance(v.op, ast.BitOr):
                    unions.append((n, "mem-left" if _is_cache(v.left) else ("mem-right" if _is_cache(v.right) else "?")))
                elif isinstance(v, ast.Dict) and all(k is None for k in v.keys) and len(v.values) == 2:
                    unions.append((n, "mem-left" if _is_cache(v.values[0]) else ("mem-right" if _is_cache(v.values[1]) else "?")))
            elif isinstance(n, ast.AugAssign) and isinstance(n.op, ast.BitOr) and _is_cache(n.target):
                unions.append((n, "mem-left"))
        rev = [c for c in body_nodes(rc) if isinstance(c, ast.Call) and isinstance(c.func, ast.Attribute) and c.func.attr == "update" and c.args and _is_cache(c.args[0])
               and canon(c.func.value) in rnames]
        if upd:
            out.append(ctx.ok(R, rc, upd[0], "the file content is merged into the in-memory cache with update(); the returned snapshot stays a separate object"))
            out.append(ctx.ok(R, rc, upd[0], "entries read from the cache file override entries already in memory", construct=kprec))
        elif unions and all(w == "mem-left" for _n, w in unions):
            out.append(ctx.ok(R, rc, unions[0][0], "the file content is merged over the in-memory cache (right operand of the union wins)", construct=kprec))
        elif (unions and any(w == "mem-right" for _n, w in unions)) or rev:
            n0 = [n for n, w in unions if w == "mem-right"][0] if unions else rev[0]
            out.append(ctx.viol(R, rc, n0, f"`{stmt_key(n0, 50)}` lets entries already in memory win over the cache file: repair() re-reads the file precisely so that the persistent cache "
                                "overrides what an unvalidated look-up (_get_statepoint(validate=False)) put into memory for a damaged job; with this precedence the foreign state point survives "
                                "and a later repair() keeps failing although the cache knows the right one", construct=kprec))
        else:
            out.append(ctx.inc(R, rc, rc.node, "_read_cache does not merge the file content with update()"))
    st = ctx.fn("signac.job:Job.statepoint.setter")
    scfg = ctx.cfg(st)
    regs = [n for n in scfg.stmt_nodes() if n.kind == "stmt" and any(isinstance(c, ast.Call) and isinstance(c.func, ast.Attribute) and c.func.attr == "_register" for c in walk_no_nested(n.ast))]
    resets = {n.id for n in scfg.stmt_nodes() if n.kind == "stmt" and any(isinstance(c, ast.Call) and isinstance(c.func, ast.Attribute) and c.func.attr == "reset" for c in walk_no_nested(n.ast))}
    for rg in regs:
        # not reachable through an exception edge out of the re-key (e.g. from a `finally`)
        exc_succ = [b for r in resets for (b, k, _f) in scfg.succ.get(r, []) if k in "xu"]
        via_exc = exc_succ and rg.id in (scfg.reachable(exc_succ, kinds="nxu") | set(exc_succ))
        if via_exc:
            out.append(ctx.viol(R, st, rg.ast, "the new state point is registered also when the re-key raised (the registration is reachable through the exceptional exit of reset(), e.g. a "
                                "`finally`): after a refused assignment (DestinationExistsError) self.id is still the old id, so the cache maps the old id to a state point that does not "
                                "hash to it, open_job(id=old) serves it and update_cache() persists it", construct=st.qual + "|register-after-failed-rekey"))
            continue
        # the id under which the state point is registered is read after the re-key
        stale = None
        for c in [x for x in walk_no_nested(rg.ast) if isinstance(x, ast.Call) and isinstance(x.func, ast.Attribute) and x.func.attr == "_register" and x.args]:
            a0 = c.args[0]
            if isinstance(a0, ast.Name):
                defs = [n for n in scfg.stmt_nodes() if isinstance(n.ast, ast.Assign) and any(isinstance(t, ast.Name) and t.id == a0.id for t in n.ast.targets)]
                for d in defs:
                    if any(r in scfg.reachable([d.id], kinds="n") for r in resets) and "id" in canon(d.ast.value):
                        stale = (d, a0.id)
        if stale:
            out.append(ctx.viol(R, st, rg.ast, f"the state point is registered under `{stale[1]}`, which was read (`{stmt_key(stale[0].ast, 40)}`) before the re-key: the cache maps the *old* id to the "
                                "new state point, open_job(id=old) in the same session hands out a job whose id is not the hash of its state point", construct=st.qual + "|register-id-fresh"))
            continue
        w = scfg.must_pass_before(rg.id, resets, kinds="n")
        if w is None and resets:
            out.append(ctx.ok(R, st, rg.ast, "the new state point is registered under self.id only after the re-key changed the id"))
        else:
            out.append(ctx.viol(R, st, rg.ast, "the new state point is registered before the re-key: self.id is still the old id, so the cache maps the old id to the new state point - an entry that is "
                                "not keyed by its content hash and is wrong whenever the re-key is refused or the old state point is re-created"))
    sp = ctx.fn("signac.project:_split_and_print_progress")
    ys = [n for n in body_nodes(sp) if isinstance(n, ast.Yield) and n.value is not None]
    open_tail = [y for y in ys if isinstance(y.value, ast.Subscript) and isinstance(y.value.slice, ast.Slice) and y.value.slice.upper is None]
    whole = [y for y in ys if isinstance(y.value, ast.Name)]
    # the chunk length: a local computed by floor division of the length of the input (whatever it is called)
    floor = any(isinstance(n, ast.Assign) and len(n.targets) == 1 and isinstance(n.targets[0], ast.Name)
                and ("int(" in canon(n.value) or "//" in canon(n.value)) and "len(" in canon(common.inline_at(ctx, sp, n.value, n)) for n in body_nodes(sp))
    if open_tail and whole:
        out.append(ctx.ok(R, sp, open_tail[0], "chunking ends with an open-ended slice (and yields the whole list when there is one chunk): no id is dropped"))
    elif floor and not open_tail:
        out.append(ctx.viol(R, sp, sp.node, "chunks have a fixed (floor-divided) length and there is no open-ended last slice: when the number of new ids is not divisible by the number of chunks "
                            "the remainder is never read, so update_cache writes a cache that misses existing jobs"))
    else:
        out.append(ctx.inc(R, sp, sp.node, "chunking shape not recognised"))
    return out


@rule("C08-e")
def c08_e(ctx: Ctx):
    """The state point cache and the other per-project / per-job state are instance state: no mutable object bound in a class body is modified through an instance."""
    from .lints import no_shared_mutable_class_state, binary_data_io
    io = binary_data_io(ctx, "C08-e", ["signac.project:Project._read_cache", "signac.project:Project.update_cache", "signac.project:Project._get_statepoint_from_workspace",
                                       "signac.project:Project._build_index"],
                        "so a cache / state point containing non-ASCII text written by one session cannot be read (UnicodeDecodeError) or is read differently by a session running under another "
                        "locale: the same id then has a state point with and none without the cache file")
    return io + no_shared_mutable_class_state(ctx, "C08-e", ["signac.project:Project", "signac.job:Job", "signac.project:JobsCursor", "signac.job:_StatePointDict"],
                                         "a project (or the project carried by a job) restored by pickle / copy.deepcopy with a reduced state would share one state point cache with every "
                                         "other such project, and open_job(id=...) would answer with the state point of a job that exists only in another project")


@rule("C08-f")
def c08_f(ctx: Ctx):
    """Per-job / per-entry loops are independent: nothing read in one iteration was computed in another."""
    from .lints import per_item_loops, sequence_arguments
    return sequence_arguments(ctx, "C08-f", ("signac.project", "signac._utility")) + per_item_loops(ctx, "C08-f", [('signac.project:Project._update_in_memory_cache', 'an id is cached with the state point read for another id'), ('signac.project:Project.update_cache', "the persistent cache receives another job's data"), ('signac.project:Project._read_cache', 'cache content of another read is reused')])


@rule("C08-g")
def c08_g(ctx: Ctx):
    """Every entry made into the state point cache pairs an id with the state point that hashes to it: the value is the state point just assigned or just read
    and validated for that id (never a lazily filled field that may still be None), and in a function that changes an id the entry is made after the change."""
    R = "C08-g"
    out = []
    n_sites = 0
    for g in ctx.prog.funcs.values():
        if g.module.is_dep or not g.module.name.startswith("signac"):
            continue
        calls = [c for c in body_nodes(g) if isinstance(c, ast.Call) and isinstance(c.func, ast.Attribute) and c.func.attr == "_register" and len(c.args) >= 2]
        if not calls:
            continue
        cfg = ctx.cfg(g)
        idw = {n.id for n in cfg.stmt_nodes() if isinstance(n.ast, ast.Assign) and any(isinstance(t, ast.Attribute) and t.attr == "_id" for t in n.ast.targets)}
        for c in calls:
            n_sites += 1
            k = f"{g.qual}|register|{canon(c.args[1])[:30]}"
            v = c.args[1]
            src = None
            if isinstance(v, ast.Name) and v.id in g.params:
                src = "the value passed in"
            elif isinstance(v, ast.Name):
                d = common.reaching_defs(ctx, g, v.id, c)
                calls_d = [x for x in d if isinstance(x, ast.Call)]
                if d and len(calls_d) == len(d) and all(any(q.endswith((".load", "_get_statepoint_from_workspace", "_get_statepoint", "Job.statepoint", "_StatePointDict.__call__", "_to_base"))
                                                            or "statepoint" in canon(x.func) for q in (common.targets_of(ctx, g, x) or [canon(x.func)])) for x in calls_d):
                    src = "a state point just read for that id"
            if isinstance(v, ast.Attribute) and v.attr in ("_cached_statepoint",):
                out.append(ctx.viol(R, g, c, f"the cache entry is filled from `{canon(v)}`, a lazily filled field that is still None for a handle obtained by id / iteration that was never read: "
                                    "None is registered for an existing job, find_jobs drops it and update_cache() persists `null`", construct=k))
                continue
            if src is None:
                out.append(ctx.inc(R, g, c, f"origin of the registered state point `{canon(v)[:40]}` not recognised", construct=k))
                continue
            # freshness of the id in functions that change an id
            a0 = canon(c.args[0])
            if idw and ("id" in a0):
                st = ctx.stmt_of(g, c)
                bad = None
                for nid in cfg.node_ids_for(st):
                    bad = bad or cfg.must_pass_before(nid, idw, kinds="n")
                if bad is not None:
                    out.append(ctx.viol(R, g, c, f"`{canon(c)[:60]}` runs before the id of the handle is changed in {g.qual.split(':')[-1]}: the cache maps the old id to the new state point; when the "
                                        "old state point re-appears (second handle, clone) find_jobs evaluates that job against another job's state point", construct=k,
                                        witness=cfg.describe_path(bad)))
                    continue
            out.append(ctx.ok(R, g, c, f"registers {src} under {a0}", construct=k))
    if n_sites < 3:
        out.append(ctx.inc(R, None, None, f"only {n_sites} _register call sites found (expected >= 3)", construct="register|count"))
    return out


@rule("C08-h")
def c08_h(ctx: Ctx):
    """`signac update-cache` reconciles unconditionally: every path through main_update_cache calls Project.update_cache() (no freshness heuristics in front of it)."""
    R = "C08-h"
    f = ctx.prog.funcs.get("signac.__main__:main_update_cache")
    if f is None:
        return [ctx.inc(R, None, None, "main_update_cache not found")]
    cfg = ctx.cfg(f)
    upd = {n.id for n in cfg.stmt_nodes() for sub in __import__("sigstat.cfg", fromlist=["own_exprs"]).own_exprs(n.ast) for c in walk_no_nested(sub)
           if isinstance(c, ast.Call) and isinstance(c.func, ast.Attribute) and c.func.attr == "update_cache"}
    if not upd:
        return [ctx.viol(R, f, f.node, "`signac update-cache` never calls Project.update_cache()")]
    w = cfg.path(cfg.entry, {cfg.exit}, blocked=upd, kinds="n")
    if w is None:
        return [ctx.ok(R, f, f.node, "every path through `signac update-cache` calls Project.update_cache()")]
    return [ctx.viol(R, f, f.node, "`signac update-cache` can finish without calling Project.update_cache() (a short-cut in front of it): whatever the short-cut looks at (time stamps, sizes) "
                     "is not the set of job directories, so a stale cache file is declared current", witness=cfg.describe_path(w))]


@rule("C08-i")
def c08_i(ctx: Ctx):
    """In update_cache `None` means 'no cache file'; an empty mapping is an exact cache of an empty workspace and must not be rewritten on every call."""
    from .lints import sentinel_discipline
    f = ctx.fn(UPD)
    # the snapshot variable: the local bound to the result of _read_cache()
    names = [t.id for n in body_nodes(f) if isinstance(n, ast.Assign) and isinstance(n.value, ast.Call) and "signac.project:Project._read_cache" in common.targets_of(ctx, f, n.value)
             for t in n.targets if isinstance(t, ast.Name)]
    if not names:
        return [ctx.inc("C08-i", f, f.node, "update_cache: the snapshot of the cache file (result of _read_cache()) was not found")]
    return sentinel_discipline(ctx, "C08-i", [(UPD, names[0], "an exact but empty cache (workspace without jobs) is treated like a missing file: it is rewritten on every call and "
                                              "update_cache() reports work (0) instead of None although nothing changed")])


RULES = [c08_a, c08_b, c08_c, c08_d, c08_e, c08_f, c08_g, c08_h, c08_i]
