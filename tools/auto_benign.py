#!/venv/bin/python
"""Whole-repository behaviour-preserving transformations; every check must still exit 0 on the transformed copy.

  auto_benign.py unparse          re-emit every module with ast.unparse (positions, comments, quoting, parentheses change)
  auto_benign.py rename-locals    rename every plain local variable `v` of every function to `v_` (parameters, globals,
                                  nonlocals, names captured by nested functions/comprehension-free closures are left alone)
  auto_benign.py swap-branches    `if c: A else: B` -> `if not c: B else: A` for every plain if/else
  auto_benign.py hoist-returns    `return <expr>` -> `tmp = <expr>; return tmp` for call / comparison / boolean / arithmetic results
  auto_benign.py sort-keywords    keyword arguments of every call in alphabetical order
  auto_benign.py alias-imports    `import os` -> `import os as os_`, `from .m import f` -> `... import f as f_` (uses renamed), except in __init__.py
  auto_benign.py hoist-receivers  `a.b.c(x)` statements -> `r = a.b; r.c(x)`
  auto_benign.py all              every mode in turn
  auto_benign.py swap-compare     write `a == b` with constant/None left operand the other way round where the operator is
                                  symmetric (==, !=, is, is not)

The transformed copy lives under $TMPDIR and is removed afterwards.  Prints one line per property and exits 1 if a check is
not silent."""
import ast
import os
import shutil
import subprocess
import symtable
import sys
import tempfile

VERIF = os.path.dirname(os.path.dirname(os.path.abspath(__file__)))


sys.path.insert(0, VERIF)
from sigstat.transforms import transform, MODES  # noqa: E402


def main():
    mode = sys.argv[1]
    if mode == "all":
        rc = 0
        for m in MODES:
            rc |= subprocess.run([sys.argv[0], m] + sys.argv[2:]).returncode
        return rc
    keep = "--keep" in sys.argv
    tmp = tempfile.mkdtemp(prefix="sigstat-auto-")
    try:
        shutil.copytree("/repo/signac", os.path.join(tmp, "signac"), ignore=shutil.ignore_patterns("__pycache__"))
        n = transform(mode, os.path.join(tmp, "signac"))
        print(f"{mode}: {n} modules transformed in {tmp}")
        bad = 0
        for i in range(1, 21):
            p = f"C{i:02d}"
            r = subprocess.run([os.path.join(VERIF, "check"), p, "--repo", tmp, "--evidence-dir", os.path.join(tmp, "ev"), "--no-selftest"], capture_output=True, text=True, cwd=VERIF)
            lines = [l for l in r.stdout.splitlines() if l.startswith(("VIOLATION rule", "ANALYSIS-ERROR rule"))]
            print(p, "exit", r.returncode, f"({len(lines)} report(s))")
            for l in lines[:6]:
                print("    ", l[:260])
            bad += r.returncode != 0
        print("NOT SILENT:", bad)
        return 1 if bad else 0
    finally:
        if not keep:
            shutil.rmtree(tmp, ignore_errors=True)


sys.exit(main())
