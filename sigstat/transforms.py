"""sigstat.transforms - whole-package behaviour-preserving source transformations.

Used by tools/auto_benign.py (all properties) and by the thorough-tier self-test (the property being checked): every check must
exit 0 on the transformed copy of the package.  MODES lists the transformations."""
import ast
import os
import symtable

MODES = ("unparse", "rename-locals", "swap-compare", "swap-branches", "hoist-returns", "sort-keywords", "alias-imports", "hoist-receivers", "rename-private-functions")


def _scope_locals(src):
    """(function lineno, name) -> set of renamable locals."""
    res = {}

    def visit(tab):
        for ch in tab.get_children():
            if ch.get_type() == "function":
                captured = set()

                def free_in(t):
                    for c in t.get_children():
                        for s in c.get_symbols():
                            if s.is_free():
                                captured.add(s.get_name())
                        free_in(c)
                free_in(ch)
                names = set()
                for s in ch.get_symbols():
                    if s.is_local() and not s.is_parameter() and not s.is_global() and not s.is_nonlocal() and not s.is_free() \
                            and s.get_name() not in captured and not s.is_imported() and s.is_assigned() and not s.is_namespace():
                        names.add(s.get_name())
                res[(ch.get_lineno(), ch.get_name())] = names
            visit(ch)
    visit(symtable.symtable(src, "<m>", "exec"))
    return res


class Renamer(ast.NodeTransformer):
    def __init__(self, table):
        self.table = table
        self.stack = []

    def _fn(self, node):
        names = self.table.get((node.lineno, node.name), set())
        # comprehension scopes and class bodies inside keep their own names; nested functions are handled by their own entry
        self.stack.append(names)
        node.body = [self.visit(s) for s in node.body]
        self.stack.pop()
        # decorators / defaults belong to the enclosing scope
        node.decorator_list = [self.visit(d) for d in node.decorator_list]
        return node

    visit_FunctionDef = _fn
    visit_AsyncFunctionDef = _fn

    def visit_Lambda(self, node):
        return node  # lambdas may capture; captured names were excluded already, leave the body alone

    def visit_Name(self, node):
        if self.stack and node.id in self.stack[-1]:
            return ast.copy_location(ast.Name(id=node.id + "_", ctx=node.ctx), node)
        return node

    def visit_ExceptHandler(self, node):
        if self.stack and node.name and node.name in self.stack[-1]:
            node.name = node.name + "_"
        self.generic_visit(node)
        return node

    def visit_ClassDef(self, node):
        self.stack.append(set())
        self.generic_visit(node)
        self.stack.pop()
        return node


class Swapper(ast.NodeTransformer):
    def visit_Compare(self, node):
        self.generic_visit(node)
        if len(node.ops) == 1 and isinstance(node.ops[0], (ast.Eq, ast.NotEq)) and isinstance(node.comparators[0], ast.Constant) \
                and not isinstance(node.left, ast.Constant) and isinstance(node.comparators[0].value, (str, int)) and not isinstance(node.comparators[0].value, bool):
            return ast.copy_location(ast.Compare(left=node.comparators[0], ops=node.ops, comparators=[node.left]), node)
        return node


class BranchSwapper(ast.NodeTransformer):
    """if c: A else: B  ->  if not c: B else: A   (only for a plain else, not for elif chains)"""
    def visit_If(self, node):
        self.generic_visit(node)
        if node.orelse and not (len(node.orelse) == 1 and isinstance(node.orelse[0], ast.If)):
            t = node.test
            nt = t.operand if isinstance(t, ast.UnaryOp) and isinstance(t.op, ast.Not) else ast.UnaryOp(op=ast.Not(), operand=t)
            return ast.copy_location(ast.If(test=nt, body=node.orelse, orelse=node.body), node)
        return node


class Hoister(ast.NodeTransformer):
    """`return <call or comparison>` -> `result_ = <expr>; return result_`  and  `if <call-containing test>:` -> `cond_ = <test>; if cond_:` (first statement level only,
    never inside loops' tests; evaluation order is unchanged)."""
    def __init__(self):
        self.n = 0

    def _body(self, stmts):
        out = []
        for s in stmts:
            s = self.visit(s)
            if isinstance(s, ast.Return) and isinstance(s.value, (ast.Call, ast.Compare, ast.BoolOp, ast.BinOp)):
                self.n += 1
                nm = f"result_{self.n}_"
                out.append(ast.copy_location(ast.Assign(targets=[ast.Name(id=nm, ctx=ast.Store())], value=s.value), s))
                out.append(ast.copy_location(ast.Return(value=ast.Name(id=nm, ctx=ast.Load())), s))
            else:
                out.append(s)
        return out

    def generic_visit(self, node):
        super().generic_visit(node)
        for f in ("body", "orelse", "finalbody"):
            v = getattr(node, f, None)
            if isinstance(v, list) and v and isinstance(v[0], ast.stmt) and not isinstance(node, (ast.Module, ast.ClassDef)):
                setattr(node, f, self._body(v))
        return node


class KeywordSorter(ast.NodeTransformer):
    """f(a, z=1, b=2) -> f(a, b=2, z=1): keyword arguments in alphabetical order (no **kwargs involved)."""
    def visit_Call(self, node):
        self.generic_visit(node)
        if node.keywords and all(k.arg is not None for k in node.keywords):
            node.keywords = sorted(node.keywords, key=lambda k: k.arg)
        return node


def _pure_chain(e):
    while isinstance(e, ast.Attribute):
        e = e.value
    return isinstance(e, ast.Name)


class ReceiverHoister(ast.NodeTransformer):
    """`a.b.c(args)` / `x = a.b.c(args)` as a statement -> `recv_N_ = a.b; [x =] recv_N_.c(args)` when the receiver is a plain attribute chain of length >= 2."""
    def __init__(self):
        self.n = 0

    def _body(self, stmts):
        out = []
        for s in stmts:
            s = self.visit(s)
            call = s.value if isinstance(s, (ast.Expr, ast.Assign)) and isinstance(getattr(s, "value", None), ast.Call) else None
            if call is not None and isinstance(call.func, ast.Attribute) and isinstance(call.func.value, ast.Attribute) and _pure_chain(call.func.value) \
                    and not (isinstance(s, ast.Assign) and any(not isinstance(t, ast.Name) for t in s.targets)):
                self.n += 1
                nm = f"recv_{self.n}_"
                out.append(ast.copy_location(ast.Assign(targets=[ast.Name(id=nm, ctx=ast.Store())], value=call.func.value), s))
                call.func = ast.copy_location(ast.Attribute(value=ast.Name(id=nm, ctx=ast.Load()), attr=call.func.attr, ctx=ast.Load()), call.func)
            out.append(s)
        return out

    def generic_visit(self, node):
        super().generic_visit(node)
        for f in ("body", "orelse", "finalbody"):
            v = getattr(node, f, None)
            if isinstance(v, list) and v and isinstance(v[0], ast.stmt) and not isinstance(node, (ast.Module, ast.ClassDef)):
                setattr(node, f, self._body(v))
        return node


def _alias_imports(tree):
    """`import os` -> `import os as os_`, `from .errors import X` -> `from .errors import X as X_`, and every use renamed - only for names
    that are bound exactly once in the whole module (by that import) and never used as a string."""
    stores = {}
    for n in ast.walk(tree):
        if isinstance(n, ast.Name) and isinstance(n.ctx, (ast.Store, ast.Del)):
            stores[n.id] = stores.get(n.id, 0) + 1
        elif isinstance(n, (ast.FunctionDef, ast.AsyncFunctionDef, ast.ClassDef)):
            stores[n.name] = stores.get(n.name, 0) + 1
        elif isinstance(n, ast.arg):
            stores[n.arg] = stores.get(n.arg, 0) + 1
        elif isinstance(n, (ast.Global, ast.Nonlocal)):
            for x in n.names:
                stores[x] = stores.get(x, 0) + 1
        elif isinstance(n, ast.ExceptHandler) and n.name:
            stores[n.name] = stores.get(n.name, 0) + 1
    exported = set()
    for n in tree.body:
        if isinstance(n, ast.Assign) and any(isinstance(t, ast.Name) and t.id == "__all__" for t in n.targets):
            exported |= {e.value for e in ast.walk(n.value) if isinstance(e, ast.Constant) and isinstance(e.value, str)}
    ren = {}
    for n in tree.body:
        if isinstance(n, ast.Import):
            for a in n.names:
                if a.asname is None and "." not in a.name and a.name not in stores and a.name not in exported:
                    a.asname = a.name + "_"
                    ren[a.name] = a.asname
        elif isinstance(n, ast.ImportFrom) and n.module != "__future__":
            for a in n.names:
                if a.asname is None and a.name != "*" and a.name not in stores and a.name not in exported:
                    a.asname = a.name + "_"
                    ren[a.name] = a.asname

    class R(ast.NodeTransformer):
        def visit_Name(self, node):
            if node.id in ren:
                return ast.copy_location(ast.Name(id=ren[node.id], ctx=node.ctx), node)
            return node
    return R().visit(tree)


def _rename_private_functions(root):
    """every private (single leading underscore) module-level function and method of the package gets a new name, consistently in all modules:
    definitions, plain-name uses, attribute accesses and from-imports. Names that are also used for anything else (assigned as a variable or an attribute,
    parameter names, keyword arguments, spelled in a string constant) are left alone."""
    files = []
    for r, d, fs in os.walk(root):
        d[:] = [x for x in d if x not in ("_vendor", "__pycache__")]
        for f in fs:
            if f.endswith(".py"):
                files.append(os.path.join(r, f))
    trees = {p: ast.parse(open(p).read()) for p in files}
    funcs, other = set(), set()
    for t in trees.values():
        for n in ast.walk(t):
            if isinstance(n, ast.ClassDef):
                for st in n.body:
                    if isinstance(st, (ast.FunctionDef, ast.AsyncFunctionDef)) and st.name.startswith("_") and not st.name.startswith("__"):
                        funcs.add(st.name)
        for st in t.body:
            if isinstance(st, (ast.FunctionDef, ast.AsyncFunctionDef)) and st.name.startswith("_") and not st.name.startswith("__"):
                funcs.add(st.name)
    for t in trees.values():
        for n in ast.walk(t):
            if isinstance(n, ast.Name) and isinstance(n.ctx, (ast.Store, ast.Del)):
                other.add(n.id)
            elif isinstance(n, ast.Attribute) and isinstance(n.ctx, (ast.Store, ast.Del)):
                other.add(n.attr)
            elif isinstance(n, ast.arg):
                other.add(n.arg)
            elif isinstance(n, ast.keyword) and n.arg:
                other.add(n.arg)
            elif isinstance(n, ast.Constant) and isinstance(n.value, str):
                for nm in funcs:
                    if nm in n.value:
                        other.add(nm)
            elif isinstance(n, (ast.FunctionDef, ast.AsyncFunctionDef)) and n.name in funcs:
                # nested functions of that name, or overrides of a dependency's hook (synced_collections calls _save / _load ... by name)
                pass
            elif isinstance(n, ast.ClassDef):
                if n.bases:
                    # methods of classes with bases may override / be called by the base class under their name: keep
                    for st in n.body:
                        if isinstance(st, (ast.FunctionDef, ast.AsyncFunctionDef)):
                            other.add(st.name)
    ren = {nm: nm + "_fn" for nm in funcs - other}

    class R(ast.NodeTransformer):
        def visit_FunctionDef(self, node):
            self.generic_visit(node)
            if node.name in ren:
                node.name = ren[node.name]
            return node
        visit_AsyncFunctionDef = visit_FunctionDef

        def visit_Name(self, node):
            if node.id in ren:
                node.id = ren[node.id]
            return node

        def visit_Attribute(self, node):
            self.generic_visit(node)
            if node.attr in ren:
                node.attr = ren[node.attr]
            return node

        def visit_ImportFrom(self, node):
            if node.level or (node.module or "").startswith("signac"):
                for a in node.names:
                    if a.name in ren:
                        a.name = ren[a.name]
            return node
    for p, t in trees.items():
        t = R().visit(t)
        ast.fix_missing_locations(t)
        out = ast.unparse(t) + "\n"
        compile(out, p, "exec")
        open(p, "w").write(out)
    return len(ren)


def transform(mode, root):
    if mode == "rename-private-functions":
        return _rename_private_functions(root)
    n = 0
    for r, d, fs in os.walk(root):
        for f in fs:
            if not f.endswith(".py"):
                continue
            p = os.path.join(r, f)
            src = open(p).read()
            tree = ast.parse(src)
            if mode == "rename-locals":
                tree = Renamer(_scope_locals(src)).visit(tree)
            elif mode == "swap-compare":
                tree = Swapper().visit(tree)
            elif mode == "swap-branches":
                tree = BranchSwapper().visit(tree)
            elif mode == "hoist-returns":
                tree = Hoister().visit(tree)
            elif mode == "hoist-receivers":
                tree = ReceiverHoister().visit(tree)
            elif mode == "sort-keywords":
                tree = KeywordSorter().visit(tree)
            elif mode == "alias-imports":
                if os.path.basename(p) != "__init__.py":
                    tree = _alias_imports(tree)
            ast.fix_missing_locations(tree)
            out = ast.unparse(tree) + "\n"
            compile(out, p, "exec")
            open(p, "w").write(out)
            n += 1
    return n


