"""Helpers shared by rule modules."""
import ast
from typing import Optional, List, Set, Iterable

from ..core import dotted, kwarg, walk_no_nested, body_nodes, inline, stmt_key, canon, resolve_import_name, UNKNOWN
from ..cfg import cond_atoms

MUTABLE_JSON = ("list", "dict")


def ext_name(ctx, fi, call) -> Optional[str]:
    tg, ext = ctx.calls.resolve_call(fi, call)
    return ext


def targets_of(ctx, fi, call) -> List[str]:
    tg, ext = ctx.calls.resolve_call(fi, call)
    return [t.qual for t in tg]


def uses_name(node, name) -> bool:
    return any(isinstance(x, ast.Name) and x.id == name for x in ast.walk(node))


def is_deep_copy_of(ctx, fi, expr, name, depth=0) -> bool:
    """expr is copy.deepcopy(<..name..>) or json.loads(json.dumps(<..name..>)) (possibly wrapped in dict()/list()),
    or a call of an internal helper that provably deep-copies its argument."""
    if not isinstance(expr, ast.Call):
        return False
    ext = ext_name(ctx, fi, expr)
    if ext == "copy.deepcopy" and expr.args and uses_name(expr.args[0], name):
        return True
    if ext == "json.loads" and expr.args and isinstance(expr.args[0], ast.Call) and ext_name(ctx, fi, expr.args[0]) == "json.dumps":
        return uses_name(expr.args[0], name)
    if ext in ("builtins.dict", "builtins.list") and len(expr.args) == 1 and not expr.keywords:
        return is_deep_copy_of(ctx, fi, expr.args[0], name, depth + 1)
    tg, _ = ctx.calls.resolve_call(fi, expr)
    if len(tg) == 1 and depth < 2 and expr.args and isinstance(expr.args[0], ast.Name) and expr.args[0].id == name:
        return helper_deep_copies(ctx, tg[0]) is True
    return False


def helper_deep_copies(ctx, h) -> Optional[bool]:
    """Abstractly evaluate a one-parameter copy helper over the JSON value kinds {dict, list, scalar}.
    True  : every return is a fresh container built from recursively copied elements, or returns the
            argument itself only on paths where it can be neither a dict nor a list;
    False : some return hands back the argument (or an element) by reference while it may be a list/dict;
    None  : shape not recognised."""
    params = [p for p in h.params if p not in ("self", "cls")]
    if len(params) != 1:
        return None
    p = params[0]
    cfg = ctx.cfg(h)
    verdict = True
    rets = [n for n in cfg.stmt_nodes() if isinstance(n.ast, ast.Return)]
    if not rets:
        return None
    for rn in rets:
        v = rn.ast.value
        if v is None:
            return None
        paths, trunc = cfg.paths_to(rn.id)
        if trunc or not paths:
            return None
        for path, facts in paths:
            may = _may_kinds(facts, p)
            if may is None:
                return None
            r = _ret_fresh(ctx, h, v, p)
            if r is None:
                return None
            if r == "alias":
                if "list" in may or "dict" in may:
                    verdict = False
            elif r == "shallow":
                verdict = False
    return verdict


_KIND_OF = {"Mapping": "dict", "dict": "dict", "MutableMapping": "dict", "list": "list", "tuple": "list", "Sequence": "list",
            "MutableSequence": "list", "Iterable": "list|dict", "Collection": "list|dict"}


def _may_kinds(facts, p):
    may = {"dict", "list", "scalar"}
    for (text, pol) in facts:
        t = text.replace(" ", "")
        if not t.startswith(f"isinstance({p},"):
            continue
        inner = t[len(f"isinstance({p},"):-1].strip("()")
        kinds = set()
        for name in inner.split(","):
            name = name.split(".")[-1]
            if name in _KIND_OF:
                kinds.update(_KIND_OF[name].split("|"))
            elif name in ("str", "int", "float", "bool", "bytes", "Number", "NoneType"):
                kinds.add("scalar")
            elif name:
                return None
        if pol:
            may &= kinds
        else:
            may -= {k for k in kinds if k != "scalar"}
    return may


def _ret_fresh(ctx, h, v, p):
    """'alias' if v is the parameter itself, 'fresh' if a new container of recursively copied / deep-copied elements,
    'shallow' if a new container holding the original elements, None if unknown."""
    if isinstance(v, ast.Name) and v.id == p:
        return "alias"
    if isinstance(v, ast.Constant):
        return "fresh"

    def elem_copied(e):
        if isinstance(e, ast.Call):
            tg, ext = ctx.calls.resolve_call(h, e)
            if any(t.qual == h.qual for t in tg) or ext == "copy.deepcopy":
                return True
        return False

    if isinstance(v, ast.DictComp):
        return "fresh" if elem_copied(v.value) else "shallow"
    if isinstance(v, (ast.ListComp, ast.GeneratorExp, ast.SetComp)):
        return "fresh" if elem_copied(v.elt) else "shallow"
    if isinstance(v, ast.Call):
        tg, ext = ctx.calls.resolve_call(h, v)
        if ext == "copy.deepcopy":
            return "fresh"
        if ext in ("builtins.dict", "builtins.list", "builtins.tuple", "copy.copy") and v.args:
            inner = v.args[0]
            if isinstance(inner, (ast.DictComp, ast.ListComp, ast.GeneratorExp)):
                return _ret_fresh(ctx, h, inner, p)
            return "shallow"
        if isinstance(v.func, ast.Call) and v.args and isinstance(v.args[0], (ast.GeneratorExp, ast.ListComp)):
            # type(x)(<generator>)
            return _ret_fresh(ctx, h, v.args[0], p)
    return None


def enclosing_handlers(ctx, fi, node) -> List[ast.ExceptHandler]:
    pm = ctx.parents(fi)
    out = []
    cur = pm.get(id(node))
    while cur is not None:
        if isinstance(cur, ast.ExceptHandler):
            out.append(cur)
        cur = pm.get(id(cur))
    return out


def in_body_of(ctx, fi, node, container, fields=("body",)) -> bool:
    """node lies (transitively) inside one of the given statement-list fields of container."""
    pm = ctx.parents(fi)
    cur = node
    while cur is not None:
        par = pm.get(id(cur))
        if par is container:
            for f in fields:
                lst = getattr(container, f, None)
                if isinstance(lst, list) and any(cur is x for x in lst):
                    return True
            return False
        cur = par
    return False


def _fact_env(ctx, fi):
    """Single-assignment locals that may be inlined into fact texts: derived values only (no literals / containers)."""
    env = {}
    for k, v in ctx.env(fi).items():
        if isinstance(v, (ast.Call, ast.Attribute, ast.BinOp, ast.Compare, ast.BoolOp, ast.UnaryOp, ast.Subscript, ast.Name)):
            env[k] = v
    return env


def expand_facts(ctx, fi, facts):
    """Add, for every fact, the form with hoisted locals inlined (so `exists = os.path.isfile(p); if not exists:` is
    recognised like `if not os.path.isfile(p):`), re-decomposed into atoms."""
    env = _fact_env(ctx, fi)
    if not env:
        return facts
    out = set(facts)
    for (text, pol) in facts:
        try:
            t = ast.parse(text, mode="eval").body
        except SyntaxError:
            continue
        if not any(isinstance(x, ast.Name) and x.id in env for x in ast.walk(t)):
            continue
        t2 = inline(t, env)
        for a in cond_atoms(t2, pol):
            out.add(a)
    return frozenset(out) if isinstance(facts, frozenset) else (list(out) if isinstance(facts, list) else out)


def facts_at(ctx, fi, node, kinds="nx"):
    """Must-facts holding at (every CFG copy of) the statement containing node (hoisted locals also in inlined form)."""
    IN = ctx.facts(fi, kinds)
    ids = ctx.node_ids(fi, node)
    sets = [IN[i] for i in ids if IN[i] is not None]
    if not sets:
        return frozenset()
    res = sets[0]
    for s in sets[1:]:
        res = res & s
    return expand_facts(ctx, fi, frozenset(res))


def has_fact(facts, text, pol) -> bool:
    t = " ".join(text.split())
    return (t, pol) in facts


def str_consts_compared(node_iter, varname) -> Set[str]:
    """String constants a variable is compared with (==, in (...)) anywhere in the given nodes."""
    out = set()
    for n in node_iter:
        if isinstance(n, ast.Compare) and isinstance(n.left, ast.Name) and (varname is None or n.left.id == varname) and len(n.ops) == 1:
            c = n.comparators[0]
            if isinstance(n.ops[0], (ast.Eq, ast.NotEq)) and isinstance(c, ast.Constant) and isinstance(c.value, str):
                out.add(c.value)
            elif isinstance(n.ops[0], (ast.In, ast.NotIn)) and isinstance(c, (ast.Tuple, ast.List, ast.Set)):
                for e in c.elts:
                    if isinstance(e, ast.Constant) and isinstance(e.value, str):
                        out.add(e.value)
            elif isinstance(n.ops[0], (ast.In, ast.NotIn)) and isinstance(c, ast.Dict):
                # membership in a dispatch table: the keys are the handled constants
                for e in c.keys:
                    if isinstance(e, ast.Constant) and isinstance(e.value, str):
                        out.add(e.value)
    return out


def handler_types(h: ast.ExceptHandler) -> List[str]:
    if h.type is None:
        return ["<bare>"]
    if isinstance(h.type, ast.Tuple):
        return [dotted(e) or ast.unparse(e) for e in h.type.elts]
    return [dotted(h.type) or ast.unparse(h.type)]


def reraises_on_all_paths(ctx, fi, h: ast.ExceptHandler, kinds="nx") -> Optional[List[int]]:
    """None if every path from the handler entry leaves through a raise (rexit); else a witness path to the normal
    continuation (first node outside the handler / function exit)."""
    cfg = ctx.cfg(fi)
    for hid in cfg.node_ids_for(h):
        inside = set()
        for st in h.body:
            for x in ast.walk(st):
                for i in cfg.ast_nodes.get(id(x), []):
                    inside.add(i)
        # search: from handler entry, staying inside handler nodes, can we reach a node outside (normal edge)?
        seen = set()
        todo = [(hid, [hid])]
        while todo:
            n, path = todo.pop()
            if n in seen:
                continue
            seen.add(n)
            for (b, k, _) in cfg.succ[n]:
                if k == "u":
                    continue
                if b == cfg.rexit:
                    continue
                node_b = cfg.nodes[b]
                if b in inside or (node_b.kind == "join"):
                    # joins: dispatch/fin copies - follow; they lead to handlers/rexit or out
                    if b not in inside and node_b.kind == "join" and k == "x":
                        continue  # exception raised inside the handler: leaves exceptionally
                    todo.append((b, path + [b]))
                else:
                    if k == "x":
                        continue  # exceptional transfer out of the handler
                    return path + [b]
    return None


def call_chain(ctx, root, target_qual, stop=()):
    """Shortest call chain root -> target (list of quals) in the internal call graph, or None."""
    from collections import deque
    prev = {root.qual: None}
    dq = deque([root])
    stop = set(stop)
    while dq:
        f = dq.popleft()
        if f.qual == target_qual:
            out = []
            q = f.qual
            while q is not None:
                out.append(q)
                q = prev[q]
            return list(reversed(out))
        nxt = [t for (_, tg, _) in ctx.calls.callees(f) for t in tg] + list(f.nested_all)
        for t in nxt:
            if t.qual not in prev and t.qual not in stop:
                prev[t.qual] = f.qual
                dq.append(t)
    return None


MUTATING_KINDS = ("rename", "delete", "mkdir", "link", "meta", "write", "open-write", "docmut")


def stmts_containing_call_to(ctx, fi, quals=(), attrs=(), exts=()):
    """Statements (CFG node ASTs) of fi whose own expressions contain a call resolving to one of quals / named attr / ext."""
    out = []
    cfg = ctx.cfg(fi)
    seen = set()
    for n in body_nodes(fi):
        if not isinstance(n, ast.Call):
            continue
        tg, ext = ctx.calls.resolve_call(fi, n)
        hit = any(t.qual in quals for t in tg) or (ext in exts if ext else False)
        if not hit and attrs:
            nm = n.func.attr if isinstance(n.func, ast.Attribute) else (n.func.id if isinstance(n.func, ast.Name) else None)
            hit = nm in attrs
        if hit:
            st = ctx.stmt_of(fi, n)
            if id(st) not in seen:
                seen.add(id(st))
                out.append((st, n))
    return out


def ids_of(ctx, fi, stmts):
    cfg = ctx.cfg(fi)
    s = set()
    for st in stmts:
        s.update(cfg.node_ids_for(st))
    return s


def reaching_def(ctx, fi, name, at_node):
    """The unique `name = expr` assignment reaching the statement that contains at_node, or None."""
    cfg = ctx.cfg(fi)
    try:
        use_st = ctx.stmt_of(fi, at_node)
    except Exception:
        return None
    use_ids = cfg.node_ids_for(use_st)
    defs = []
    for n in cfg.stmt_nodes():
        a = n.ast
        if isinstance(a, ast.Assign) and len(a.targets) == 1 and isinstance(a.targets[0], ast.Name) and a.targets[0].id == name:
            defs.append(n)
    if not defs:
        return None
    other_binders = []
    from ..cfg import _killed_names
    for n in cfg.stmt_nodes():
        if n not in defs and name in _killed_names(n):
            other_binders.append(n)
    best = None
    for uid in use_ids:
        cands = []
        for d in defs:
            if d.id == uid:
                continue
            # d reaches use without passing another binder of name
            blockers = {x.id for x in defs + other_binders if x.id != d.id}
            if cfg.path(d.id, {uid}, blocked=blockers - {uid}, kinds="nx", from_successors=True) is not None:
                cands.append(d)
        if len(cands) != 1:
            return None
        # the parameter value (or an unbound state) must not reach the use around the definitions
        if name in fi.params and cfg.path(cfg.entry, {uid}, blocked={x.id for x in defs}, kinds="nx") is not None:
            return None
        if best is not None and best is not cands[0]:
            return None
        best = cands[0]
    return best.ast.value if best is not None else None


def reaching_defs(ctx, fi, name, at_node):
    """All definitions of `name` that may reach the statement containing at_node: a list of value expressions, with the
    marker "<param>" for the parameter's value at entry and "<other>" for binders that are not plain assignments."""
    cfg = ctx.cfg(fi)
    use_st = ctx.stmt_of(fi, at_node)
    use_ids = cfg.node_ids_for(use_st)
    from ..cfg import _killed_names
    defs, other = [], []
    for n in cfg.stmt_nodes():
        a = n.ast
        if isinstance(a, ast.Assign) and len(a.targets) == 1 and isinstance(a.targets[0], ast.Name) and a.targets[0].id == name:
            defs.append(n)
        elif name in _killed_names(n):
            other.append(n)
    res = []
    binders = {x.id for x in defs + other}
    for uid in use_ids:
        for d in defs + other:
            if cfg.path(d.id, {uid}, blocked=(binders - {d.id}) - {uid}, kinds="nx", from_successors=True) is not None:
                v = d.ast.value if d in defs else "<other>"
                if all(v is not r for r in res):
                    res.append(v)
        if name in fi.params and cfg.path(cfg.entry, {uid}, blocked=binders - {uid}, kinds="nx") is not None and "<param>" not in res:
            res.append("<param>")
    return res


def inline_at(ctx, fi, expr, at_node, depth=4):
    """Inline names by their unique reaching definition at at_node (falls back to the single-assignment env)."""
    import copy as _copy
    env = ctx.env(fi)

    class T(ast.NodeTransformer):
        def __init__(self, d):
            self.d = d

        def visit_Name(self, node):
            if not isinstance(node.ctx, ast.Load) or self.d <= 0:
                return node
            if node.id in env:
                return T(self.d - 1).visit(_copy.deepcopy(env[node.id]))
            v = reaching_def(ctx, fi, node.id, at_node)
            if v is not None:
                return T(self.d - 1).visit(_copy.deepcopy(v))
            return node

        def visit_Lambda(self, node):
            return node

    return T(depth).visit(_copy.deepcopy(expr))


def exclude_predicate_verdict(ctx, fi, fact_text, name_var="fn"):
    """Classify the exclusion predicate guarding a copy in the file walk.
    -> ('ok'|'viol'|'inc', message).  The documented semantics: a file is excluded iff some pattern re.match()es its *name*."""
    try:
        t = ast.parse(fact_text, mode="eval").body
    except SyntaxError:
        return "inc", "exclude test does not parse"
    subjects = []  # (api, subject expression text)
    helper_calls = []
    for n in ast.walk(t):
        if isinstance(n, ast.Call):
            d = dotted(n.func)
            if d and d.startswith("re.") and len(n.args) >= 2:
                subjects.append((d, canon(n.args[1]), None))
            elif isinstance(n.func, ast.Name):
                tg, ext = ctx.calls.resolve_call(fi, n)
                if tg:
                    helper_calls.append((n, tg[0]))
    for call, h in helper_calls:
        # map parameters of h to the argument expressions
        pmap = {}
        for p, a in zip(h.params, call.args):
            pmap[p] = canon(a)
        for k in call.keywords:
            if k.arg:
                pmap[k.arg] = canon(k.value)
        henv = ctx.env(h)
        found = False
        for n in body_nodes(h):
            if isinstance(n, ast.Call):
                d = dotted(n.func)
                if d and d.startswith("re.") and len(n.args) >= 2:
                    found = True
                    subj = inline(n.args[1], henv)
                    if isinstance(subj, ast.Name) and subj.id in pmap:
                        subjects.append((d, pmap[subj.id], h))
                    else:
                        subjects.append((d, canon(subj), h))
        if not found:
            return "inc", f"helper {h.name} contains no regular-expression match"
    if not subjects:
        return "inc", "no regular-expression match in the exclude test"
    bad = [(api, s, h) for (api, s, h) in subjects if s != name_var]
    if bad:
        api, s, h = bad[0]
        where = f" (in {h.name})" if h else ""
        return "viol", (f"exclude patterns are also matched against `{s}`{where}, not only against the file name: files whose own name matches no pattern "
                        "are skipped (never transferred) when something else on their path matches")
    apis = {api for (api, s, h) in subjects}
    if apis <= {"re.match"}:
        return "ok", "a name is excluded iff some pattern re.match()es the file name"
    return "inc", f"exclude patterns are applied with {sorted(apis)}"


# ---------------------------------------------------------------------------
# structural patterns with metavariables: names consisting of one capital letter (optionally one digit) match any
# expression, consistently; everything else must match exactly (modulo expression context).  Lets rules speak about
# shapes without naming the local variables of the analysed code.
# ---------------------------------------------------------------------------
import re as _re

_MV = _re.compile(r"^[A-Z][0-9]?$")
_PAT_CACHE = {}


def _pat(src):
    if src not in _PAT_CACHE:
        _PAT_CACHE[src] = ast.parse(src, mode="eval").body
    return _PAT_CACHE[src]


def _pm(p, n, b):
    if isinstance(p, ast.Name) and _MV.match(p.id):
        if p.id in b:
            return canon(b[p.id]) == canon(n)
        b[p.id] = n
        return True
    if type(p) is not type(n):
        return False
    for f in p._fields:
        if f in ("ctx", "lineno", "col_offset", "end_lineno", "end_col_offset", "type_comment", "kind"):
            continue
        pv, nv = getattr(p, f, None), getattr(n, f, None)
        if isinstance(pv, list):
            if not isinstance(nv, list) or len(pv) != len(nv):
                return False
            for x, y in zip(pv, nv):
                if isinstance(x, ast.AST):
                    if not _pm(x, y, b):
                        return False
                elif x != y:
                    return False
        elif isinstance(pv, ast.AST):
            if not isinstance(nv, ast.AST) or not _pm(pv, nv, b):
                return False
        else:
            if pv != nv:
                return False
    return True


def pmatch(pattern, node):
    """Bindings {metavariable: sub-expression} if node has the shape of pattern, else None."""
    if node is None:
        return None
    b = {}
    return b if _pm(_pat(pattern), node, b) else None


def pfind(pattern, root):
    """All (node, bindings) below root (inclusive) that match pattern."""
    out = []
    for n in ast.walk(root):
        if isinstance(n, ast.expr):
            b = pmatch(pattern, n)
            if b is not None:
                out.append((n, b))
    return out


def loop_over(fi, pattern):
    """For loops of fi whose iterable matches pattern: [(for_node, bindings)]."""
    res = []
    for n in body_nodes(fi):
        if isinstance(n, (ast.For, ast.AsyncFor)):
            b = pmatch(pattern, n.iter)
            if b is not None:
                res.append((n, b))
    return res


def target_names(t):
    if isinstance(t, ast.Name):
        return [t.id]
    if isinstance(t, (ast.Tuple, ast.List)):
        return [x for e in t.elts for x in target_names(e)]
    if isinstance(t, ast.Starred):
        return target_names(t.value)
    return []


def lazy_accessor_init(ctx, R):
    """Job.document / Job.stores create the job directory on first access with init(validate_statepoint=False): that mode returns as soon as the directory exists.
    The validating mode loads the state point file and (re)writes it when that fails - a write that merely *reading* job.document must not cause."""
    out = []
    for q in ("signac.job:Job.document", "signac.job:Job.stores"):
        fi = ctx.prog.funcs.get(q)
        k = q + "|lazy-init"
        if fi is None:
            out.append(ctx.inc(R, None, None, f"{q} not found", construct=k))
            continue
        inits = [c for c in body_nodes(fi) if isinstance(c, ast.Call) and "signac.job:Job.init" in targets_of(ctx, fi, c)]
        if not inits:
            out.append(ctx.inc(R, fi, fi.node, "accessor does not call init()", construct=k))
        for c in inits:
            v = kwarg(c, "validate_statepoint")
            if v is None and len(c.args) >= 2:
                v = c.args[1]
            val = ctx.fold(v, fi) if v is not None else True
            if val is False:
                out.append(ctx.ok(R, fi, c, "first access creates the job directory without re-validating / re-writing the state point file", construct=k))
            elif val is True:
                out.append(ctx.viol(R, fi, c, f"{q.split('.')[-1]} calls the validating init(): merely evaluating job.{q.split('.')[-1]} loads the state point file and writes it when it is missing or "
                                    "unreadable - sync_jobs evaluates dst.document also in a dry run, so a dry run then creates signac_statepoint.json in the destination", construct=k))
            else:
                out.append(ctx.inc(R, fi, c, "validate_statepoint argument is not a constant", construct=k))
    return out


def rename_call(ctx, fi, c):
    """(source expr, destination expr, helper or None) if the call renames a path: os.replace / os.rename directly, or a signac helper whose body renames two of its own
    parameters (the wrapper is treated as the primitive, with the actual arguments mapped)."""
    if not isinstance(c, ast.Call):
        return None
    if ext_name(ctx, fi, c) in ("os.replace", "os.rename") and len(c.args) >= 2:
        return c.args[0], c.args[1], None
    for tq in targets_of(ctx, fi, c):
        g = ctx.prog.funcs.get(tq)
        if g is None or g.module.is_dep or not g.module.name.startswith("signac") or g is fi:
            continue
        params = [p for p in g.params if p not in ("self", "cls")]
        for x in body_nodes(g):
            if isinstance(x, ast.Call) and ext_name(ctx, g, x) in ("os.replace", "os.rename") and len(x.args) >= 2 \
                    and isinstance(x.args[0], ast.Name) and isinstance(x.args[1], ast.Name) and x.args[0].id in params and x.args[1].id in params:
                i, j = params.index(x.args[0].id), params.index(x.args[1].id)
                def actual(k):
                    if k < len(c.args):
                        return c.args[k]
                    return kwarg(c, params[k])
                a, b = actual(i), actual(j)
                if a is not None and b is not None:
                    return a, b, g
    return None


def len_range(facts, coll: str):
    """(lo, hi) bounds on len(<coll>) implied by a set of (text, polarity) facts; hi None = unbounded.
    Understands len(c) <op> k, `c` / `not c` (truthiness of a sized container) and len(c) as a truth value."""
    import re as _re
    lo, hi = 0, None
    c = coll.replace(" ", "")

    def upd(nlo=None, nhi=None):
        nonlocal lo, hi
        if nlo is not None:
            lo = max(lo, nlo)
        if nhi is not None:
            hi = nhi if hi is None else min(hi, nhi)

    for (t, pol) in facts:
        tt = t.replace(" ", "")
        if tt == c or tt == f"len({c})" or tt == f"bool({c})":
            if pol:
                upd(nlo=1)
            else:
                upd(nhi=0)
            continue
        m = _re.fullmatch(_re.escape(f"len({c})") + r"(==|!=|>=|<=|>|<)(\d+)", tt)
        if not m:
            continue
        op, k = m.group(1), int(m.group(2))
        if not pol:
            op = {"==": "!=", "!=": "==", ">": "<=", "<=": ">", "<": ">=", ">=": "<"}[op]
        if op == "==":
            upd(nlo=k, nhi=k)
        elif op == ">":
            upd(nlo=k + 1)
        elif op == ">=":
            upd(nlo=k)
        elif op == "<":
            upd(nhi=k - 1)
        elif op == "<=":
            upd(nhi=k)
        elif op == "!=" and k == 0:
            upd(nlo=1)
    return lo, hi


def callee_is(ctx, fi, call, names) -> bool:
    """The callee of `call` is one of the (parameter) names, or a local every definition of which is derived from one of them
    (`copy_directory = shutil.copytree if copytree is None else copytree`)."""
    f = call.func
    if not isinstance(f, ast.Name):
        return False
    if f.id in names:
        return True
    if f.id in fi.params:
        return False
    try:
        defs = reaching_defs(ctx, fi, f.id, call)
    except Exception:
        return False
    exprs = [d for d in defs if isinstance(d, ast.AST)]
    if not exprs or len(exprs) != len(defs):
        return False
    return all(any(isinstance(x, ast.Name) and x.id in names for x in ast.walk(d)) for d in exprs)


def derived_names(fi, name):
    """Locals of `fi` whose value is computed from `name` (flow-insensitive closure over plain assignments, including `name` itself)."""
    from ..core import body_nodes as _bn, names_in as _ni
    derived = {name}
    changed = True
    while changed:
        changed = False
        for n in _bn(fi):
            if isinstance(n, ast.Assign) and (_ni(n.value) & derived):
                for t in n.targets:
                    for x in ast.walk(t):
                        if isinstance(x, ast.Name) and x.id not in derived:
                            derived.add(x.id)
                            changed = True
    return derived


from ..cfg import entails, _prop, _prop_atoms, _prop_eval  # noqa: E402,F401  (propositional reasoning over branch facts lives in cfg.py)


def arg_for_param(callee, call, pname):
    """Expression that a call binds to parameter `pname` of the (resolved) callee: keyword or position; None if left to the default."""
    for k in call.keywords:
        if k.arg == pname:
            return k.value
    params = [p for p in callee.params]
    if callee.cls is not None and params and params[0] in ("self", "cls") and isinstance(call.func, ast.Attribute):
        params = params[1:]
    if pname in params:
        i = params.index(pname)
        if i < len(call.args) and not any(isinstance(a, ast.Starred) for a in call.args[: i + 1]):
            return call.args[i]
    return None


def targets_of_funcs(ctx, fi, call):
    """resolved internal callees (FuncInfo objects) of a call"""
    try:
        tg, _ext = ctx.calls.resolve_call(fi, call)
    except Exception:
        return []
    return list(tg)
