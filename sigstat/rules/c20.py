"""C20 - incompatible schema versions are refused, and migration preserves every job."""
import ast
import os

from ..engine import rule, Ctx
from ..core import UNKNOWN, dotted, kwarg, body_nodes, inline, stmt_key, canon, walk_no_nested, names_in
from ..exc import ExcFacts
from . import common
from .c03 import _own

PROP = "C20"
FLOOR = 14
EXPLANATION = (
    "Decided (structural necessary conditions): (a) in Project.__init__ the schema compatibility check precedes every "
    "mutating primitive, and in init_project's 'no project yet' handler the legacy-schema check precedes every write; "
    "(b) _check_schema_compatibility returns normally only on paths whose facts exclude both 'older' and 'newer'; it "
    "compares the configured version with SCHEMA_VERSION; (c) IncompatibleSchemaVersion is not a subclass of any exception "
    "type that the discovery helpers catch, and _raise_if_older_schema raises it for every successfully detected legacy "
    "version (no additional condition on the version number); (d) the migration registry is complete: _MIGRATIONS has "
    "(v, v+1) for every 0 <= v < SCHEMA_VERSION, _CONFIG_LOADERS has a loader for every destination, the version bump is "
    "written in the `else` of the migration step inside the file lock; (e) each migration step validates before it mutates: "
    "no raise is reachable after its first file-system modification."
    ' (h) The walk that probes for older schemas starts from an absolute path and runs after the search for a current configuration; the new workspace of the v1->v2 migration is created in the project root, independent of the configured name.'
    ' The loop that moves the legacy files does not stop at the first missing one (C20-f).'
)
UNDECIDED = "That a migration preserves ids, state points, documents and files for every legacy layout is behavioural and not decided."

PI = "signac.project:Project.__init__"
CSC = "signac.project:Project._check_schema_compatibility"
RIO = "signac._config:_raise_if_older_schema"
MIG = "signac.migration"


@rule("C20-a")
def c20_a(ctx: Ctx):
    """Version gate before any mutation."""
    R = "C20-a"
    out = []
    f = ctx.fn(PI)
    cfg = ctx.cfg(f)
    gate = common.ids_of(ctx, f, [s for s, _ in common.stmts_containing_call_to(ctx, f, quals=(CSC,))])
    if not gate:
        out.append(ctx.viol(R, f, f.node, "Project.__init__ never checks the schema version"))
    muts = []
    for n in cfg.stmt_nodes():
        for sub in _own(n.ast):
            for c in walk_no_nested(sub):
                if isinstance(c, ast.Call):
                    tg, ext = ctx.calls.resolve_call(f, c)
                    eff, _ = ctx.effects.transitive(tg) if tg else ([], None)
                    from ..calls import MUTATING
                    if any(e.kind in common.MUTATING_KINDS for e in eff) or (ext in MUTATING and MUTATING[ext][0] != "scratch"):
                        muts.append((n, c))
    if not muts:
        out.append(ctx.ok(R, f, f.node, "Project.__init__ performs no mutation", nontrivial=False))
    for n, c in muts:
        w = cfg.must_pass_before(n.id, gate, kinds="n")
        if w is None and gate:
            out.append(ctx.ok(R, f, c, f"{canon(c)[:40]} is reached only after the schema compatibility check"))
        else:
            out.append(ctx.viol(R, f, c, f"{canon(c)[:40]} can run before the schema compatibility check: a project with an unsupported schema version is modified (workspace created) "
                                "before it is refused", witness=cfg.describe_path(w) if w else None))
    g = ctx.fn("signac.project:Project.init_project")
    cfg2 = ctx.cfg(g)
    hs = [n for n in body_nodes(g) if isinstance(n, ast.ExceptHandler) and "LookupError" in canon(n.type or ast.Constant(value=""))]
    for h in hs:
        gate2 = set()
        writes = []
        for st in h.body:
            for c in walk_no_nested(st):
                if isinstance(c, ast.Call):
                    tq = common.targets_of(ctx, g, c)
                    if RIO in tq:
                        gate2 |= set(cfg2.node_ids_for(ctx.stmt_of(g, c)))
                    tg, ext = ctx.calls.resolve_call(g, c)
                    eff, _ = ctx.effects.transitive(tg) if tg else ([], None)
                    if any(e.kind in common.MUTATING_KINDS for e in eff) or (isinstance(c.func, ast.Attribute) and c.func.attr == "write" and ctx.calls.type_of(c.func.value, g) == "ext:ConfigObj"):
                        writes.append(c)
        if not gate2:
            out.append(ctx.viol(R, g, h, "init_project creates a new configuration without checking for a legacy (older schema) project in the directory"))
        for c in writes:
            bad = None
            for nid in ctx.node_ids(g, c):
                bad = bad or cfg2.must_pass_before(nid, gate2, kinds="nx")
            if bad is None and gate2:
                out.append(ctx.ok(R, g, c, f"{canon(c)[:40]} only after the legacy-schema check"))
            else:
                out.append(ctx.viol(R, g, c, f"{canon(c)[:40]} can run before the legacy-schema check: a v1 project is overlaid with an empty v2 configuration"))
    return out


@rule("C20-b")
def c20_b(ctx: Ctx):
    """_check_schema_compatibility returns only for equal versions."""
    R = "C20-b"
    f = ctx.fn(CSC)
    cfg = ctx.cfg(f)
    out = []
    env = ctx.env(f)
    paths, trunc = cfg.paths_to(cfg.exit, kinds="n")
    if trunc or not paths:
        return [ctx.inc(R, f, f.node, "path enumeration failed")]
    bad = None
    for path, facts in paths:
        fs = set(facts)
        eq = any(pol and "==" in t and "schema_version" in t for (t, pol) in fs)
        not_gt = any((not pol) and ">" in t and "schema_version" in t and ">=" not in t for (t, pol) in fs)
        not_lt = any((not pol) and "<" in t and "schema_version" in t and "<=" not in t for (t, pol) in fs)
        if not (eq or (not_gt and not_lt)):
            bad = (path, sorted(fs))
    if bad:
        out.append(ctx.viol(R, f, f.node, f"the compatibility check can return normally although the versions may differ (facts on that path: {bad[1]}): a project with another schema version is opened",
                            witness=cfg.describe_path(bad[0])))
    else:
        out.append(ctx.ok(R, f, f.node, f"all {len(paths)} normal return path(s) exclude both an older and a newer configured version"))
    # roles by definition, not by name: the two operands of the version comparisons
    sv = cv = None
    for n in body_nodes(f):
        if isinstance(n, ast.Compare) and len(n.ops) == 1 and isinstance(n.ops[0], (ast.Gt, ast.Lt, ast.GtE, ast.LtE, ast.Eq, ast.NotEq)):
            for side in (n.left, n.comparators[0]):
                v = common.inline_at(ctx, f, side, n)
                if canon(v) == "SCHEMA_VERSION":
                    sv = v
                elif "config" in canon(v):
                    cv = v
    if sv is not None and canon(sv) == "SCHEMA_VERSION" and ctx.fold(sv, f) is not UNKNOWN:
        out.append(ctx.ok(R, f, f.node, f"compared against SCHEMA_VERSION = {ctx.fold(sv, f)}", construct=CSC + "|reference"))
    else:
        out.append(ctx.inc(R, f, f.node, "reference version is not SCHEMA_VERSION", construct=CSC + "|reference"))
    if cv is not None and "schema_version" in canon(cv) and "config" in canon(cv):
        out.append(ctx.ok(R, f, f.node, "the configured version is read from the project configuration", construct=CSC + "|configured"))
    else:
        out.append(ctx.inc(R, f, f.node, "configured version source not recognised", construct=CSC + "|configured"))
    return out


@rule("C20-c")
def c20_c(ctx: Ctx):
    """IncompatibleSchemaVersion is never swallowed by discovery; legacy projects are refused unconditionally."""
    R = "C20-c"
    out = []
    ex = ExcFacts(ctx)
    ISV = "signac.errors:IncompatibleSchemaVersion"
    sup = ex.supers(ISV)
    for q in (RIO, "signac._config:_locate_config_dir", "signac.project:Project.get_project", "signac.project:Project.init_project"):
        f = ctx.fn(q)
        for h in [n for n in body_nodes(f) if isinstance(n, ast.ExceptHandler)]:
            types = ex.handler_type_names(f, h)
            if ex.catches(types, ISV):
                # harmless only if the handler re-raises
                if common.reraises_on_all_paths(ctx, f, h) is None:
                    out.append(ctx.ok(R, f, h, f"handler for {types} re-raises"))
                else:
                    out.append(ctx.viol(R, f, h, f"handler `{stmt_key(h)}` in {q.split(':')[-1]} catches IncompatibleSchemaVersion (bases {sorted(s.split(':')[-1] for s in sup)}) and continues: "
                                        "an incompatible project is treated as 'no project here'"))
            else:
                out.append(ctx.ok(R, f, h, f"handler for {types} cannot catch IncompatibleSchemaVersion"))
    # what the `except RuntimeError: pass` of _raise_if_older_schema may swallow: only 'no loadable legacy config here'
    gv = ctx.fn(MIG + ":_get_config_schema_version")
    gcfg = ctx.cfg(gv)
    # the loader attempts: statements that call _CONFIG_LOADERS[<version>](...)
    loads = [n for n in gcfg.stmt_nodes() if n.kind == "stmt" and any(isinstance(c, ast.Call) and isinstance(c.func, ast.Subscript) and "_CONFIG_LOADERS" in canon(c.func.value)
                                                                     for c in walk_no_nested(n.ast))]
    after_success = set()
    if loads:
        starts = [b for ln in loads for (b, kk, _f) in gcfg.succ.get(ln.id, []) if kk == "n"]
        after_success = gcfg.reachable(starts, blocked={ln.id for ln in loads}, kinds="n") | set(starts)
    for r in [n for n in body_nodes(gv) if isinstance(n, ast.Raise) and n.exc is not None]:
        nm = dotted(r.exc.func if isinstance(r.exc, ast.Call) else r.exc) or ""
        pmg = ctx.parents(gv)
        par = pmg.get(id(r))
        in_for_else = isinstance(par, ast.For) and any(r is x for x in par.orelse)
        # equivalently: the raise cannot be reached once some loader has returned normally (only by running out of loaders)
        if not in_for_else and loads and not any(i in after_success for i in ctx.node_ids(gv, r)):
            in_for_else = True
        k = f"{gv.qual}|raise:{stmt_key(r, 50)}"
        if in_for_else:
            out.append(ctx.ok(R, gv, r, "the only error of the version probe is 'no loader could read a config file' (for-else)", construct=k))
        else:
            facts = common.facts_at(ctx, gv, r, "n")
            out.append(ctx.viol(R, gv, r, f"_get_config_schema_version raises {nm} under {sorted(facts)}: _raise_if_older_schema calls it inside `except RuntimeError: pass`, so this condition "
                                "is silently read as 'no legacy project here' and an incompatible project is reported as missing (init_project then writes a new configuration into it)", construct=k))
    f = ctx.fn(RIO)
    raises = [n for n in body_nodes(f) if isinstance(n, ast.Raise) and n.exc is not None and (dotted(n.exc.func if isinstance(n.exc, ast.Call) else n.exc) or "").endswith("IncompatibleSchemaVersion")]
    if not raises:
        out.append(ctx.viol(R, f, f.node, "_raise_if_older_schema never raises IncompatibleSchemaVersion"))
    for r in raises:
        facts = common.facts_at(ctx, f, r, "n")
        cond = [x for x in facts if "schema_version" in x[0] or "SCHEMA_VERSION" in x[0]]
        if cond:
            out.append(ctx.viol(R, f, r, f"a detected legacy configuration is refused only if {cond}: legacy-layout projects declaring other versions fall through, are reported as 'no project' "
                                "and init_project creates a new configuration on top of them"))
        else:
            out.append(ctx.ok(R, f, r, "every successfully detected legacy configuration is refused"))
    return out


@rule("C20-d")
def c20_d(ctx: Ctx):
    """Migration registry completeness and version bump placement."""
    R = "C20-d"
    out = []
    m = ctx.prog.mod(MIG)
    ver = ctx.fold(ast.Name(id="SCHEMA_VERSION", ctx=ast.Load()), None, m)
    if not isinstance(ver, int):
        return [ctx.inc(R, None, None, "SCHEMA_VERSION does not fold to an int", construct="SCHEMA_VERSION")]
    migs = m.consts.get("_MIGRATIONS")
    loaders = m.consts.get("_CONFIG_LOADERS")
    mk = set()
    if isinstance(migs, ast.Dict):
        for k in migs.keys:
            v = ctx.fold(k, None, m)
            if isinstance(v, tuple):
                mk.add(v)
    lk = set()
    if isinstance(loaders, ast.Dict):
        for k in loaders.keys:
            v = ctx.fold(k, None, m)
            if isinstance(v, int):
                lk.add(v)
    for v in range(ver):
        k = f"_MIGRATIONS|{v}->{v+1}"
        if (v, v + 1) in mk:
            out.append(ctx.ok(R, None, None, f"migration ({v}, {v+1}) registered", construct=k))
        else:
            out.append(ctx.viol(R, None, None, f"signac/migration/__init__.py: no migration registered for ({v}, {v+1}) although SCHEMA_VERSION is {ver}: projects at version {v} cannot be migrated", construct=k))
    for v in range(1, ver + 1):
        k = f"_CONFIG_LOADERS|{v}"
        if v in lk:
            out.append(ctx.ok(R, None, None, f"config loader for version {v} registered", construct=k))
        else:
            out.append(ctx.viol(R, None, None, f"signac/migration/__init__.py: no config loader for schema version {v}: the version bump after migrating to {v} cannot be written", construct=k))
    for (a, b) in mk:
        if b != a + 1:
            out.append(ctx.inc(R, None, None, f"migration ({a}, {b}) skips versions", construct=f"_MIGRATIONS|{a}->{b}"))
    f = ctx.fn(MIG + ":apply_migrations")
    bumps = [n for n in body_nodes(f) if isinstance(n, ast.Assign) and any(isinstance(t, ast.Subscript) and ctx.fold(t.slice, f) == "schema_version" for t in n.targets)]
    pm = ctx.parents(f)
    # roles from the loop over the collected migrations: for (origin, destination), migrate in _collect_migrations(...)
    MIGRATE, DEST = "migrate", "destination"
    for lp, _b in common.loop_over(f, "_collect_migrations(X)"):
        t = lp.target
        if isinstance(t, ast.Tuple) and len(t.elts) == 2 and isinstance(t.elts[0], ast.Tuple) and len(t.elts[0].elts) == 2 and isinstance(t.elts[1], ast.Name):
            MIGRATE, DEST = t.elts[1].id, canon(t.elts[0].elts[1])
    if not bumps:
        out.append(ctx.viol(R, f, f.node, "apply_migrations never records the new schema version"))
    for b in bumps:
        cur = pm.get(id(b))
        in_else = in_with = False
        prev = b
        while cur is not None:
            if isinstance(cur, ast.Try) and any(prev is x for x in cur.orelse):
                has_mig = any(isinstance(c, ast.Call) and isinstance(c.func, ast.Name) and c.func.id == MIGRATE for st in cur.body for c in ast.walk(st))
                in_else = in_else or has_mig
            if isinstance(cur, ast.With) and ("lock" in canon(cur.items[0].context_expr).lower() or "Lock" in canon(common.inline_at(ctx, f, cur.items[0].context_expr, cur))):
                in_with = True
            prev = cur
            cur = pm.get(id(cur))
        if not in_else:
            # equivalent shape: the bump follows the try and every handler of that try leaves (re-raises), i.e. the bump cannot be reached through an
            # exception edge out of the migrate() call
            cfgm = ctx.cfg(f)
            migs = [n for n in cfgm.stmt_nodes() if n.kind == "stmt" and any(isinstance(c, ast.Call) and isinstance(c.func, ast.Name) and c.func.id == MIGRATE for c in walk_no_nested(n.ast))]
            if migs:
                exc_starts = [bb for mn in migs for (bb, kk, _f) in cfgm.succ.get(mn.id, []) if kk in "xu"]
                via_exc = cfgm.reachable(exc_starts, kinds="nx") | set(exc_starts)
                norm_starts = [bb for mn in migs for (bb, kk, _f) in cfgm.succ.get(mn.id, []) if kk == "n"]
                via_norm = cfgm.reachable(norm_starts, kinds="n") | set(norm_starts)
                bids = set(ctx.node_ids(f, b))
                if exc_starts and not (bids & via_exc) and (bids & via_norm):
                    in_else = True
        if in_else and in_with:
            out.append(ctx.ok(R, f, b, "the version bump is in the else-branch of the migration step, inside the migration lock"))
        elif not in_else:
            out.append(ctx.viol(R, f, b, "the schema version is bumped although the migration step may have failed (not in the `else` of the try around migrate())"))
        else:
            out.append(ctx.viol(R, f, b, "the schema version is bumped outside the migration lock"))
        if canon(b.value) != DEST:
            out.append(ctx.viol(R, f, b, f"the recorded version is {canon(b.value)}, not the destination of the step"))
    cfgnames = {canon(t.value) for b in bumps for t in b.targets if isinstance(t, ast.Subscript)}
    cm = ctx.prog.funcs.get(MIG + ":_collect_migrations")
    kc = MIG + ":_collect_migrations|newer-is-strict"
    if cm is None:
        out.append(ctx.inc(R, None, None, "_collect_migrations not found", construct=kc))
    else:
        svp = cm.params[-1] if cm.params else "schema_version"
        guards = [n for n in body_nodes(cm) if isinstance(n, ast.If) and isinstance(n.test, ast.Compare) and len(n.test.ops) == 1
                  and any(isinstance(x, ast.Raise) for st in n.body for x in ast.walk(st)) and isinstance(n.test.ops[0], (ast.Gt, ast.GtE, ast.Lt, ast.LtE))]
        if not guards:
            out.append(ctx.inc(R, cm, cm.node, "no 'configured version newer than supported' guard found", construct=kc))
        for gd in guards:
            if isinstance(gd.test.ops[0], (ast.GtE, ast.LtE)):
                out.append(ctx.viol(R, cm, gd, f"the 'newer than supported' guard is `{canon(gd.test)}`: it also fires when the project is exactly at the supported version, so apply_migrations on an "
                                    "up-to-date project raises RuntimeError instead of doing nothing", construct=kc))
            else:
                out.append(ctx.ok(R, cm, gd, f"`{canon(gd.test)}`: only a strictly newer configured version is refused; an up-to-date project needs no migration", construct=kc))
    locks = [c for c in body_nodes(f) if isinstance(c, ast.Call) and (dotted(c.func) or "").split(".")[-1] in ("FileLock", "SoftFileLock")]
    unl = [c for c in body_nodes(f) if isinstance(c, ast.Call) and common.ext_name(ctx, f, c) in ("os.unlink", "os.remove") and "lock" in canon(c).lower()]
    for lk in locks:
        to = kwarg(lk, "timeout") or (lk.args[1] if len(lk.args) > 1 else None)
        tv = ctx.fold(to, f) if to is not None else -1
        kt = MIG + ":apply_migrations|lock-no-timeout"
        if isinstance(tv, (int, float)) and tv >= 0 and unl:
            out.append(ctx.viol(R, f, lk, f"the migration lock is acquired with timeout={tv!r} while the `finally` removes the lock file unconditionally: a caller that times out behind a running "
                                "migration deletes the lock file that migration still holds, the next caller acquires a fresh lock and a second migration runs concurrently", construct=kt))
        elif tv == -1 or not unl:
            out.append(ctx.ok(R, f, lk, "the migration lock blocks until it is acquired (no timeout), so the lock file is only removed by a caller that held the lock", construct=kt))
        else:
            out.append(ctx.inc(R, f, lk, f"lock timeout {canon(to)} not a constant", construct=kt))
    wr = [c for c in body_nodes(f) if isinstance(c, ast.Call) and isinstance(c.func, ast.Attribute) and c.func.attr == "write" and canon(c.func.value) in cfgnames]
    if wr:
        out.append(ctx.ok(R, f, wr[0], "the bumped configuration is written"))
    else:
        out.append(ctx.viol(R, f, f.node, "the bumped version is never written to the configuration file"))
    return out


@rule("C20-e")
def c20_e(ctx: Ctx):
    """Each migration step validates before it mutates."""
    R = "C20-e"
    out = []
    for q in (MIG + ".v1_to_v2:_migrate_v1_to_v2", MIG + ".v0_to_v1:_migrate_v0_to_v1"):
        f = ctx.fn(q)
        cfg = ctx.cfg(f)
        muts = set()
        for e in ctx.effects.direct(f):
            if e.kind in common.MUTATING_KINDS:
                muts |= set(ctx.node_ids(f, e.node))
        for n in cfg.stmt_nodes():
            for sub in _own(n.ast):
                for c in walk_no_nested(sub):
                    if isinstance(c, ast.Call) and isinstance(c.func, ast.Attribute) and c.func.attr == "write" and "cfg" in canon(c.func.value):
                        muts.add(n.id)
        raises = [n for n in cfg.stmt_nodes() if isinstance(n.ast, ast.Raise)]
        if not muts:
            out.append(ctx.ok(R, f, f.node, "the step modifies nothing", nontrivial=False))
            continue
        after = cfg.reachable(muts, kinds="n")
        bad = [r for r in raises if r.id in after]
        if bad:
            first = min(cfg.nodes[m].lineno for m in muts)
            for r in bad:
                out.append(ctx.viol(R, f, r.ast, f"{stmt_key(r.ast, 60)} can be raised after the step already modified the project (first modification at line {first}): a refused migration leaves "
                                    "a half-migrated project that neither version of signac can open"))
        else:
            out.append(ctx.ok(R, f, f.node, f"{len(raises)} validation raise(s), none reachable after the first of {len(muts)} modifications"))
    return out


@rule("C20-f")
def c20_f(ctx: Ctx):
    """The v1->v2 migration moves files to exactly the names the current code reads."""
    R = "C20-f"
    out = []
    f = ctx.fn(MIG + ".v1_to_v2:_migrate_v1_to_v2")
    pm = ctx.prog.mod("signac.project")
    cache = ctx.fold(ast.parse("Project.FN_CACHE", mode="eval").body, None, ctx.prog.mod(MIG + ".v1_to_v2"))
    cfgfn = ctx.fold(ast.Name(id="PROJECT_CONFIG_FN", ctx=ast.Load()), None, ctx.prog.mod("signac._config"))
    # cache target
    ftm = [n for n in body_nodes(f) if isinstance(n, ast.Assign) and isinstance(n.value, ast.Dict)
           and any(isinstance(k, ast.Constant) and k.value == ".signac_sp_cache.json.gz" for k in n.value.keys)]
    if ftm and isinstance(ftm[0].value, ast.Dict):
        v = ctx.fold(ftm[0].value, f)
        if isinstance(v, dict):
            tgt = v.get(".signac_sp_cache.json.gz")
            if tgt == cache:
                out.append(ctx.ok(R, f, ftm[0], f"the v1 state point cache is moved to Project.FN_CACHE ({cache})"))
            else:
                out.append(ctx.viol(R, f, ftm[0], f"the v1 state point cache is moved to {tgt!r} but the project reads {cache!r}"))
        else:
            out.append(ctx.inc(R, f, ftm[0], "files_to_move does not fold"))
    # every legacy file is looked at on its own: the loop that moves them does not stop at the first one that is absent
    for lp in [n for n in body_nodes(f) if isinstance(n, (ast.For, ast.While))]:
        moves = [c for st in lp.body for c in walk_no_nested(st) if isinstance(c, ast.Call) and common.ext_name(ctx, f, c) in ("os.replace", "os.rename", "shutil.move")]
        if not moves:
            continue
        stops = [x for st in lp.body for x in walk_no_nested(st) if isinstance(x, (ast.Break, ast.Return))]
        kk = f.qual + "|every-legacy-file-considered"
        if stops:
            out.append(ctx.viol(R, f, stops[0], f"the loop that moves the legacy files ends at line {stops[0].lineno} as soon as one of them is missing: files listed after it (the state point "
                                "cache when there is no shell history) stay in the project root, where the migrated project no longer reads them", construct=kk))
        else:
            out.append(ctx.ok(R, f, lp, "each legacy file is moved (or skipped) independently of the others", construct=kk))
    # config target: _get_project_config_fn(root)
    v2 = [n for n in body_nodes(f) if isinstance(n, ast.Assign) and len(n.targets) == 1 and isinstance(n.targets[0], ast.Name) and isinstance(n.value, ast.Call)
          and "signac._config:_get_project_config_fn" in common.targets_of(ctx, f, n.value)]
    moved_to = {canon(c.args[1]) for c in body_nodes(f) if isinstance(c, ast.Call) and common.ext_name(ctx, f, c) in ("os.replace", "os.rename", "shutil.move") and len(c.args) >= 2}
    if v2 and v2[0].targets[0].id in moved_to:
        out.append(ctx.ok(R, f, v2[0], f"the config file is moved to the path the project loader uses (_get_project_config_fn -> {cfgfn})"))
    else:
        out.append(ctx.inc(R, f, f.node, "target of the config move not recognised"))
    ld = ctx.fn(MIG + ".v1_to_v2:_load_config_v2")
    j = [c for c in body_nodes(ld) if isinstance(c, ast.Call) and common.ext_name(ctx, ld, c) == "os.path.join" and len(c.args) == 3]
    if j:
        parts = [ctx.fold(a, ld) for a in j[0].args[1:]]
        if all(isinstance(x, str) for x in parts) and os.path.join(*parts) == cfgfn:
            out.append(ctx.ok(R, ld, j[0], "the v2 config loader of the migration reads the same file name as the project loader"))
        else:
            out.append(ctx.viol(R, ld, j[0], f"the migration's v2 loader reads {parts} but projects are configured in {cfgfn!r}: the version bump cannot be written / read back"))
    for lq in (MIG + ".v0_to_v1:_load_config_v1", MIG + ".v1_to_v2:_load_config_v2"):
        lf = ctx.fn(lq)
        for c in [x for x in body_nodes(lf) if isinstance(x, ast.Call) and (dotted(x.func) or "").endswith("ConfigObj")]:
            extra = [k.arg for k in c.keywords if k.arg not in ("configspec", "infile")]
            k = lq + "|ConfigObj-options"
            lv = kwarg(c, "list_values")
            if lv is not None and ctx.fold(lv, lf) is False:
                out.append(ctx.viol(R, lf, c, "the legacy config is parsed with list_values=False: quoted values keep their quotation marks, so a quoted project name is migrated into the project "
                                    "document with literal quotes", construct=k))
            elif extra:
                out.append(ctx.inc(R, lf, c, f"ConfigObj called with extra options {extra}", construct=k))
            else:
                out.append(ctx.ok(R, lf, c, "the legacy config is parsed with ConfigObj's default value handling", construct=k))
    for mq in (MIG + ".v0_to_v1", MIG + ".v1_to_v2", "signac._config"):
        mm = ctx.prog.mod(mq)
        spec = ctx.fold(mm.consts.get("_CFG"), None, mm) if "_CFG" in mm.consts else None
        k = mq + "|_CFG"
        if isinstance(spec, str):
            line = [l.strip() for l in spec.splitlines() if l.strip().startswith("schema_version")]
            if line and line[0].replace(" ", "").startswith("schema_version=string("):
                out.append(ctx.ok(R, None, None, f"{mq}: the config spec accepts any schema_version string ({line[0]})", construct=k))
                if mq == "signac._config":
                    import re as _re
                    dm = _re.search(r"default\s*=\s*['\"]?(\d+)['\"]?", line[0])
                    cur = ctx.fold(ast.Name(id="SCHEMA_VERSION", ctx=ast.Load()), None, ctx.prog.mod("signac.version"))
                    kd = mq + "|_CFG-default"
                    try:
                        curi = int(cur)
                    except Exception:
                        curi = None
                    if dm and curi is not None and int(dm.group(1)) >= curi:
                        out.append(ctx.viol(R, None, None, f"{mm.rel}: the config spec defaults schema_version to {dm.group(1)!r}, the current schema ({cur!r}): a configuration that declares no "
                                            "version (empty, hand-written, left by an interrupted init) is accepted as current instead of being refused with IncompatibleSchemaVersion",
                                            construct=kd))
                    elif dm and curi is not None:
                        out.append(ctx.ok(R, None, None, f"{mq}: a configuration without schema_version counts as version {dm.group(1)} (< {cur}): it is refused, not silently accepted", construct=kd))
                    else:
                        out.append(ctx.inc(R, None, None, f"{mq}: default of schema_version not found in {line[0]!r}", construct=kd))
            elif line:
                out.append(ctx.viol(R, None, None, f"{mm.rel}: the config spec restricts schema_version to {line[0]}: a configuration declaring another version fails validation, the loader's "
                                    "RuntimeError is read as 'no legacy project here' and the incompatible project is reported as missing instead of refused", construct=k))
    wdc = [n for n in body_nodes(f) if isinstance(n, ast.Compare) and len(n.ops) == 1 and ctx.fold(n.comparators[0], f) == "workspace"]
    for c in wdc:
        l = common.inline_at(ctx, f, c.left, c)
        t = canon(l)
        if any(x in t for x in ("basename", "normpath", "split(", "Path(")):
            out.append(ctx.viol(R, f, c, f"the configured workspace_dir is compared with 'workspace' after reducing it to {t[:50]}: a nested custom workspace whose last component is 'workspace' "
                                "(e.g. data/workspace) is taken for the default, never moved, and the migrated project opens with no jobs", construct=f.qual + "|workspace-compare"))
        elif "workspace_dir" in t or "current_workspace_name" in t:
            out.append(ctx.ok(R, f, c, "the configured workspace_dir is compared as written with the default name", construct=f.qual + "|workspace-compare"))
    # workspace name
    # the new workspace path: destination of the move that happens when the configured name differs from the default
    nw = []
    for c in body_nodes(f):
        if isinstance(c, ast.Call) and common.ext_name(ctx, f, c) in ("os.replace", "os.rename", "shutil.move") and len(c.args) >= 2 and isinstance(c.args[1], ast.Name):
            if any("workspace" in t for (t, _) in common.facts_at(ctx, f, c, "n")):
                nw += [n for n in body_nodes(f) if isinstance(n, ast.Assign) and any(isinstance(t, ast.Name) and t.id == c.args[1].id for t in n.targets)]
    pi = ctx.fn(PI)
    ws = [n for n in body_nodes(pi) if isinstance(n, ast.Assign) and any(canon(t) == "self._workspace" for t in n.targets)]
    if nw and ws:
        a = ctx.fold(nw[0].value.args[-1], f) if isinstance(nw[0].value, ast.Call) and nw[0].value.args else None
        b = ctx.fold(ws[0].value.args[-1], pi) if isinstance(ws[0].value, ast.Call) and ws[0].value.args else None
        # the directory the new workspace is created in must be the project root itself (a function of the root
        # parameter only), never something derived from the configured (possibly nested) old workspace name
        dirpart = None
        if isinstance(nw[0].value, ast.Call) and common.ext_name(ctx, f, nw[0].value) == "os.path.join" and len(nw[0].value.args) >= 2:
            dirpart = nw[0].value.args[:-1]
        root_param = f.params[0] if f.params else None
        dir_txt = ", ".join(canon(common.inline_at(ctx, f, d, nw[0])) for d in dirpart) if dirpart else None
        cfg_names = {t.id for n in body_nodes(f) if isinstance(n, ast.Assign) and isinstance(n.value, ast.Call) and canon(n.value).startswith("cfg.get(") for t in n.targets if isinstance(t, ast.Name)}
        cfg_dep = dir_txt is not None and (any(nm in dir_txt for nm in cfg_names) or "cfg.get(" in dir_txt or "cfg[" in dir_txt or "workspace_dir" in dir_txt)
        if a == b and isinstance(a, str) and cfg_dep:
            out.append(ctx.viol(R, f, nw[0], f"the new workspace is created in {dir_txt[:90]}, which depends on the configured workspace_dir: for a nested custom workspace (scratch/runs) the jobs are moved to "
                                "<root>/scratch/workspace instead of <root>/workspace and the migrated project opens empty", construct=f.qual + "|new-workspace-dir"))
        elif a == b and isinstance(a, str) and dirpart is not None and dir_txt != root_param:
            out.append(ctx.inc(R, f, nw[0], f"directory of the new workspace ({dir_txt[:60]}) is not the root parameter", construct=f.qual + "|new-workspace-dir"))
        elif a == b and isinstance(a, str):
            out.append(ctx.ok(R, f, nw[0], f"a custom workspace directory is moved to '{a}', the fixed workspace name of schema 2"))
        else:
            out.append(ctx.viol(R, f, nw[0], f"the migration moves the workspace to {a!r} but Project uses {b!r}: migrated projects appear empty"))
    else:
        out.append(ctx.inc(R, f, f.node, "workspace names not found"))
    # project name goes to the project document under the documented key, only when non-default
    doc = [n for n in body_nodes(f) if isinstance(n, ast.Assign) and any(isinstance(t, ast.Subscript) and isinstance(t.value, ast.Name)
           and ctx.calls.type_of(t.value, f) not in (None, "ext:ConfigObj") or (isinstance(t, ast.Subscript) and ctx.fold(t.slice, f) == "signac_project_name") for t in n.targets)]
    for d in doc:
        facts = common.facts_at(ctx, f, d, "n")
        if any((not pol) and "'None'" in t for (t, pol) in facts):
            out.append(ctx.ok(R, f, d, "the project name is stored in the project document only if it is not the default"))
        else:
            out.append(ctx.viol(R, f, d, "the project document is written even for the default project name: migrating changes the documents of projects that had none"))
    return out


@rule("C20-g")
def c20_g(ctx: Ctx):
    """init_project writes nothing outside its 'no project here' handler, i.e. nothing before the legacy-schema check (same obligation as C19-a)."""
    from .c19 import c19_a
    res = c19_a(ctx)
    for r in res:
        r.rule = "C20-g"
    return res


@rule("C20-h")
def c20_h(ctx: Ctx):
    """A legacy project anywhere above the query path is refused: the walk that probes for older schemas starts from an absolute path and runs after the search for a current
    configuration (from C19-c)."""
    from .c19 import c19_c
    res = [r for r in c19_c(ctx) if "|absolute-start" in r.construct or "|probe-after-search" in r.construct]
    for r in res:
        r.rule = "C20-h"
    return res


RULES = [c20_a, c20_b, c20_c, c20_d, c20_e, c20_f, c20_g, c20_h]
