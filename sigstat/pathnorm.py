"""sigstat.pathnorm - load-time normalisation of pathlib code into the os / os.path spelling.

signac itself uses os.path throughout, and every rule speaks about os.path.join / os.replace / open(...).
A tree in which a function has been modernised to pathlib must be decided by the same rules, so at load
time expressions whose value is evidently a pathlib path are re-written (positions kept):

    Path(a, b), P / x, P.joinpath(x)      -> os.path.join(a, b) ...
    P.with_name(n)                        -> os.path.join(os.path.dirname(P), n)
    P.parent / P.name                     -> os.path.dirname(P) / os.path.basename(P)
    P.resolve() / P.absolute()            -> os.path.realpath(P) / os.path.abspath(P)
    P.exists() is_file() is_dir() ...     -> os.path.exists(P) ...
    P.replace(t) rename(t) unlink() ...   -> os.replace(P, t) ...
    P.write_text(s) / P.open(m)           -> open(P, "w").write(s) / open(P, m)
    str(P) / os.fspath(P)                 -> P

An expression is evidently a path when it is a call of a pathlib class imported by the module, one of the
path-valued operations above on such an expression, or a local name all of whose bindings in the function are
such expressions (fixpoint), or a parameter annotated with a pathlib class. Anything else is left alone: the
rules then see an unknown shape (inconclusive), never a wrong one.  Known approximations (trusted, not decided):
pathlib collapses '.' components and repeated separators when a path object is made; os.path.join does not.
"""
from __future__ import annotations

import ast
from typing import Dict, Optional, Set

PATH_CLASSES = {"Path", "PurePath", "PosixPath", "PurePosixPath", "WindowsPath", "PureWindowsPath"}
PATH_VALUED_METHODS = {"with_name", "with_suffix", "with_stem", "resolve", "absolute", "expanduser", "joinpath", "relative_to"}
PATH_VALUED_ATTRS = {"parent"}


def _n(src: str) -> ast.expr:
    return ast.parse(src, mode="eval").body


def _call(fn: str, *args, **kw) -> ast.Call:
    return ast.Call(func=_n(fn), args=list(args), keywords=[ast.keyword(arg=k, value=v) for k, v in kw.items()])


def _fix(new: ast.AST, old: ast.AST) -> ast.AST:
    for x in ast.walk(new):
        if not hasattr(x, "lineno") or getattr(x, "lineno", None) is None:
            ast.copy_location(x, old)
        if getattr(x, "end_lineno", None) is None and hasattr(old, "end_lineno"):
            x.end_lineno = old.end_lineno
            x.end_col_offset = old.end_col_offset
    return ast.copy_location(new, old)


class PathNormaliser:
    def __init__(self, tree: ast.Module):
        self.tree = tree
        self.cls_names: Set[str] = set()   # local names bound to pathlib classes
        self.mod_names: Set[str] = set()   # local names bound to the pathlib module
        self.has_os = False
        self.changed = False
        for n in ast.walk(tree):
            if isinstance(n, ast.ImportFrom) and n.module == "pathlib" and n.level == 0:
                for a in n.names:
                    if a.name in PATH_CLASSES:
                        self.cls_names.add(a.asname or a.name)
            elif isinstance(n, ast.Import):
                for a in n.names:
                    if a.name == "pathlib":
                        self.mod_names.add(a.asname or "pathlib")
                    if a.name == "os" and a.asname in (None, "os"):
                        self.has_os = True

    # ------------------------------------------------------------------
    def is_path_ctor(self, e: ast.AST) -> bool:
        if not isinstance(e, ast.Call):
            return False
        f = e.func
        if isinstance(f, ast.Name) and f.id in self.cls_names:
            return True
        if isinstance(f, ast.Attribute) and isinstance(f.value, ast.Name) and f.value.id in self.mod_names and f.attr in PATH_CLASSES:
            return True
        return False

    def is_path_ann(self, ann: Optional[ast.AST]) -> bool:
        if ann is None:
            return False
        if isinstance(ann, ast.Name):
            return ann.id in self.cls_names
        if isinstance(ann, ast.Attribute) and isinstance(ann.value, ast.Name):
            return ann.value.id in self.mod_names and ann.attr in PATH_CLASSES
        if isinstance(ann, ast.Constant) and isinstance(ann.value, str):
            return ann.value in self.cls_names
        return False

    def is_path(self, e: ast.AST, names: Set[str]) -> bool:
        if isinstance(e, ast.Name):
            return e.id in names
        if isinstance(e, ast.NamedExpr):
            return self.is_path(e.value, names)
        if self.is_path_ctor(e):
            return True
        if isinstance(e, ast.BinOp) and isinstance(e.op, ast.Div):
            return self.is_path(e.left, names) or self.is_path(e.right, names)
        if isinstance(e, ast.Call) and isinstance(e.func, ast.Attribute) and e.func.attr in PATH_VALUED_METHODS:
            return self.is_path(e.func.value, names)
        if isinstance(e, ast.Attribute) and e.attr in PATH_VALUED_ATTRS:
            return self.is_path(e.value, names)
        if isinstance(e, ast.IfExp):
            return self.is_path(e.body, names) and self.is_path(e.orelse, names)
        return False

    # ------------------------------------------------------------------
    def path_names(self, fn: ast.AST) -> Set[str]:
        """Local names of `fn` (a function or the module) every binding of which is evidently a path."""
        binds: Dict[str, list] = {}
        bad: Set[str] = set()

        def bind(t, v):
            if isinstance(t, ast.Name):
                binds.setdefault(t.id, []).append(v)
            elif isinstance(t, (ast.Tuple, ast.List)):
                for el in t.elts:
                    for nm in ast.walk(el):
                        if isinstance(nm, ast.Name):
                            bad.add(nm.id)
            elif isinstance(t, ast.Starred):
                for nm in ast.walk(t):
                    if isinstance(nm, ast.Name):
                        bad.add(nm.id)

        def walk(node, top=True):
            for c in ast.iter_child_nodes(node):
                if isinstance(c, (ast.FunctionDef, ast.AsyncFunctionDef, ast.ClassDef, ast.Lambda)):
                    if isinstance(c, (ast.FunctionDef, ast.AsyncFunctionDef, ast.ClassDef)):
                        bad.add(c.name)
                    continue
                if isinstance(c, ast.Assign):
                    for t in c.targets:
                        bind(t, c.value)
                elif isinstance(c, ast.AnnAssign) and c.value is not None:
                    bind(c.target, c.value)
                elif isinstance(c, ast.AugAssign):
                    if isinstance(c.target, ast.Name):
                        if isinstance(c.op, ast.Div):
                            binds.setdefault(c.target.id, []).append(ast.BinOp(left=ast.Name(id=c.target.id, ctx=ast.Load()), op=ast.Div(), right=c.value))
                        else:
                            bad.add(c.target.id)
                elif isinstance(c, ast.NamedExpr):
                    bind(c.target, c.value)
                elif isinstance(c, (ast.For, ast.AsyncFor)):
                    for nm in ast.walk(c.target):
                        if isinstance(nm, ast.Name):
                            bad.add(nm.id)
                elif isinstance(c, (ast.With, ast.AsyncWith)):
                    for it in c.items:
                        if it.optional_vars is not None:
                            for nm in ast.walk(it.optional_vars):
                                if isinstance(nm, ast.Name):
                                    bad.add(nm.id)
                elif isinstance(c, ast.ExceptHandler) and c.name:
                    bad.add(c.name)
                elif isinstance(c, ast.comprehension):
                    for nm in ast.walk(c.target):
                        if isinstance(nm, ast.Name):
                            bad.add(nm.id)
                elif isinstance(c, (ast.Import, ast.ImportFrom)):
                    for a in c.names:
                        bad.add((a.asname or a.name).split(".")[0])
                elif isinstance(c, (ast.Global, ast.Nonlocal)):
                    bad.update(c.names)
                walk(c, False)

        walk(fn)
        names: Set[str] = set()
        if isinstance(fn, (ast.FunctionDef, ast.AsyncFunctionDef)):
            a = fn.args
            for p in a.posonlyargs + a.args + a.kwonlyargs + ([a.vararg] if a.vararg else []) + ([a.kwarg] if a.kwarg else []):
                if self.is_path_ann(p.annotation) and p.arg not in binds:
                    names.add(p.arg)
                else:
                    bad.add(p.arg)
        changed = True
        while changed:
            changed = False
            for nm, vals in binds.items():
                if nm in names or nm in bad:
                    continue
                if all(self.is_path(v, names | {nm}) and not (isinstance(v, ast.Name) and v.id == nm) for v in vals):
                    # at least one binding must be a path without assuming nm itself
                    if any(self.is_path(v, names) for v in vals):
                        names.add(nm)
                        changed = True
        return names

    # ------------------------------------------------------------------
    def run(self) -> ast.Module:
        if not self.cls_names and not self.mod_names:
            return self.tree
        self._scope(self.tree)
        if self.changed and not self.has_os:
            imp = ast.Import(names=[ast.alias(name="os", asname=None)])
            imp.lineno = 1
            imp.col_offset = 0
            imp.end_lineno = 1
            imp.end_col_offset = 0
            # keep a leading docstring first
            pos = 1 if (self.tree.body and isinstance(self.tree.body[0], ast.Expr) and isinstance(getattr(self.tree.body[0], "value", None), ast.Constant)
                        and isinstance(self.tree.body[0].value.value, str)) else 0
            self.tree.body.insert(pos, imp)
        return self.tree

    def _scope(self, fn: ast.AST):
        names = self.path_names(fn)
        params = set()
        if isinstance(fn, (ast.FunctionDef, ast.AsyncFunctionDef)):
            a = fn.args
            params = {p.arg for p in a.posonlyargs + a.args + a.kwonlyargs}
        self._block(fn.body, [], names, params)

    # -- flow-sensitive typing of a name at a use ---------------------------
    @staticmethod
    def _binds_somewhere(st: ast.AST, name: str) -> bool:
        for n in ast.walk(st):
            if isinstance(n, ast.Name) and n.id == name and isinstance(n.ctx, (ast.Store, ast.Del)):
                return True
        return False

    def _value_is_path(self, v: ast.AST, names: Set[str]) -> bool:
        return self._is_conv_path(v, names) or self.is_path(v, names)

    def _simple_binding(self, st: ast.AST, name: str):
        """value bound to `name` by the simple statement `st` at its top level, or None"""
        if isinstance(st, ast.Assign) and any(isinstance(t, ast.Name) and t.id == name for t in st.targets):
            return st.value
        if isinstance(st, ast.AnnAssign) and isinstance(st.target, ast.Name) and st.target.id == name and st.value is not None:
            return st.value
        return None

    def _lookup(self, name: str, stack, names: Set[str], params) -> bool:
        """Is `name` evidently a path at the statement stack[-1] = (block, index, owner)?  The nearest preceding binding
        decides; a binding hidden in a compound statement, a loop header or a back edge makes it unknown (False)."""
        if name in names:
            return True
        for (block, idx, owner) in reversed(stack):
            if owner is not None:
                if isinstance(owner, (ast.For, ast.AsyncFor, ast.While)):
                    # back edge: every binding anywhere in the loop must be a path binding; the header must not bind it
                    if isinstance(owner, (ast.For, ast.AsyncFor)) and self._binds_somewhere(owner.target, name):
                        return False
                    for n in ast.walk(owner):
                        if isinstance(n, ast.stmt) and n is not owner:
                            v = self._simple_binding(n, name)
                            if v is not None:
                                if not self._value_is_path(v, names):
                                    return False
                            elif isinstance(n, (ast.For, ast.AsyncFor)):
                                if self._binds_somewhere(n.target, name):
                                    return False
                            elif isinstance(n, (ast.With, ast.AsyncWith)):
                                if any(it.optional_vars is not None and self._binds_somewhere(it.optional_vars, name) for it in n.items):
                                    return False
                            elif not isinstance(n, (ast.While, ast.If, ast.Try)) and self._binds_somewhere(n, name):
                                return False
                elif isinstance(owner, (ast.With, ast.AsyncWith)):
                    if any(it.optional_vars is not None and self._binds_somewhere(it.optional_vars, name) for it in owner.items):
                        return False
                elif isinstance(owner, ast.ExceptHandler):
                    if owner.name == name:
                        return False
            for j in range(idx - 1, -1, -1):
                st = block[j]
                v = self._simple_binding(st, name)
                if v is not None:
                    return self._value_is_path(v, names)
                if self._binds_somewhere(st, name):
                    return False
        return False

    def _block(self, stmts, stack, names, params):
        for i in range(len(stmts)):
            st = stmts[i]
            here = stack + [(stmts, i, None)]
            if isinstance(st, (ast.FunctionDef, ast.AsyncFunctionDef)):
                self._scope(st)
                continue
            if isinstance(st, ast.ClassDef):
                for b in st.body:
                    if isinstance(b, (ast.FunctionDef, ast.AsyncFunctionDef)):
                        self._scope(b)
                continue
            conv = self._expr_converter(here, names, params)
            # header expressions of this statement (not nested statement lists)
            for f, val in list(ast.iter_fields(st)):
                if f in ("body", "orelse", "finalbody", "handlers", "cases"):
                    continue
                if isinstance(val, ast.AST):
                    setattr(st, f, conv.visit(val))
                elif isinstance(val, list):
                    setattr(st, f, [conv.visit(x) if isinstance(x, ast.AST) else x for x in val])
            for f in ("body", "orelse", "finalbody"):
                sub = getattr(st, f, None)
                if isinstance(sub, list) and sub and isinstance(sub[0], ast.stmt):
                    self._block_in(sub, stack, stmts, i, st if f == "body" else None, names, params)
            for h in getattr(st, "handlers", []) or []:
                if h.type is not None:
                    h.type = conv.visit(h.type)
                self._block_in(h.body, stack, stmts, i, h, names, params)
            for c in getattr(st, "cases", []) or []:
                self._block_in(c.body, stack, stmts, i, None, names, params)

    def _block_in(self, sub, stack, stmts, i, owner, names, params):
        # statements of a nested block see the statements before their owner in the enclosing block
        self._block(sub, stack + [(stmts, i, owner)], names, params)

    def _expr_converter(self, here, names, params):
        outer = self

        class Names(set):
            def __contains__(s, nm):  # noqa: N805
                return outer._lookup(nm, here, names, params)

        dyn = Names()

        class T(ast.NodeTransformer):
            def visit_Lambda(self, node):
                return node

            def visit_BinOp(self, node):
                self.generic_visit(node)
                return outer._conv(node, dyn) or node

            def visit_Call(self, node):
                self.generic_visit(node)
                return outer._conv(node, dyn) or node

            def visit_Attribute(self, node):
                self.generic_visit(node)
                return outer._conv(node, dyn) or node

        return T()

    # the conversion proper ----------------------------------------------
    def _conv(self, e: ast.AST, names: Set[str]) -> Optional[ast.AST]:
        """os-style replacement of expression `e`, whose sub-expressions are already converted; None if `e` is not a
        pathlib operation on an evident path. After conversion a path-typed sub-expression is either a Name in `names`
        or an os.path.* call produced here (marked with _sig_path)."""
        P = lambda x: self._is_conv_path(x, names)  # noqa: E731
        new = None
        if self.is_path_ctor(e):
            if e.keywords or any(isinstance(a, ast.Starred) for a in e.args):
                return None
            if len(e.args) == 0:
                new = ast.Constant(value=".")
            elif len(e.args) == 1:
                a0 = e.args[0]
                if not P(a0):
                    a0._sig_path = True
                    self.changed = True
                return a0
            else:
                new = _call("os.path.join", *e.args)
        elif isinstance(e, ast.BinOp) and isinstance(e.op, ast.Div) and (P(e.left) or P(e.right)):
            new = _call("os.path.join", e.left, e.right)
        elif isinstance(e, ast.Attribute) and isinstance(e.ctx, ast.Load) and P(e.value):
            if e.attr == "parent":
                new = _call("os.path.dirname", e.value)
            elif e.attr == "name":
                new = _call("os.path.basename", e.value)
                new._sig_path = False
                self.changed = True
                return _fix(new, e)
            else:
                return None
        elif isinstance(e, ast.Call) and isinstance(e.func, ast.Name) and e.func.id == "str" and len(e.args) == 1 and not e.keywords and P(e.args[0]):
            return e.args[0]
        elif isinstance(e, ast.Call) and isinstance(e.func, ast.Attribute) and e.func.attr == "fspath" and isinstance(e.func.value, ast.Name) and e.func.value.id == "os" \
                and len(e.args) == 1 and P(e.args[0]):
            return e.args[0]
        elif isinstance(e, ast.Call) and isinstance(e.func, ast.Attribute) and P(e.func.value):
            recv, m, args, kws = e.func.value, e.func.attr, e.args, {k.arg: k.value for k in e.keywords}
            if None in kws or any(isinstance(a, ast.Starred) for a in args):
                return None
            nonpath = None
            if m == "joinpath":
                new = _call("os.path.join", recv, *args)
            elif m == "with_name" and len(args) == 1:
                new = _call("os.path.join", _call("os.path.dirname", recv), args[0])
            elif m == "resolve":
                new = _call("os.path.realpath", recv)
            elif m == "absolute" and not args:
                new = _call("os.path.abspath", recv)
            elif m == "expanduser" and not args:
                new = _call("os.path.expanduser", recv)
            elif m == "relative_to" and len(args) == 1:
                nonpath = _call("os.path.relpath", recv, args[0])
            elif m in ("exists", "is_file", "is_dir", "is_symlink") and not args:
                nonpath = _call("os.path." + {"exists": "exists", "is_file": "isfile", "is_dir": "isdir", "is_symlink": "islink"}[m], recv)
            elif m in ("replace", "rename") and len(args) == 1 and not kws:
                nonpath = _call("os." + m, recv, args[0])
            elif m == "unlink" and not args and not kws:
                nonpath = _call("os.remove", recv)
            elif m == "rmdir" and not args and not kws:
                nonpath = _call("os.rmdir", recv)
            elif m == "mkdir" and not args and set(kws) <= {"parents", "exist_ok", "mode"}:
                par = kws.get("parents")
                if par is None or (isinstance(par, ast.Constant) and par.value is False):
                    if "exist_ok" in kws:
                        nonpath = _call("os.makedirs", recv, exist_ok=kws["exist_ok"])
                    else:
                        nonpath = _call("os.mkdir", recv)
                else:
                    nonpath = _call("os.makedirs", recv, **({"exist_ok": kws["exist_ok"]} if "exist_ok" in kws else {}))
            elif m == "open":
                nonpath = ast.Call(func=ast.Name(id="open", ctx=ast.Load()), args=[recv] + list(args), keywords=list(e.keywords))
            elif m in ("write_text", "write_bytes") and len(args) >= 1:
                op = ast.Call(func=ast.Name(id="open", ctx=ast.Load()), args=[recv, ast.Constant(value="w" if m == "write_text" else "wb")], keywords=[])
                nonpath = ast.Call(func=ast.Attribute(value=op, attr="write", ctx=ast.Load()), args=[args[0]], keywords=[])
            elif m in ("read_text", "read_bytes"):
                op = ast.Call(func=ast.Name(id="open", ctx=ast.Load()), args=[recv] + ([ast.Constant(value="rb")] if m == "read_bytes" else []), keywords=[])
                nonpath = ast.Call(func=ast.Attribute(value=op, attr="read", ctx=ast.Load()), args=[], keywords=[])
            elif m == "symlink_to" and len(args) >= 1:
                nonpath = _call("os.symlink", args[0], recv)
            elif m in ("stat", "lstat") and not args and not kws:
                nonpath = _call("os." + m, recv)
            elif m == "touch":
                op = ast.Call(func=ast.Name(id="open", ctx=ast.Load()), args=[recv, ast.Constant(value="a")], keywords=[])
                nonpath = ast.Call(func=ast.Attribute(value=op, attr="close", ctx=ast.Load()), args=[], keywords=[])
            elif m == "iterdir" and not args:
                # names joined with the directory: [os.path.join(P, n) for n in os.listdir(P)]
                return None
            else:
                return None
            if nonpath is not None:
                nonpath._sig_path = False
                self.changed = True
                return _fix(nonpath, e)
        if new is None:
            return None
        new._sig_path = True
        self.changed = True
        return _fix(new, e)

    def _is_conv_path(self, e: ast.AST, names: Set[str]) -> bool:
        if getattr(e, "_sig_path", False):
            return True
        if isinstance(e, ast.Name):
            return e.id in names
        if isinstance(e, ast.NamedExpr):
            return self._is_conv_path(e.value, names)
        return False


def normalise_pathlib(tree: ast.Module) -> ast.Module:
    return PathNormaliser(tree).run()
