"""sigstat.selftest - test the checker both ways (thorough tier).

For a property P:
  * every seeded mutant that seeded/expected.json lists for P is applied to a scratch copy of the *current* /repo/signac
    and P's quick check must exit 1 on it (the rule fires);
  * every benign variant (seeded/benign/*.json, behaviour-preserving edits) that touches code P looks at is applied and
    P's quick check must exit 0 (the rule stays silent);
  * every whole-package transformation of sigstat.transforms (re-emit, rename all locals, constant-first comparisons,
    swapped if/else, hoisted return values, sorted keyword arguments, aliased imports) is applied and P's quick check must exit 0.
A variant whose patch / text no longer applies to the current tree is reported as stale and skipped.
Scratch copies live under $TMPDIR (outside /repo and /verif) and are removed immediately.
"""
from __future__ import annotations

import glob
import json
import os
import shutil
import subprocess
import sys
import tempfile
from concurrent.futures import ThreadPoolExecutor

VERIF = os.path.dirname(os.path.dirname(os.path.abspath(__file__)))
SEEDED = os.path.join(VERIF, "seeded")


def _scratch(repo):
    tmp = tempfile.mkdtemp(prefix="sigstat-selftest-")
    shutil.copytree(os.path.join(repo, "signac"), os.path.join(tmp, "signac"), ignore=shutil.ignore_patterns("__pycache__"))
    return tmp


def _run_check(prop, tmp):
    r = subprocess.run([sys.executable, os.path.join(VERIF, "check"), prop, "--repo", tmp, "--evidence-dir", os.path.join(tmp, "_ev"), "--no-selftest", "--tier", "quick"],
                       capture_output=True, text=True, cwd=VERIF)
    lines = [l for l in r.stdout.splitlines() if l.startswith(("VIOLATION rule", "ANALYSIS-ERROR"))]
    return r.returncode, lines


def _mutant(prop, repo, mid):
    patch = os.path.join(SEEDED, mid, "patch.diff")
    tmp = _scratch(repo)
    try:
        r = subprocess.run(["patch", "-p1", "-s", "-f", "-i", patch], cwd=tmp, capture_output=True, text=True)
        if r.returncode != 0:
            return mid, "stale", []
        code, lines = _run_check(prop, tmp)
        return mid, ("fired" if code == 1 else ("inconclusive" if code == 2 else "MISSED")), lines[:2]
    finally:
        shutil.rmtree(tmp, ignore_errors=True)


def _benign(prop, repo, path):
    var = json.load(open(path))
    tmp = _scratch(repo)
    try:
        for e in var["edits"]:
            p = os.path.join(tmp, e["file"])
            try:
                s = open(p).read()
            except OSError:
                return var["id"], "stale", []
            if s.count(e["old"]) != 1:
                return var["id"], "stale", []
            open(p, "w").write(s.replace(e["old"], e["new"]))
        code, lines = _run_check(prop, tmp)
        return var["id"], ("silent" if code == 0 else ("FLAGGED" if code == 1 else "BROKE-ANALYSIS")), lines[:2]
    finally:
        shutil.rmtree(tmp, ignore_errors=True)


def _benign_patch(prop, repo, path, known_inc):
    """An independent behaviour-preserving refactoring (seeded/benign-indep/*.diff): the check must exit 0;
    exit 2 is tolerated only for the (variant, property) pairs listed in known_inconclusive.json; exit 1 never."""
    bid = "indep:" + os.path.basename(path)[:-5]
    tmp = _scratch(repo)
    try:
        r = subprocess.run(["patch", "-p1", "-s", "-f", "-i", path], cwd=tmp, capture_output=True, text=True)
        if r.returncode != 0:
            return bid, "stale", []
        code, lines = _run_check(prop, tmp)
        if code == 2 and prop in known_inc.get(os.path.basename(path)[:-5], {}):
            return bid, "known-inconclusive", lines[:1]
        return bid, ("silent" if code == 0 else ("FLAGGED" if code == 1 else "BROKE-ANALYSIS")), lines[:2]
    finally:
        shutil.rmtree(tmp, ignore_errors=True)


def _transformed(prop, repo, mode):
    """Whole-package behaviour-preserving transformation (sigstat.transforms): the check must stay silent."""
    from . import transforms
    tmp = _scratch(repo)
    try:
        try:
            transforms.transform(mode, os.path.join(tmp, "signac"))
        except Exception as e:  # the transformation itself failed (e.g. new syntax): not the checker's fault
            return "auto:" + mode, "stale", [f"transformation failed: {type(e).__name__}: {e}"]
        code, lines = _run_check(prop, tmp)
        return "auto:" + mode, ("silent" if code == 0 else ("FLAGGED" if code == 1 else "BROKE-ANALYSIS")), lines[:2]
    finally:
        shutil.rmtree(tmp, ignore_errors=True)


def run_for_property(prop, repo):
    exp_path = os.path.join(SEEDED, "expected.json")
    expected = json.load(open(exp_path)) if os.path.isfile(exp_path) else {}
    mutants = sorted(m for m, props in expected.items() if prop in props and os.path.isfile(os.path.join(SEEDED, m, "patch.diff")))
    benign = []
    for p in sorted(glob.glob(os.path.join(SEEDED, "benign", "*.json"))):
        try:
            if prop in json.load(open(p)).get("props", []):
                benign.append(p)
        except Exception:
            pass
    lines = []
    failed = False
    res_m, res_b = [], []
    with ThreadPoolExecutor(max_workers=min(16, (os.cpu_count() or 4))) as ex:
        fm = [ex.submit(_mutant, prop, repo, m) for m in mutants]
        fb = [ex.submit(_benign, prop, repo, b) for b in benign]
        from . import transforms
        ft = [ex.submit(_transformed, prop, repo, m) for m in transforms.MODES]
        kpath = os.path.join(SEEDED, "benign-indep", "known_inconclusive.json")
        known_inc = json.load(open(kpath)).get("variants", {}) if os.path.isfile(kpath) else {}
        fi_ = [ex.submit(_benign_patch, prop, repo, d, known_inc) for d in sorted(glob.glob(os.path.join(SEEDED, "benign-indep", "*.diff")))]
        res_m = [f.result() for f in fm]
        res_b = [f.result() for f in fb] + [f.result() for f in ft] + [f.result() for f in fi_]
    for mid, status, det in res_m:
        if status == "MISSED" or status == "inconclusive":
            failed = True
            lines.append(f"SELFTEST-FAIL property={prop} seeded mutant {mid} expected to fire but check was {status}")
    for bid, status, det in res_b:
        if status in ("FLAGGED", "BROKE-ANALYSIS"):
            failed = True
            lines.append(f"SELFTEST-FAIL property={prop} benign variant {bid} must stay silent but check {status}: {det[:1]}")
    # the loader's own transformations (helper expansion, restoration of renamed / moved / inlined reference functions) on synthetic programs
    import subprocess
    tools = os.path.join(os.path.dirname(os.path.dirname(os.path.abspath(__file__))), "tools")
    for script, marker in (("test_inline.py", "INLINE-SELFTEST OK"), ("test_restore.py", "RESTORE-SELFTEST OK")):
        r = subprocess.run([sys.executable, os.path.join(tools, script)], capture_output=True, text=True)
        if marker not in r.stdout:
            failed = True
            lines.append(f"SELFTEST-FAIL property={prop} loader self-test {script} failed: {(r.stdout + r.stderr).strip().splitlines()[-1:]}")
    fired = sum(1 for _, s, _ in res_m if s == "fired")
    silent = sum(1 for _, s, _ in res_b if s in ("silent", "known-inconclusive"))
    stale = sum(1 for _, s, _ in res_m + res_b if s == "stale")
    lines.append(f"SELFTEST property={prop} mutants fired {fired}/{len(res_m)} benign silent {silent}/{len(res_b)} stale {stale}")
    cov = {
        "mutants_expected": len(res_m), "mutants_fired": fired,
        "benign_variants": len(res_b), "benign_silent": silent, "stale": stale,
        "mutants": [{"id": m, "status": s, "first_report": (d[0][:200] if d else "")} for m, s, d in res_m],
        "benign": [{"id": b, "status": s} for b, s, _ in res_b],
    }
    return cov, failed, lines
